"""C01: a cached record of a *failed* (caught) build_file call is replayed
without looking at what is now at its target path.

Run as: PYTHONPATH=/tmp/wth_A /venv/bin/python demo.py
Exit status 1 = the library violates the property, 0 = it does not.
"""
import logging
import os
import shutil
import sys
import tempfile

from file_builder import FileBuilder

logging.disable(logging.CRITICAL)


def snapshot(root):
    """Return {relative path: 'dir' | file content}, without the cache."""
    result = {}
    for dirpath, dirnames, filenames in os.walk(root):
        for name in dirnames:
            result[os.path.relpath(os.path.join(dirpath, name), root)] = 'dir'
        for name in filenames:
            if name == 'cache.gz':
                continue
            path = os.path.join(dirpath, name)
            with open(path) as file_:
                result[os.path.relpath(path, root)] = file_.read()
    return result


def scenario(root, plant, from_scratch):
    """Build, plant something at the failed call's target, build again.

    If from_scratch, the second build is the reference execution: the outputs
    and the cache file of the first build are deleted first
    (FileBuilder.clean), so every function is really called.
    """
    target = os.path.join(root, 'out', 'x.txt')
    cache = os.path.join(root, 'cache.gz')
    calls = []

    def failing(builder, filename):
        calls.append('failing')
        with open(filename, 'w') as file_:
            file_.write('partial output')
        raise ValueError('cannot build x.txt')

    def step(builder):
        # A cacheable function that tolerates the failure of a nested call
        calls.append('step')
        try:
            builder.build_file(target, 'failing', failing)
            return 'built'
        except Exception as exception:
            return 'caught ' + type(exception).__name__

    def main(builder):
        result = builder.subbuild('step', step)
        return [result, builder.exists(target)]

    first = FileBuilder.build(cache, 'demo', main)
    assert first == ['caught ValueError', False], first

    # External change between the builds
    os.makedirs(os.path.dirname(target), exist_ok=True)
    if plant == 'file':
        with open(target, 'w') as file_:
            file_.write('foreign file')
    else:
        os.mkdir(target)
        with open(os.path.join(target, 'inner.txt'), 'w') as file_:
            file_.write('foreign file in a foreign directory')

    if from_scratch:
        FileBuilder.clean(cache, 'demo')
    del calls[:]
    second = FileBuilder.build(cache, 'demo', main)
    return second, list(calls), snapshot(root)


def main():
    violated = False
    for plant in ('file', 'directory'):
        roots = [tempfile.mkdtemp(), tempfile.mkdtemp()]
        try:
            incremental = scenario(roots[0], plant, False)
            reference = scenario(roots[1], plant, True)
        finally:
            for root in roots:
                shutil.rmtree(root, ignore_errors=True)
        print('--- a foreign {:s} is planted at out/x.txt, the target of '
              'the failed build_file call'.format(plant))
        for name, (result, calls, files) in (
                ('incremental ', incremental), ('from scratch', reference)):
            print('{:s}: result={!r} functions called={!r} files={!r}'.format(
                name, result, calls, files))
        if (incremental[0] != reference[0] or
                incremental[2] != reference[2]):
            print('VIOLATION: the incremental build differs from the '
                  'from-scratch build')
            violated = True
    return 1 if violated else 0


if __name__ == '__main__':
    sys.exit(main())

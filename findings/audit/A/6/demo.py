"""C01/C05: a cached return value comes back with its dict keys re-ordered.

A freshly computed return value keeps the key order the function produced
(JsonUtil.sanitize == json.loads(json.dumps(value)) keeps it).  The cache file
is written with json.dumps(..., sort_keys=True), so the *cached* value comes
back with alphabetically sorted keys.  A caller that iterates over the value
therefore behaves differently in an incremental build than in a from-scratch
build: here the root build function returns a different list and a different
output file is produced.

Run as: PYTHONPATH=/tmp/wth_A /venv/bin/python demo.py
Exit status 1 = the library violates the property, 0 = it does not.
"""
import logging
import os
import shutil
import sys
import tempfile

from file_builder import FileBuilder

logging.disable(logging.CRITICAL)


def scenario(root, from_scratch):
    cache = os.path.join(root, 'cache.gz')
    output = os.path.join(root, 'toc.txt')

    def scan_chapters(builder):
        # Chapters in reading order
        return {'preface': 1, 'introduction': 5, 'basics': 20, 'advanced': 60}

    def write_toc(builder, filename, lines):
        with open(filename, 'w') as file_:
            file_.write('\n'.join(lines))

    def main(builder):
        chapters = builder.subbuild('scan_chapters', scan_chapters)
        lines = [
            '{:s} ... {:d}'.format(title, page)
            for title, page in chapters.items()]
        builder.build_file(output, 'write_toc', write_toc, lines)
        return list(chapters)

    results = []
    for index in range(2):
        if from_scratch:
            FileBuilder.clean(cache, 'demo')
        result = FileBuilder.build(cache, 'demo', main)
        with open(output) as file_:
            results.append((result, file_.read().split('\n')))
    return results


def main():
    roots = [tempfile.mkdtemp(), tempfile.mkdtemp()]
    try:
        incremental = scenario(roots[0], False)
        reference = scenario(roots[1], True)
    finally:
        for root in roots:
            shutil.rmtree(root, ignore_errors=True)
    for index in range(2):
        print('build {:d}, nothing changed in between'.format(index + 1))
        print('  incremental : returned {!r}\n                toc.txt {!r}'.format(
            *incremental[index]))
        print('  from scratch: returned {!r}\n                toc.txt {!r}'.format(
            *reference[index]))
    if incremental != reference:
        print('VIOLATION: the unchanged rebuild returns a different value and '
              'leaves different file contents than the from-scratch build')
        return 1
    return 0


if __name__ == '__main__':
    sys.exit(main())

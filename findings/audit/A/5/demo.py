"""C05 / C06: a NaN in the arguments or in a version defeats the cache.

float('nan') is accepted as a JSON value (it is written to the cache file as
NaN and read back), but JsonUtil.is_equal / to_hashable compare it with ==,
and nan != nan.  So

* a subbuild or build_file call with a NaN anywhere in its arguments is
  re-executed (and its output rewritten) in every build, although a committed
  record for the same name, arguments and version exists and nothing changed;
* a function whose version contains a NaN, and all of its callers, are
  invalidated by every build although the version did not change.

Run as: PYTHONPATH=/tmp/wth_A /venv/bin/python demo.py
Exit status 1 = the library violates the property, 0 = it does not.
"""
import logging
import os
import shutil
import sys
import tempfile

from file_builder import FileBuilder

logging.disable(logging.CRITICAL)


def main():
    root = tempfile.mkdtemp()
    violated = False
    try:
        cache = os.path.join(root, 'cache.gz')
        output = os.path.join(root, 'out.txt')
        calls = []

        def scale(builder, factor):
            calls.append('scale')
            return 'scaled'

        def write(builder, filename, options):
            calls.append('write')
            with open(filename, 'w') as file_:
                file_.write('threshold {!r}'.format(options['threshold']))

        def versioned(builder):
            calls.append('versioned')
            return 'v'

        def caller(builder):
            calls.append('caller')
            return builder.subbuild('versioned', versioned)

        def build(builder):
            return [
                builder.subbuild('scale', scale, float('nan')),
                builder.build_file(
                    output, 'write', write, {'threshold': float('nan')}),
                builder.subbuild('caller', caller)]

        versions = {'versioned': {'tolerance': float('nan')}}
        FileBuilder.build_versioned(cache, 'demo', versions, build)
        stats = os.stat(output)
        for rebuild in (1, 2):
            del calls[:]
            FileBuilder.build_versioned(cache, 'demo', versions, build)
            new_stats = os.stat(output)
            rewritten = (
                (stats.st_ino, stats.st_mtime_ns) !=
                (new_stats.st_ino, new_stats.st_mtime_ns))
            stats = new_stats
            print('unchanged rebuild {:d}: functions called = {!r}, out.txt '
                  'rewritten = {!r}'.format(rebuild, calls, rewritten))
            if calls or rewritten:
                violated = True
    finally:
        shutil.rmtree(root, ignore_errors=True)
    if violated:
        print('VIOLATION: functions are re-executed although nothing changed '
              '(expected: no calls at all)')
    return 1 if violated else 0


if __name__ == '__main__':
    sys.exit(main())

"""C01: a read query that fails with a non-OSError is recorded as a success.

read_text/read_binary/declare_read on a path that the operating system
cannot represent (embedded NUL character, lone surrogate) raise ValueError /
UnicodeEncodeError.  The failed query is stored in the cache as a successful
query that returned None.  When the record is replayed, the same exception
escapes from subbuild()/build_file() instead of from the query inside the
function, so an unchanged rebuild fails although the first build (and a
from-scratch build) succeed.

Run as: PYTHONPATH=/tmp/wth_A /venv/bin/python demo.py
Exit status 1 = the library violates the property, 0 = it does not.
"""
import logging
import os
import shutil
import sys
import tempfile

from file_builder import FileBuilder

logging.disable(logging.CRITICAL)


def scenario(root, bad_name, from_scratch):
    cache = os.path.join(root, 'cache.gz')
    calls = []

    def load_config(builder, name):
        calls.append('load_config')
        try:
            with builder.read_text(os.path.join(root, name)) as file_:
                return file_.read()
        except (OSError, ValueError) as exception:
            # No usable configuration file: use the defaults
            return 'defaults ({:s})'.format(type(exception).__name__)

    def main(builder):
        return builder.subbuild('load_config', load_config, bad_name)

    results = []
    for index in range(2):
        if from_scratch:
            FileBuilder.clean(cache, 'demo')
        try:
            results.append(('returned', FileBuilder.build(cache, 'demo', main)))
        except Exception as exception:
            results.append(('raised', type(exception).__name__))
    return results, calls


def main():
    violated = False
    for bad_name in ('conf\0ig.txt', 'conf\ud800ig.txt'):
        roots = [tempfile.mkdtemp(), tempfile.mkdtemp()]
        try:
            incremental = scenario(roots[0], bad_name, False)
            reference = scenario(roots[1], bad_name, True)
        finally:
            for root in roots:
                shutil.rmtree(root, ignore_errors=True)
        print('--- file name {!a}: two builds, nothing changes in '
              'between'.format(bad_name))
        print('incremental : {!r} calls={!r}'.format(*incremental))
        print('from scratch: {!r} calls={!r}'.format(*reference))
        if incremental[0] != reference[0]:
            print('VIOLATION: the unchanged rebuild differs from the '
                  'from-scratch build')
            violated = True
    return 1 if violated else 0


if __name__ == '__main__':
    sys.exit(main())

"""C01: the cache lookup raises NotADirectoryError instead of re-executing.

When a directory that held a recorded output has been replaced by a regular
file, checking the recorded output raises NotADirectoryError out of
subbuild()/build_file() *before* the function is called.

Run as: PYTHONPATH=/tmp/wth_A /venv/bin/python demo.py
Exit status 1 = the library violates the property, 0 = it does not.
"""
import logging
import os
import shutil
import sys
import tempfile

from file_builder import FileBuilder

logging.disable(logging.CRITICAL)


def snapshot(root):
    result = {}
    for dirpath, dirnames, filenames in os.walk(root):
        for name in dirnames:
            result[os.path.relpath(os.path.join(dirpath, name), root)] = 'dir'
        for name in filenames:
            if name == 'cache.gz':
                continue
            path = os.path.join(dirpath, name)
            with open(path) as file_:
                result[os.path.relpath(path, root)] = file_.read()
    return result


def scenario(root, from_scratch):
    report_dir = os.path.join(root, 'reports')
    report = os.path.join(report_dir, 'report.txt')
    summary = os.path.join(root, 'summary.txt')
    cache = os.path.join(root, 'cache.gz')
    calls = []

    def write(builder, filename, text):
        calls.append('write ' + os.path.basename(filename))
        with open(filename, 'w') as file_:
            file_.write(text)

    def make_reports(builder):
        calls.append('make_reports')
        builder.build_file(summary, 'write', write, 'summary')
        try:
            builder.build_file(report, 'write', write, 'report')
            return 'summary and report'
        except OSError as exception:
            # e.g. "reports" is not a directory: do without the report
            return 'summary only ({:s})'.format(type(exception).__name__)

    def main(builder):
        return builder.subbuild('make_reports', make_reports)

    first = FileBuilder.build(cache, 'demo', main)
    assert first == 'summary and report', first

    # External change between the builds: "reports" becomes a regular file
    shutil.rmtree(report_dir)
    with open(report_dir, 'w') as file_:
        file_.write('now a file')

    if from_scratch:
        FileBuilder.clean(cache, 'demo')
    del calls[:]
    try:
        second = ('returned', FileBuilder.build(cache, 'demo', main))
    except Exception as exception:
        second = ('raised', type(exception).__name__, str(exception))
    return second, list(calls), snapshot(root)


def main():
    roots = [tempfile.mkdtemp(), tempfile.mkdtemp()]
    try:
        incremental = scenario(roots[0], False)
        reference = scenario(roots[1], True)
    finally:
        for root in roots:
            shutil.rmtree(root, ignore_errors=True)
    for name, (result, calls, files) in (
            ('incremental ', incremental), ('from scratch', reference)):
        print('{:s}: build {!r}\n    functions called={!r}\n    '
              'files={!r}'.format(name, result, calls, files))
    same = (
        incremental[0][:2] == reference[0][:2] and
        incremental[2] == reference[2])
    if not same:
        print('VIOLATION: the incremental build differs from the '
              'from-scratch build')
        return 1
    return 0


if __name__ == '__main__':
    sys.exit(main())

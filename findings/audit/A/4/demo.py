"""C01: an argument changed from 1 to 1.0 (or 0.0 to -0.0) is not noticed.

The functions really receive an int or a float (JsonUtil.sanitize keeps the
difference, like json.loads(json.dumps(value))), and can tell them apart, but
the cache key and the argument comparison use Python's ==, for which
1 == 1.0 and 0.0 == -0.0.  So the result computed for the old argument is
served for the new one.

Run as: PYTHONPATH=/tmp/wth_A /venv/bin/python demo.py
Exit status 1 = the library violates the property, 0 = it does not.
"""
import logging
import os
import shutil
import sys
import tempfile

from file_builder import FileBuilder

logging.disable(logging.CRITICAL)


def scenario(root, old_argument, new_argument, from_scratch):
    cache = os.path.join(root, 'cache.gz')
    output = os.path.join(root, 'out.txt')

    def describe(builder, value):
        return '{!r} is {:s}'.format(value, type(value).__name__)

    def write(builder, filename, value):
        with open(filename, 'w') as file_:
            file_.write('half of {!r} is {!r}'.format(value, value / 2))

    def main(builder, value):
        text = builder.subbuild('describe', describe, value)
        builder.build_file(output, 'write', write, value)
        return text

    FileBuilder.build(cache, 'demo', main, old_argument)
    if from_scratch:
        FileBuilder.clean(cache, 'demo')
    result = FileBuilder.build(cache, 'demo', main, new_argument)
    with open(output) as file_:
        return result, file_.read()


def main():
    violated = False
    for old_argument, new_argument in ((1, 1.0), (0.0, -0.0)):
        roots = [tempfile.mkdtemp(), tempfile.mkdtemp()]
        try:
            incremental = scenario(roots[0], old_argument, new_argument, False)
            reference = scenario(roots[1], old_argument, new_argument, True)
        finally:
            for root in roots:
                shutil.rmtree(root, ignore_errors=True)
        print('--- first build with argument {!r}, second build with '
              '{!r}'.format(old_argument, new_argument))
        print('incremental : result={!r} out.txt={!r}'.format(*incremental))
        print('from scratch: result={!r} out.txt={!r}'.format(*reference))
        if incremental != reference:
            print('VIOLATION: the changed argument does not show up')
            violated = True
    return 1 if violated else 0


if __name__ == '__main__':
    sys.exit(main())

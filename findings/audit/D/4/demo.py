"""C15: a cache file that is valid gzip + valid JSON of the wrong shape is
rejected only *after* side effects.

(a) clean(): "createdDirs" containing a non-string.  clean() deletes every
    output file and the cache file itself, and only then raises TypeError
    from _remove_empty_dirs -> the refused call changed the tree.
(b) build(): "funcVersions" not an object.  The root function (user code) is
    called; the build is refused with AttributeError at the first cache
    lookup and rolled back.
"""
import gzip
import json
import os
import shutil
import sys
import tempfile

from file_builder import FileBuilder


def write(builder, filename, text):
    with open(filename, 'w') as file_:
        file_.write(text)


def snapshot(root):
    result = {}
    for dir_, subdirs, subfiles in os.walk(root):
        result[dir_] = None
        for subfile in subfiles:
            path = os.path.join(dir_, subfile)
            with open(path, 'rb') as file_:
                result[path] = (file_.read(), os.stat(path).st_mtime_ns)
    return result


def main():
    base = tempfile.mkdtemp()
    private_tmp = os.path.join(base, 'tmp')
    os.mkdir(private_tmp)
    tempfile.tempdir = private_tmp  # so that leftover temp dirs are visible
    work = os.path.join(base, 'work')
    cache = os.path.join(work, 'cache.gz')
    out = os.path.join(work, 'out', 'a.txt')
    violated = False
    try:
        def fresh_tree(mutate):
            shutil.rmtree(work, ignore_errors=True)
            os.mkdir(work)
            FileBuilder.build(
                cache, 'demo', lambda b: b.build_file(out, 'write', write, 'x'))
            with gzip.open(cache, 'rt') as file_:
                cache_json = json.load(file_)
            mutate(cache_json)
            with gzip.open(cache, 'wt') as file_:
                json.dump(cache_json, file_)
            return snapshot(base)

        # (a) ---------------------------------------------------------------
        def bad_created_dirs(cache_json):
            cache_json['createdDirs'] = [None]
        before = fresh_tree(bad_created_dirs)
        try:
            FileBuilder.clean(cache, 'demo')
            print('(a) clean() accepted the cache file')
        except Exception as exception:
            after = snapshot(base)
            print('(a) clean() refused: %s: %s' % (
                type(exception).__name__, exception))
            if after != before:
                print('VIOLATION (a): the refused clean() changed the tree; '
                      'missing afterwards: %s' % sorted(
                          os.path.relpath(path, work)
                          for path in set(before) - set(after)))
                violated = True

        # (b) ---------------------------------------------------------------
        def bad_func_versions(cache_json):
            cache_json['funcVersions'] = []
        before = fresh_tree(bad_func_versions)
        user_calls = []

        def root(builder):
            user_calls.append('root')
            builder.build_file(out, 'write', write, 'x')
        try:
            FileBuilder.build(cache, 'demo', root)
            print('(b) build() accepted the cache file')
        except Exception as exception:
            after = snapshot(base)
            print('(b) build() refused: %s: %s; tree unchanged: %s; user '
                  'functions called: %s' % (
                      type(exception).__name__, exception, after == before,
                      user_calls))
            if after != before or user_calls:
                print('VIOLATION (b): the refused build() called user code '
                      'before rejecting the cache file')
                violated = True
    finally:
        tempfile.tempdir = None
        shutil.rmtree(base, ignore_errors=True)
    return 1 if violated else 0


if __name__ == '__main__':
    sys.exit(main())

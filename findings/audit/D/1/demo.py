"""C07: a path spelled with two leading slashes is a different cache identity.

On POSIX, os.path.abspath()/normpath() deliberately keep a prefix of exactly
two slashes ("//tmp/x" stays "//tmp/x"), although on Linux it names the same
file as "/tmp/x".  FileBuilder._sanitize_filename relies on abspath only, so
"/d/out/a.txt" and "//d/out/a.txt" (same file, redundant separator) are two
different cache keys.  Consequences shown here:

 (a) build 2 asks for the same file/function/arguments with the other
     spelling: the function is re-executed instead of being served from the
     cache, and
 (b) the *successful* build 2 ends with the output file deleted, because
     _commit removes "the old output /d/out/a.txt that was not rebuilt".
 (c) within one build, build_file on both spellings is accepted although it
     is the same file ("Building the same file twice is not allowed").
"""
import os
import shutil
import sys
import tempfile

from file_builder import FileBuilder

calls = []


def write(builder, filename, text):
    calls.append(filename)
    with open(filename, 'w') as file_:
        file_.write(text)
    return text


def main():
    if os.name != 'posix':
        print('POSIX only')
        return 0
    temp_dir = os.path.realpath(tempfile.mkdtemp())
    violated = False
    try:
        cache = os.path.join(temp_dir, 'cache.gz')
        out = os.path.join(temp_dir, 'out', 'a.txt')
        other_spelling = '/' + out  # '//tmp/...': redundant separator
        assert os.path.samefile(os.path.dirname(temp_dir),
                                '/' + os.path.dirname(temp_dir))

        FileBuilder.build(
            cache, 'demo', lambda b: b.build_file(out, 'write', write, 'x'))
        print('build 1 (%s): calls=%d, output exists=%s' % (
            out, len(calls), os.path.isfile(out)))

        result = FileBuilder.build(
            cache, 'demo',
            lambda b: b.build_file(other_spelling, 'write', write, 'x'))
        print('build 2 (%s): returned %r, calls=%d, output exists=%s' % (
            other_spelling, result, len(calls), os.path.isfile(out)))
        if len(calls) != 1:
            print('VIOLATION (a): same file, function and arguments were '
                  're-executed; the two spellings are different cache keys')
            violated = True
        if not os.path.isfile(out):
            print('VIOLATION (b): build 2 succeeded but its output file was '
                  'deleted at commit')
            violated = True

        # (c) same build, both spellings
        cache2 = os.path.join(temp_dir, 'cache2.gz')
        out2 = os.path.join(temp_dir, 'out2', 'b.txt')

        def twice(builder):
            builder.build_file(out2, 'write', write, '1')
            builder.build_file('/' + out2, 'write', write, '2')
        try:
            FileBuilder.build(cache2, 'demo', twice)
            print('VIOLATION (c): the same file was built twice in one build '
                  'without an error; content=%r' % open(out2).read())
            violated = True
        except RuntimeError as exception:
            print('same-build duplicate rejected:', exception)
    finally:
        shutil.rmtree(temp_dir, ignore_errors=True)
    return 1 if violated else 0


if __name__ == '__main__':
    sys.exit(main())

"""C16 (borderline): the cache file is written with sort_keys=True, so a dict
returned by a build_file/subbuild function comes back from the cache with its
keys in a different (sorted) order than the value originally returned.

The two dicts compare equal with ==, but they are observably different:
iteration order, list(d), json.dumps(d), "first key", text generated from it.
sanitize / json.loads(json.dumps(v)) both preserve insertion order, so the
value is NOT what a plain JSON round trip would give.
"""
import json
import os
import shutil
import sys
import tempfile

from file_builder import FileBuilder


def scan(builder):
    return {'zeta': 1, 'alpha': 2}


def root(builder):
    found = builder.subbuild('scan', scan)
    # e.g. a report that lists entries in the order in which they were found
    return ','.join(found), json.dumps(found)


def main():
    temp_dir = tempfile.mkdtemp()
    try:
        cache = os.path.join(temp_dir, 'cache.gz')
        fresh = FileBuilder.build(cache, 'demo', root)
        cached = FileBuilder.build(cache, 'demo', root)
        print('executed :', fresh)
        print('cached   :', cached)
        print('JSON round trip of the original:',
              json.dumps(json.loads(json.dumps(scan(None)))))
        if fresh != cached:
            print('VIOLATION: the dict served from the cache has a different '
                  'key order than the one originally returned')
            return 1
        return 0
    finally:
        shutil.rmtree(temp_dir, ignore_errors=True)


if __name__ == '__main__':
    sys.exit(main())

"""C18 / C07: sanitize() is not a JSON round trip for str subclasses.

JsonUtil.sanitize converts instances of str subclasses with ``str(value)``
(and dict keys with ``str(key)`` in _key_to_str).  ``str()`` dispatches to an
overridden ``__str__``; json.dumps does not - it serialises the real string
content.  The everyday case is the "JSON-friendly enum" idiom
``class Color(str, enum.Enum)``: ``str(Color.RED) == 'Color.RED'`` while
``json.loads(json.dumps(Color.RED)) == 'red'``.
(The same happens for int/float subclasses overriding __int__/__float__.)
"""
import enum
import json
import os
import shutil
import sys
import tempfile

from file_builder import FileBuilder
from file_builder.json_util import JsonUtil


class Color(str, enum.Enum):
    RED = 'red'


class Loud(str):
    def __str__(self):
        return self.upper()


def main():
    violated = False

    # --- C18: helper law "sanitize(v) == json.loads(json.dumps(v))" ---------
    for value in [Color.RED, [Color.RED], {Color.RED: 1}, {'k': Loud('a')},
                  {Loud('a'): 1}]:
        expected = json.loads(json.dumps(value))
        actual = JsonUtil.sanitize(value)
        ok = actual == expected
        print('sanitize(%r) = %r, JSON round trip = %r  %s' % (
            value, actual, expected, 'ok' if ok else 'VIOLATION'))
        violated |= not ok

    # --- C07: the callee does not get the round-tripped argument, and the ---
    # --- call is not the same cache entry as its JSON-equal spelling -------
    temp_dir = tempfile.mkdtemp()
    try:
        cache = os.path.join(temp_dir, 'cache.gz')
        received = []

        def paint(builder, color, **kwargs):
            received.append((color, kwargs))
            return color

        FileBuilder.build(
            cache, 'demo',
            lambda b: b.subbuild('paint', paint, Color.RED, **{'k': Color.RED}))
        print('callee received %r; JSON round trip of the arguments is %r' % (
            received[-1], ('red', {'k': 'red'})))
        if received[-1] != ('red', {'k': 'red'}):
            print('VIOLATION: the function did not receive the round-tripped '
                  'copies of its arguments')
            violated = True

        count = len(received)
        # 'red' is JSON-equal to Color.RED (json.dumps gives "red" for both)
        FileBuilder.build(
            cache, 'demo',
            lambda b: b.subbuild('paint', paint, 'red', k='red'))
        if len(received) != count:
            print('VIOLATION: subbuild(paint, "red") after '
                  'subbuild(paint, Color.RED) was re-executed, although the '
                  'arguments are equal as JSON values')
            violated = True
        count = len(received)
        # ... while a JSON-different value hits the entry
        FileBuilder.build(
            cache, 'demo',
            lambda b: b.subbuild('paint', paint, 'Color.RED', k='Color.RED'))
        FileBuilder.build(
            cache, 'demo',
            lambda b: b.subbuild('paint', paint, Color.RED, k=Color.RED))
        if len(received) == count + 1:
            print('VIOLATION: subbuild(paint, Color.RED) was served from the '
                  'entry of subbuild(paint, "Color.RED"), a different JSON '
                  'value')
            violated = True
    finally:
        shutil.rmtree(temp_dir, ignore_errors=True)
    return 1 if violated else 0


if __name__ == '__main__':
    sys.exit(main())

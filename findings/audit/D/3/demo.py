"""C18 / C16 / C07: a str holding a UTF-16 surrogate *pair* is changed by the
cache's write/read cycle but not by sanitize().

Python's json escapes the two code points U+D83D U+DE00 as "\\ud83d\\ude00",
and json.loads joins such an escaped pair into the single non-BMP character
U+1F600.  So for v = '\\ud83d\\ude00' (len 2):

    json.loads(json.dumps(v)) == '\\U0001f600'   (len 1)
    JsonUtil.sanitize(v)      == v                (len 2)

Lone surrogates survive the round trip; pairs do not.  Such strings come from
JSON produced by other tools and decoded loosely, from
bytes.decode('utf-16', 'surrogatepass') pieces, from JavaScript bridges, etc.
"""
import json
import os
import shutil
import sys
import tempfile

from file_builder import FileBuilder
from file_builder.json_util import JsonUtil

PAIR = chr(0xD83D) + chr(0xDE00)     # two code points
JOINED = chr(0x1F600)                # what the JSON round trip makes of it


def main():
    violated = False
    assert json.loads(json.dumps(PAIR)) == JOINED and PAIR != JOINED

    # C18: sanitize is supposed to be exactly the JSON round trip
    for value in [PAIR, [PAIR], {PAIR: 0}]:
        expected = json.loads(json.dumps(value))
        actual = JsonUtil.sanitize(value)
        if actual != expected:
            print('VIOLATION (C18): sanitize(%a) = %a, JSON round trip = %a' %
                  (value, actual, expected))
            violated = True
    if not JsonUtil.is_equal(JsonUtil.sanitize(PAIR), JOINED):
        print('VIOLATION (C18/C07): %a and %a are equal after a JSON round '
              'trip but not is_equal / same hashable form' % (PAIR, JOINED))
        violated = True

    temp_dir = tempfile.mkdtemp()
    try:
        # C16: value served from the cache != value originally returned
        cache = os.path.join(temp_dir, 'cache.gz')
        calls = []

        def produce(builder):
            calls.append('produce')
            return [PAIR]

        fresh = FileBuilder.build(
            cache, 'demo', lambda b: b.subbuild('produce', produce))
        cached = FileBuilder.build(
            cache, 'demo', lambda b: b.subbuild('produce', produce))
        print('fresh  return value: %a' % fresh)
        print('cached return value: %a (function calls: %d)' % (
            cached, len(calls)))
        if fresh != cached:
            print('VIOLATION (C16): the value served from the cache differs '
                  'from the value originally returned')
            violated = True

        # C07/C16: the recorded argument does not survive either, so the very
        # same call is never found in the cache again
        cache2 = os.path.join(temp_dir, 'cache2.gz')
        del calls[:]

        def consume(builder, text):
            calls.append(text)
            return len(text)

        for _ in range(3):
            FileBuilder.build(
                cache2, 'demo', lambda b: b.subbuild('consume', consume, PAIR))
        print('3 identical builds of subbuild(consume, %a): function '
              'executed %d times' % (PAIR, len(calls)))
        if len(calls) != 1:
            print('VIOLATION (C07): identical name and arguments, yet never '
                  'the same cache entry (key in the cache file is %a)' %
                  JOINED)
            violated = True
    finally:
        shutil.rmtree(temp_dir, ignore_errors=True)
    return 1 if violated else 0


if __name__ == '__main__':
    sys.exit(main())

"""C10/C04: build_file (or subbuild) fails with NotADirectoryError during the
cache lookup, without running its function, when a directory that held a
NESTED output of the previous build has been replaced by a regular file.

Build 1:  build_file(out/y) whose function also does (and guards with
          try/except) build_file(out/sub/z).
Between:  the directory out/sub is replaced by a foreign regular file.
Build 2:  the same program.

From scratch (fresh directory that only contains the foreign file out/sub) the
nested build_file(out/sub/z) fails with NotADirectoryError, the function of
out/y catches that and out/y is built.  Incrementally, build_file(out/y) itself
raises NotADirectoryError out of _build_file_cache_lookup: os.stat(out/sub/z)
raises NotADirectoryError, which _noneable_file_comparison_result does not
treat as "the file is not there".
"""
import logging
import os
import shutil
import sys
import tempfile

from file_builder import FileBuilder

logging.disable(logging.CRITICAL)


def run(root_dir, log):
    target_y = os.path.join(root_dir, 'out', 'y')
    target_z = os.path.join(root_dir, 'out', 'sub', 'z')

    def build_z(builder, filename):
        with open(filename, 'w') as file_:
            file_.write('z')

    def build_y(builder, filename):
        log.append('function of out/y called')
        try:
            builder.build_file(target_z, 'build_z', build_z)
            nested = 'built'
        except OSError as exception:
            nested = type(exception).__name__
        with open(filename, 'w') as file_:
            file_.write('y')
        return 'nested: ' + nested

    def build(builder):
        try:
            result = builder.build_file(target_y, 'build_y', build_y)
        except Exception as exception:
            result = 'build_file(out/y) RAISED ' + repr(exception)
        return (result, builder.is_file(target_y))

    result = FileBuilder.build(
        os.path.join(root_dir, 'cache.gz'), 'demo', build)
    return result + (os.path.isfile(target_y),)


def main():
    base = tempfile.mkdtemp(prefix='fb_demo_')
    try:
        # Incremental: build, replace the directory out/sub by a file, build
        incremental_dir = os.path.join(base, 'incremental')
        os.makedirs(incremental_dir)
        log = []
        print('build 1:', run(incremental_dir, log))
        shutil.rmtree(os.path.join(incremental_dir, 'out', 'sub'))
        with open(os.path.join(incremental_dir, 'out', 'sub'), 'w') as file_:
            file_.write('foreign')
        log.clear()
        incremental = run(incremental_dir, log)
        incremental_calls = list(log)

        # From scratch: a directory that only has the foreign file out/sub
        scratch_dir = os.path.join(base, 'scratch')
        os.makedirs(os.path.join(scratch_dir, 'out'))
        with open(os.path.join(scratch_dir, 'out', 'sub'), 'w') as file_:
            file_.write('foreign')
        log = []
        scratch = run(scratch_dir, log)

        print('build 2, incremental  (result, virtual is_file(out/y), '
              'on disk):', incremental, incremental_calls)
        print('build 2, from scratch (result, virtual is_file(out/y), '
              'on disk):', scratch, log)
    finally:
        shutil.rmtree(base)

    if incremental != scratch:
        print('VIOLATION: build_file(out/y) did not behave as in a build '
              'from scratch')
        return 1
    print('OK')
    return 0


if __name__ == '__main__':
    sys.exit(main())

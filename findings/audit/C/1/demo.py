"""C08: a rejected duplicate build_file (other thread) destroys the output of
the first, successful call.

Thread B calls build_file(F) at (almost) the same time as thread A.  B passes
the early duplicate check (_assert_build_file_call_valid) before A has claimed
F, A then runs to completion, and B continues: it finds a regular file at F,
moves it to the backup directory (FileBuilder._build_file, "in preparation for
rebuilding the file") and only THEN tries to claim F, which raises the
RuntimeError.  B's call is rejected as required - but A's output is gone.

The schedule is forced with a pass-through wrapper around os.path.isdir (the
first stdlib call B makes after the duplicate check); the library itself is
not modified.
"""
import logging
import os
import shutil
import sys
import tempfile
import threading

from file_builder import FileBuilder

logging.disable(logging.CRITICAL)


def main():
    root_dir = tempfile.mkdtemp(prefix='fb_demo_')
    target = os.path.join(root_dir, 'out.txt')
    cache = os.path.join(root_dir, 'cache.gz')

    b_passed_check = threading.Event()
    a_done = threading.Event()
    calls = {'A': 0, 'B': 0}
    results = {}
    b_thread_ident = []

    real_isdir = os.path.isdir

    def isdir(path):
        # Pure pass-through; only used to force the interleaving: the first
        # time thread B asks about the target (first statement of
        # _prepare_file_creation, i.e. right after the duplicate check), it is
        # suspended until thread A's build_file call has returned.
        if (b_thread_ident and
                threading.get_ident() == b_thread_ident[0] and
                path == target and not b_passed_check.is_set()):
            b_passed_check.set()
            a_done.wait(10)
        return real_isdir(path)

    def func_a(builder, filename):
        calls['A'] += 1
        with open(filename, 'w') as file_:
            file_.write('written by A')
        return 'A'

    def func_b(builder, filename):
        calls['B'] += 1
        with open(filename, 'w') as file_:
            file_.write('written by B')
        return 'B'

    def thread_a(builder):
        b_passed_check.wait(10)
        try:
            results['A'] = ('returned', builder.build_file(
                target, 'make', func_a))
        except Exception as exception:
            results['A'] = ('raised', repr(exception))
        results['A exists after A returned'] = os.path.isfile(target)
        a_done.set()

    def thread_b(builder):
        b_thread_ident.append(threading.get_ident())
        try:
            results['B'] = ('returned', builder.build_file(
                target, 'make', func_b))
        except Exception as exception:
            results['B'] = ('raised', repr(exception))

    observed = {}

    def build(builder):
        thread1 = threading.Thread(target=thread_a, args=(builder,))
        thread2 = threading.Thread(target=thread_b, args=(builder,))
        thread1.start()
        thread2.start()
        thread1.join()
        thread2.join()
        observed['virtual is_file'] = builder.is_file(target)
        observed['on disk (in build)'] = os.path.isfile(target)
        try:
            with builder.read_text(target) as file_:
                observed['read_text'] = file_.read()
        except Exception as exception:
            observed['read_text'] = repr(exception)

    os.path.isdir = isdir
    try:
        FileBuilder.build(cache, 'demo', build)
    finally:
        os.path.isdir = real_isdir

    observed['on disk (after build)'] = os.path.isfile(target)
    shutil.rmtree(root_dir)

    print('thread A (first claim):', results.get('A'))
    print('thread B (duplicate)  :', results.get('B'))
    print('function calls        :', calls)
    print('file present right after A returned:',
          results.get('A exists after A returned'))
    for key, value in observed.items():
        print('{:s}: {!r}'.format(key, value))

    ok = (
        results.get('A') == ('returned', 'A') and
        results.get('B', ('', ''))[0] == 'raised' and
        'RuntimeError' in results['B'][1] and
        calls == {'A': 1, 'B': 0} and
        observed['on disk (in build)'] and
        observed['on disk (after build)'] and
        observed['read_text'] == 'written by A')
    disturbed, runs = unforced_stress(False)
    print('unforced stress, first build (no schedule forcing, two threads '
          'released by a barrier): in {:d} of {:d} builds the call that ran '
          'its function lost its output'.format(disturbed, runs))
    disturbed_cached, runs = unforced_stress(True)
    print('unforced stress, rebuild with a valid cache entry: in {:d} of {:d} '
          'builds one call returned the cached result, the other raised '
          'RuntimeError, and the (unchanged) output was gone '
          'afterwards'.format(disturbed_cached, runs))

    if ok and disturbed == 0 and disturbed_cached == 0:
        print('OK: the rejected duplicate left the first output alone')
        return 0
    else:
        print('VIOLATION: the rejected duplicate build_file disturbed the '
              "first call's output")
        return 1


def unforced_stress(with_cache, runs=150):
    """The same race without any forced schedule.

    Two threads, released by a barrier, call build_file for the same path.
    Count the builds in which exactly one call "won" (ran its function or
    reused the cache entry), but its output is missing or wrong afterwards, or
    in which the call that ran its function failed ("didn't create that file").
    If with_cache, a single-threaded build fills the cache first, and the
    racing build could simply reuse the output.
    """
    root_dir = tempfile.mkdtemp(prefix='fb_demo_')
    old_interval = sys.getswitchinterval()
    sys.setswitchinterval(1e-5)
    disturbed = 0
    try:
        for index in range(runs):
            target = os.path.join(root_dir, 'o{:d}'.format(index), 'd', 'f')
            cache = os.path.join(root_dir, 'c{:d}.gz'.format(index))
            called = []

            def nested(builder):
                return builder.is_file(os.path.join(root_dir, 'nope'))

            def write(builder, filename):
                called.append(threading.current_thread().name)
                builder.subbuild('nested', nested)
                with open(filename, 'w') as file_:
                    file_.write('content')
                return 'value'

            if with_cache:
                FileBuilder.build(
                    cache, 'demo',
                    lambda builder: builder.build_file(target, 'write', write))
                del called[:]

            barrier = threading.Barrier(2)
            results = {}

            def worker(builder):
                barrier.wait()
                name = threading.current_thread().name
                try:
                    results[name] = builder.build_file(target, 'write', write)
                except Exception as exception:
                    results[name] = exception

            def build(builder):
                threads = [
                    threading.Thread(target=worker, args=(builder,), name=name)
                    for name in ('A', 'B')]
                for thread in threads:
                    thread.start()
                for thread in threads:
                    thread.join()

            FileBuilder.build(cache, 'demo', build)
            winners = [
                name for name in ('A', 'B') if results[name] == 'value']
            fine = (
                len(winners) == 1 and
                len(called) == (0 if with_cache else 1) and
                os.path.isfile(target))
            if not fine:
                disturbed += 1
    finally:
        sys.setswitchinterval(old_interval)
        shutil.rmtree(root_dir)
    return disturbed, runs


if __name__ == '__main__':
    sys.exit(main())

"""C10/C04 (low confidence, corner case): build_file on the directory that
holds the cache file.

The cache file lives in a directory K that the build itself creates
(cache = K/cache.gz).  The build function tries build_file(K) and tolerates the
IsADirectoryError.

Build 1 (from scratch): K was created at the start of the build for the cache
file, so build_file(K) raises IsADirectoryError; the build succeeds.
Build 2 (identical, nothing changed): K is now "a directory created by the
previous build that only holds the cache file", i.e. virtually removed, so
_prepare_file_creation/_make_room moves the cache file away, removes K and
build_file(K) SUCCEEDS in creating a regular file K.  At the end the cache
cannot be written (K is a file): FileBuilder.build raises NotADirectoryError
and rolls back.  Every later build fails the same way.
"""
import logging
import os
import shutil
import sys
import tempfile

from file_builder import FileBuilder

logging.disable(logging.CRITICAL)


def main():
    root_dir = tempfile.mkdtemp(prefix='fb_demo_')
    cache_dir = os.path.join(root_dir, 'k')
    cache = os.path.join(cache_dir, 'cache.gz')

    def write(builder, filename):
        with open(filename, 'w') as file_:
            file_.write('x')
        return 'built'

    def build(builder):
        try:
            return builder.build_file(cache_dir, 'write', write)
        except IsADirectoryError:
            return 'IsADirectoryError'

    outcomes = []
    try:
        for _ in range(3):
            try:
                outcomes.append(FileBuilder.build(cache, 'demo', build))
            except Exception as exception:
                outcomes.append('build RAISED ' + repr(exception))
    finally:
        shutil.rmtree(root_dir)

    for index, outcome in enumerate(outcomes):
        print('build {:d}: {:s}'.format(index + 1, outcome))
    if len(set(outcomes)) != 1:
        print('VIOLATION: the identical rebuild does not behave like the '
              'build from scratch')
        return 1
    print('OK')
    return 0


if __name__ == '__main__':
    sys.exit(main())

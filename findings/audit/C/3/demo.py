"""C04/C10: a failed build_file that is replayed from the cache (as part of a
reused subbuild) no longer removes a foreign file at its target, so the target
"exists" after the failure.

Build 1:  subbuild S: try: build_file(out/t, func that raises)  except: pass
Between:  somebody creates a (foreign) regular file at out/t.
Build 2:  the same program, then the root function looks at out/t.

From scratch (fresh directory containing just the foreign file out/t):
build_file moves the existing file out of the way, the function raises, and
afterwards out/t does not exist - neither in the virtual view nor on disk.
Incrementally S is served from the cache, including its record of the failed
build_file(out/t); nothing checks the state of the target of a failed record,
so out/t is still there: is_file/exists/list_dir/read see it and it stays on
disk.
"""
import logging
import os
import shutil
import sys
import tempfile

from file_builder import FileBuilder

logging.disable(logging.CRITICAL)


class BuildFailed(Exception):
    pass


def run(root_dir, log):
    out_dir = os.path.join(root_dir, 'out')
    target = os.path.join(out_dir, 't')

    def failing(builder, filename):
        log.append('failing function called; target present at start: '
                   '{!r}'.format(os.path.exists(filename)))
        raise BuildFailed()

    def subbuild(builder):
        try:
            builder.build_file(target, 'failing', failing)
            return 'built'
        except BuildFailed:
            return 'failed'

    def build(builder):
        result = builder.subbuild('subbuild', subbuild)
        observed = {
            'subbuild': result,
            'exists': builder.exists(target),
            'is_file': builder.is_file(target),
            'list_dir(out)': builder.list_dir(out_dir),
        }
        try:
            builder.declare_read(target)
            observed['declare_read'] = 'ok'
        except OSError as exception:
            observed['declare_read'] = type(exception).__name__
        return observed

    observed = FileBuilder.build(
        os.path.join(root_dir, 'cache.gz'), 'demo', build)
    observed['on disk after build'] = os.path.exists(target)
    return observed


def main():
    base = tempfile.mkdtemp(prefix='fb_demo_')
    try:
        incremental_dir = os.path.join(base, 'incremental')
        os.makedirs(os.path.join(incremental_dir, 'out'))
        log = []
        print('build 1:', run(incremental_dir, log), log)
        with open(os.path.join(incremental_dir, 'out', 't'), 'w') as file_:
            file_.write('foreign')
        log = []
        incremental = run(incremental_dir, log)
        print('build 2, incremental :', incremental, log)

        scratch_dir = os.path.join(base, 'scratch')
        os.makedirs(os.path.join(scratch_dir, 'out'))
        with open(os.path.join(scratch_dir, 'out', 't'), 'w') as file_:
            file_.write('foreign')
        log = []
        scratch = run(scratch_dir, log)
        print('build 2, from scratch:', scratch, log)
    finally:
        shutil.rmtree(base)

    if incremental != scratch:
        print('VIOLATION: after the (replayed) failed build_file the target '
              'still exists; from scratch it does not')
        return 1
    print('OK')
    return 0


if __name__ == '__main__':
    sys.exit(main())

"""C17: a build_file call on a builder that is closed while the call is in
flight raises RuntimeError ("already finished") but is NOT without effect: the
file it built stays on disk, is visible in the virtual view and is recorded in
the cache as an output of the build - it is just not part of any record.

The subbuild function starts a straggler thread that calls
builder.build_file(G) on the subbuild's builder and returns without joining it.
The straggler's build function finishes after the subbuild has been closed.
"""
import logging
import os
import shutil
import sys
import tempfile
import threading

from file_builder import FileBuilder

logging.disable(logging.CRITICAL)


def main():
    root_dir = tempfile.mkdtemp(prefix='fb_demo_')
    target = os.path.join(root_dir, 'out', 'g.txt')
    cache = os.path.join(root_dir, 'cache.gz')
    in_flight = threading.Event()
    subbuild_closed = threading.Event()
    straggler = {}
    threads = []

    def build_g(builder, filename):
        in_flight.set()
        subbuild_closed.wait(10)
        with open(filename, 'w') as file_:
            file_.write('g')
        return 'g'

    def straggle(sub_builder):
        try:
            straggler['result'] = ('returned', sub_builder.build_file(
                target, 'build_g', build_g))
        except Exception as exception:
            straggler['result'] = ('raised', repr(exception))

    def subbuild(sub_builder):
        thread = threading.Thread(target=straggle, args=(sub_builder,))
        threads.append(thread)
        thread.start()
        in_flight.wait(10)
        return 'done'  # returns while build_file(G) is still running

    observed = {}

    def build(builder):
        builder.subbuild('subbuild', subbuild)
        subbuild_closed.set()
        threads[0].join()
        observed['virtual is_file(G) later in the build'] = builder.is_file(
            target)

    def build2(builder):
        # identical program, nothing changed: the subbuild is served from the
        # cache, whose record does not contain build_file(G)
        builder.subbuild('subbuild', subbuild)
        observed['second build: is_file(G)'] = builder.is_file(target)

    try:
        FileBuilder.build(cache, 'demo', build)
        observed['G on disk after the build'] = os.path.isfile(target)
        FileBuilder.build(cache, 'demo', build2)
        observed['G on disk after an identical second build'] = (
            os.path.isfile(target))
    finally:
        shutil.rmtree(root_dir)

    print('straggler build_file call:', straggler['result'])
    for key, value in observed.items():
        print('{:s}: {!r}'.format(key, value))

    raised = (straggler['result'][0] == 'raised' and
              'RuntimeError' in straggler['result'][1])
    had_effect = (observed['virtual is_file(G) later in the build'] or
                  observed['G on disk after the build'])
    if raised and had_effect:
        print('VIOLATION: the call raised RuntimeError (builder finished) but '
              'it did have an effect')
        return 1
    print('OK')
    return 0


if __name__ == '__main__':
    sys.exit(main())

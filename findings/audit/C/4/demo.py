"""C10 (and C08): values whose type is a subclass of str (e.g. members of a
``class Color(str, Enum)``), int or float are not JSON-normalised the way
json.loads(json.dumps(value)) does it.

JsonUtil.sanitize converts such values with str(value) / int(value) /
float(value), which dispatch to the subclass' __str__ / __int__ / __float__,
whereas json.dumps encodes the underlying str / int / float data.  So the
return value of a build_file function, and the arguments its function
receives, come back different from their JSON round trip, and two subbuild
calls whose arguments are JSON-equal are both executed in one build.
"""
import enum
import json
import logging
import os
import shutil
import sys
import tempfile

from file_builder import FileBuilder

logging.disable(logging.CRITICAL)


class Color(str, enum.Enum):
    RED = 'red'


class Celsius(float):
    def __float__(self):
        return 273.15 + float.__add__(self, 0.0)


def main():
    root_dir = tempfile.mkdtemp(prefix='fb_demo_')
    target = os.path.join(root_dir, 'out.txt')
    values = [Color.RED, {Color.RED: 1}, Celsius(20.0)]
    expected = json.loads(json.dumps(values))
    observed = {}

    def make(builder, filename, args):
        observed['argument received by function'] = args
        with open(filename, 'w') as file_:
            file_.write('x')
        return values

    calls = []

    def sub(builder, color):
        calls.append(color)
        return len(calls)

    def build(builder):
        observed['build_file return value'] = builder.build_file(
            target, 'make', make, values)
        first = builder.subbuild('sub', sub, 'red')
        try:
            second = builder.subbuild('sub', sub, Color.RED)
        except RuntimeError:
            second = 'RuntimeError'
        observed['two JSON-equal subbuilds'] = [first, second]

    try:
        FileBuilder.build(os.path.join(root_dir, 'cache.gz'), 'demo', build)
    finally:
        shutil.rmtree(root_dir)

    print('json.loads(json.dumps(values)):', expected)
    for key, value in observed.items():
        print('{:s}: {!r}'.format(key, value))
    print('json.dumps("red") == json.dumps(Color.RED):',
          json.dumps('red') == json.dumps(Color.RED))

    ok = (
        observed['build_file return value'] == expected and
        observed['argument received by function'] == expected and
        observed['two JSON-equal subbuilds'] == [1, 'RuntimeError'])
    if ok:
        print('OK')
        return 0
    print('VIOLATION: values are not JSON-normalised like '
          'json.loads(json.dumps(value))')
    return 1


if __name__ == '__main__':
    sys.exit(main())

"""C08 (and C04): "//dir/file" and "/dir/file" are the same file on POSIX, but
FileBuilder treats them as two different outputs.

os.path.abspath / normpath deliberately keep exactly two leading slashes, so
_sanitize_filename returns "//tmp/.../f" unchanged.  A second build_file for
the same file spelled that way is not rejected: its function is called, and the
output of the first call is moved to the backup directory and overwritten.
While the second function runs, the (in-progress) output is also visible in
the virtual view through the other spelling.
"""
import logging
import os
import shutil
import sys
import tempfile

from file_builder import FileBuilder

logging.disable(logging.CRITICAL)


def main():
    root_dir = tempfile.mkdtemp(prefix='fb_demo_')
    target = os.path.join(root_dir, 'out', 'f.txt')
    alias = '/' + target  # e.g. os.path.join('/', target) style spellings
    calls = []
    seen = {}

    def write(builder, filename, text):
        calls.append((filename, text))
        with open(filename, 'w') as file_:
            file_.write(text)
        if text == 'second':
            # our own output, still being built, seen through the other name
            seen['is_file(other spelling) while building'] = builder.is_file(
                target)
        return text

    def build(builder):
        first = builder.build_file(target, 'write', write, 'first')
        try:
            second = builder.build_file(alias, 'write', write, 'second')
        except RuntimeError:
            second = 'RuntimeError'
        with builder.read_text(target) as file_:
            content = file_.read()
        return first, second, content

    try:
        same_file = None
        first, second, content = FileBuilder.build(
            os.path.join(root_dir, 'cache.gz'), 'demo', build)
        same_file = os.path.samefile(target, alias)
    finally:
        shutil.rmtree(root_dir)

    print('target:', target)
    print('alias :', alias, '(same file: {!r})'.format(same_file))
    print('first build_file returned :', first)
    print('second build_file returned:', second)
    print('function calls            :', calls)
    print('content of the file after both calls:', repr(content))
    print(seen)

    if second == 'RuntimeError' and len(calls) == 1 and content == 'first':
        print('OK')
        return 0
    print('VIOLATION: the second build_file for the same file was executed '
          "and replaced the first call's output")
    return 1


if __name__ == '__main__':
    sys.exit(main())

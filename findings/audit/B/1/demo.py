"""C02 violation: rollback "restores" the content written by the FAILED build.

Scenario
--------
build 1 (committed): build_file(out)            -> out == "v1"
build 2 (fails):     build_file(out, f2) where f2
                        1. writes "v2" to out (its own output file - allowed)
                        2. calls builder.build_file(out + "/child", ...)
                           (a path below the file it is building - a user
                           mistake, which must simply produce an error)
                     the library raises RuntimeError out of build() and rolls
                     back.

Expected (C02): after the failed build `out` contains "v1" with its old mtime.
Observed:       `out` contains "v2" (the bytes written by the failed build).

Variant B: the same, but `out` was deleted by the user before build 2. After
the rollback `out` exists (with "v2"), i.e. a file created by the failed build
remains.

Run:  PYTHONPATH=/tmp/wth_B /venv/bin/python demo.py
Exit status 1 = property violated, 0 = not violated.
"""
import logging
import os
import shutil
import sys
import tempfile

from file_builder import FileBuilder

logging.disable(logging.CRITICAL)


def snapshot(root):
    """Map each regular file below root to (bytes, mtime_ns)."""
    result = {}
    for dir_, _, subfiles in os.walk(root):
        for subfile in subfiles:
            filename = os.path.join(dir_, subfile)
            with open(filename, 'rb') as file_:
                result[os.path.relpath(filename, root)] = (
                    file_.read(), os.stat(filename).st_mtime_ns)
    return result


def write_v1(builder, filename):
    with open(filename, 'w') as file_:
        file_.write('v1')


def write_child(builder, filename):
    with open(filename, 'w') as file_:
        file_.write('child')


def write_v2_then_nested(builder, filename, version):
    # 1. Write our own output file
    with open(filename, 'w') as file_:
        file_.write('v2')
    # 2. Ask for an output file *below* the file we are building
    builder.build_file(os.path.join(filename, 'child'), 'child', write_child)


def run(delete_output_first):
    root = tempfile.mkdtemp(prefix='found1_')
    try:
        cache = os.path.join(root, 'cache.gz')
        out = os.path.join(root, 'out')

        def build1(builder):
            builder.build_file(out, 'out', write_v1)

        def build2(builder):
            builder.build_file(out, 'out', write_v2_then_nested, 2)

        FileBuilder.build(cache, 'demo', build1)
        os.utime(out, ns=(10**18, 10**18))  # Make the old mtime recognizable
        if delete_output_first:
            os.remove(out)

        before = snapshot(root)
        raised = None
        try:
            FileBuilder.build(cache, 'demo', build2)
        except Exception as exception:
            raised = exception
        after = snapshot(root)

        print('  build 2 raised: {!r}'.format(raised))
        print('  files before build 2: {!r}'.format(
            {k: v for k, v in before.items() if k != 'cache.gz'}))
        print('  files after  build 2: {!r}'.format(
            {k: v for k, v in after.items() if k != 'cache.gz'}))
        if raised is None:
            print('  build 2 unexpectedly committed; nothing to check')
            return True
        return before == after
    finally:
        shutil.rmtree(root, ignore_errors=True)


def main():
    print('Variant A: old output "out" exists with content v1')
    ok_a = run(False)
    print('  -> {}'.format(
        'pre-build state restored' if ok_a else
        'VIOLATION: out does not have its pre-build bytes/mtime'))
    print('Variant B: old output "out" was deleted before the failing build')
    ok_b = run(True)
    print('  -> {}'.format(
        'pre-build state restored' if ok_b else
        'VIOLATION: a file created by the failed build remains'))
    sys.exit(0 if ok_a and ok_b else 1)


if __name__ == '__main__':
    main()

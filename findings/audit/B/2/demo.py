"""C02 / C12 violation: directories leak when creating parent directories fails
with an exception that is not an OSError.

os.mkdir() reports an invalid path component with ValueError ("embedded null
byte") or UnicodeEncodeError (a lone surrogate such as '\\ud800' cannot be
encoded) - neither is an OSError. FileBuilder._make_dirs only cleans up after
OSError, so the parent directories it already created stay on disk and are
tracked nowhere: not removed by the rollback, not recorded in the cache, not
removed by clean.

Scenario: builder.build_file(<root>/d1/d2/<bad component>/out.txt, ...)

  1. not caught -> build() raises, rolls back; d1 and d1/d2 remain     (C02)
  2. caught     -> build() commits; d1, d1/d2 remain, unrecorded, and
                   clean() leaves them behind                          (C12)

Run:  PYTHONPATH=/tmp/wth_B /venv/bin/python demo.py
Exit status 1 = property violated, 0 = not violated.
"""
import logging
import os
import shutil
import sys
import tempfile

from file_builder import FileBuilder

logging.disable(logging.CRITICAL)


def tree(root):
    result = []
    for dir_, subdirs, subfiles in os.walk(root):
        for name in subdirs + subfiles:
            result.append(os.path.relpath(os.path.join(dir_, name), root))
    return sorted(result)


def write(builder, filename):
    with open(filename, 'w') as file_:
        file_.write('x')


def run(bad_component):
    violated = False
    root = tempfile.mkdtemp(prefix='found2_')
    try:
        cache = os.path.join(root, 'cache.gz')
        out = os.path.join(root, 'd1', 'd2', bad_component, 'out.txt')

        def build_func(builder, catch):
            try:
                builder.build_file(out, 'write', write)
            except ValueError as exception:
                if not catch:
                    raise
                print('    build_file raised {} (caught by the build '
                      'function)'.format(type(exception).__name__))

        # 1. The exception propagates out of build() -> rollback
        before = tree(root)
        try:
            FileBuilder.build(cache, 'demo', build_func, False)
            print('    build unexpectedly committed')
        except ValueError as exception:
            print('    build raised {}: {}'.format(
                type(exception).__name__, exception))
        after = tree(root)
        print('    tree before failed build: {!r}'.format(before))
        print('    tree after  failed build: {!r}'.format(after))
        if after != before:
            print('    VIOLATION (C02): directories created by the failed '
                  'build remain: {!r}'.format(
                      sorted(set(after) - set(before))))
            violated = True
        shutil.rmtree(os.path.join(root, 'd1'), ignore_errors=True)

        # 2. The build function catches the exception -> commit, then clean
        before = tree(root)
        FileBuilder.build(cache, 'demo', build_func, True)
        print('    tree after committed build: {!r}'.format(tree(root)))
        FileBuilder.clean(cache, 'demo')
        after = tree(root)
        print('    tree after clean:           {!r}'.format(after))
        if after != before:
            print('    VIOLATION (C12): build + clean leaves directories the '
                  'build created: {!r}'.format(
                      sorted(set(after) - set(before))))
            violated = True
    finally:
        shutil.rmtree(root, ignore_errors=True)
    return violated


def main():
    violated = False
    for description, bad_component in [
            ('NUL character', 'bad\0name'),
            ('lone surrogate U+D800', 'bad\ud800name')]:
        print('Path component containing a {}:'.format(description))
        violated = run(bad_component) or violated
    sys.exit(1 if violated else 0)


if __name__ == '__main__':
    main()

"""Specification vocabulary for JSON values (properties C07, C18, C16, C06).

Written from the *property statements* and from the documented behaviour of Python's json module,
not from file_builder's code.  Every function is a z3 recursive definition over the PyV universe of
pyvc.sorts; `concretize`/`abstract` move between PyV terms and real Python objects so the same
definitions can be compared against the real `json` module (differential test) and so counter-models
can be replayed on the real code.

Representation conventions (assumptions, listed in every evidence file that uses this module):
  * a *sanitized* dict (str keys only) is the association list of its items sorted by key
    (`ksorted`), i.e. dicts are identified up to insertion order;  Python's dict `==`, `in`, `[]`,
    `len` do not depend on insertion order.
  * an *input* dict (any keys) is the association list of its items in insertion order.
  * finite floats are reals, -0.0 is identified with 0.0 (they are ==); +-inf and nan are separate
    constructors.
  * PSub(base, cls) is an instance of a proper subclass of type(base); str()/int()/float() of it
    give the base value (the subclass does not override __str__/__int__/__float__), its repr() is
    arbitrary (the subclass may override __repr__, as enum.IntEnum does).
"""
import z3
from pyvc.sorts import (PyV, PyVs, KVs, StrS, IntS, BoolS, RealS, str_lit, str_lt)

And, Or, Not, If, Implies = z3.And, z3.Or, z3.Not, z3.If, z3.Implies

a, b, c = z3.Consts('sa sb sc', PyV)
xs, ys, zs = z3.Consts('sxs sys szs', PyVs)
ks, ls, ms = z3.Consts('sks sls sms', KVs)
k1 = z3.Const('sk1', PyV)
s1 = z3.Const('ss1', StrS)

int_repr = z3.Function('int_repr', IntS, StrS)        # int.__repr__
float_repr = z3.Function('float_repr', RealS, StrS)   # float.__repr__ of a finite float
sub_repr = z3.Function('sub_repr', PyV, StrS)         # repr() of a subclass instance: arbitrary

from pyvc.fuel import rec, define, evalc       # noqa: E402  (uninterpreted + fuel unfolding)


# --- class tests ---------------------------------------------------------------------------------
is_none, is_bool, is_int, is_float = PyV.is_PNone, PyV.is_PBool, PyV.is_PInt, PyV.is_PFloat
is_inf, is_nan, is_str, is_list = PyV.is_PInf, PyV.is_PNaN, PyV.is_PStr, PyV.is_PList
is_tuple, is_dict, is_sub, is_other = PyV.is_PTuple, PyV.is_PDict, PyV.is_PSub, PyV.is_POther


def is_floatish(v):      # exact class float
    return Or(is_float(v), is_inf(v), is_nan(v))


def is_num(v):           # exact class int or float, finite
    return Or(is_int(v), is_float(v))


def num(v):
    return If(is_int(v), z3.ToReal(PyV.pi(v)), PyV.pr(v))


def boolnum(v):
    return If(PyV.pb(v), z3.RealVal(1), z3.RealVal(0))


def is_listish(v):
    return Or(is_list(v), is_tuple(v))


def items(v):
    return If(is_list(v), PyV.litems(v), PyV.titems(v))


def is_atom(v):          # immutable leaf of exact builtin class
    return Or(is_none(v), is_bool(v), is_int(v), is_floatish(v), is_str(v))


# --- lists -----------------------------------------------------------------------------------------
plen = rec('plen', PyVs, IntS)
define(plen, [xs], If(PyVs.is_nil(xs), 0, 1 + plen(PyVs.tl(xs))))
klen = rec('klen', KVs, IntS)
define(klen, [ks], If(KVs.is_knil(ks), 0, 1 + klen(KVs.krest(ks))))
app = rec('app', PyVs, PyVs, PyVs)
define(app, [xs, ys], If(PyVs.is_nil(xs), ys, PyVs.cons(PyVs.hd(xs), app(PyVs.tl(xs), ys))))


def snoc(l, x):
    return app(l, PyVs.cons(x, PyVs.nil))


# --- association lists (dict contents) ------------------------------------------------------------
# Python key equality for the keys we care about: strings compare by content
kmem = rec('kmem', PyV, KVs, BoolS)
define(kmem, [k1, ks], And(KVs.is_kcons(ks), Or(KVs.kk(ks) == k1, kmem(k1, KVs.krest(ks)))))
klookup = rec('klookup', PyV, KVs, PyV)
define(klookup, [k1, ks], If(KVs.is_knil(ks), PyV.PNone,
                             If(KVs.kk(ks) == k1, KVs.kv(ks), klookup(k1, KVs.krest(ks)))))
# all keys of ks are strings strictly greater than s1
all_gt = rec('all_gt', StrS, KVs, BoolS)
define(all_gt, [s1, ks], Or(KVs.is_knil(ks),
                            And(is_str(KVs.kk(ks)), str_lt(s1, PyV.ps(KVs.kk(ks))),
                                all_gt(s1, KVs.krest(ks)))))
ksorted = rec('ksorted', KVs, BoolS)
define(ksorted, [ks], Or(KVs.is_knil(ks),
                         And(is_str(KVs.kk(ks)), all_gt(PyV.ps(KVs.kk(ks)), KVs.krest(ks)),
                             ksorted(KVs.krest(ks)))))
# insert / overwrite a string key in a sorted association list (models `d[k] = v` on a sanitized dict)
kput = rec('kput', StrS, PyV, KVs, KVs)
define(kput, [s1, a, ks],
       If(KVs.is_knil(ks), KVs.kcons(PyV.PStr(s1), a, KVs.knil),
          If(PyV.ps(KVs.kk(ks)) == s1, KVs.kcons(PyV.PStr(s1), a, KVs.krest(ks)),
             If(str_lt(s1, PyV.ps(KVs.kk(ks))), KVs.kcons(PyV.PStr(s1), a, ks),
                KVs.kcons(KVs.kk(ks), KVs.kv(ks), kput(s1, a, KVs.krest(ks)))))))
# keys of an association list, in list order
kkeys = rec('kkeys', KVs, PyVs)
define(kkeys, [ks], If(KVs.is_knil(ks), PyVs.nil, PyVs.cons(KVs.kk(ks), kkeys(KVs.krest(ks)))))

# --- well-formedness of the universe (type invariant of inputs) -----------------------------------
wf = rec('wf', PyV, BoolS)
wfl = rec('wfl', PyVs, BoolS)
wfk = rec('wfk', KVs, BoolS)
define(wf, [a], If(is_listish(a), wfl(items(a)),
                   If(is_dict(a), wfk(PyV.kvs(a)),
                      If(is_sub(a), And(Or(is_str(PyV.sbase(a)), is_int(PyV.sbase(a)),
                                           is_floatish(PyV.sbase(a)), is_listish(PyV.sbase(a)),
                                           is_dict(PyV.sbase(a))), wf(PyV.sbase(a))),
                         True))))
define(wfl, [xs], Or(PyVs.is_nil(xs), And(wf(PyVs.hd(xs)), wfl(PyVs.tl(xs)))))
define(wfk, [ks], Or(KVs.is_knil(ks), And(wf(KVs.kk(ks)), wf(KVs.kv(ks)), wfk(KVs.krest(ks)))))


# --- what json can encode ----------------------------------------------------------------------------
def base_of(v):
    return If(is_sub(v), PyV.sbase(v), v)


def keyable(k):          # json.dumps accepts str, int, float, bool, None keys (and subclasses)
    v = base_of(k)
    return Or(is_str(v), is_int(v), is_floatish(v), And(is_bool(v), Not(is_sub(k))),
              And(is_none(v), Not(is_sub(k))))


def key_str(k):          # the key json.dumps writes, as json.loads reads it back
    v = base_of(k)
    return If(is_str(v), PyV.ps(v),
              If(is_bool(v), If(PyV.pb(v), str_lit('true'), str_lit('false')),
                 If(is_int(v), int_repr(PyV.pi(v)),
                    If(is_float(v), float_repr(PyV.pr(v)),
                       If(is_inf(v), If(PyV.pneg(v), str_lit('-Infinity'), str_lit('Infinity')),
                          If(is_nan(v), str_lit('NaN'), str_lit('null')))))))


jsonable = rec('jsonable', PyV, BoolS)
jsonable_l = rec('jsonable_l', PyVs, BoolS)
jsonable_k = rec('jsonable_k', KVs, BoolS)
define(jsonable, [a], If(is_sub(a), jsonable(PyV.sbase(a)),
                         If(is_listish(a), jsonable_l(items(a)),
                            If(is_dict(a), jsonable_k(PyV.kvs(a)), Not(is_other(a))))))
define(jsonable_l, [xs], Or(PyVs.is_nil(xs), And(jsonable(PyVs.hd(xs)), jsonable_l(PyVs.tl(xs)))))
define(jsonable_k, [ks], Or(KVs.is_knil(ks), And(keyable(KVs.kk(ks)), jsonable(KVs.kv(ks)),
                                                  jsonable_k(KVs.krest(ks)))))

# --- the JSON round trip json.loads(json.dumps(v)) --------------------------------------------------
rt = rec('rt', PyV, PyV)
rt_l = rec('rt_l', PyVs, PyVs)
rtk_acc = rec('rtk_acc', KVs, KVs, KVs)      # (accumulated result, remaining input items)
define(rt, [a], If(is_sub(a), rt(PyV.sbase(a)),
                   If(is_listish(a), PyV.PList(rt_l(items(a))),
                      If(is_dict(a), PyV.PDict(rtk_acc(KVs.knil, PyV.kvs(a))), a))))
define(rt_l, [xs], If(PyVs.is_nil(xs), PyVs.nil, PyVs.cons(rt(PyVs.hd(xs)), rt_l(PyVs.tl(xs)))))
# json.dumps writes the items in insertion order, json.loads inserts them in that order and a later
# item with the same written key overwrites the earlier one: a left fold of kput
define(rtk_acc, [ls, ks], If(KVs.is_knil(ks), ls,
                             rtk_acc(kput(key_str(KVs.kk(ks)), rt(KVs.kv(ks)), ls),
                                     KVs.krest(ks))))


def rt_k(ks_):
    return rtk_acc(KVs.knil, ks_)


# --- sanitized values: exactly the range of the round trip ------------------------------------------
sanitized = rec('sanitized', PyV, BoolS)
sanitized_l = rec('sanitized_l', PyVs, BoolS)
sanitized_k = rec('sanitized_k', KVs, BoolS)     # values only; key discipline is ksorted
define(sanitized, [a], If(is_list(a), sanitized_l(PyV.litems(a)),
                          If(is_dict(a), And(ksorted(PyV.kvs(a)), sanitized_k(PyV.kvs(a))),
                             is_atom(a))))
define(sanitized_l, [xs], Or(PyVs.is_nil(xs),
                             And(sanitized(PyVs.hd(xs)), sanitized_l(PyVs.tl(xs)))))
define(sanitized_k, [ks], Or(KVs.is_knil(ks),
                             And(sanitized(KVs.kv(ks)), sanitized_k(KVs.krest(ks)))))
# is_equal's documented domain: sanitized, but tuples are allowed
eqdom = rec('eqdom', PyV, BoolS)
eqdom_l = rec('eqdom_l', PyVs, BoolS)
eqdom_k = rec('eqdom_k', KVs, BoolS)
define(eqdom, [a], If(is_listish(a), eqdom_l(items(a)),
                      If(is_dict(a), And(ksorted(PyV.kvs(a)), eqdom_k(PyV.kvs(a))), is_atom(a))))
define(eqdom_l, [xs], Or(PyVs.is_nil(xs), And(eqdom(PyVs.hd(xs)), eqdom_l(PyVs.tl(xs)))))
define(eqdom_k, [ks], Or(KVs.is_knil(ks), And(eqdom(KVs.kv(ks)), eqdom_k(KVs.krest(ks)))))
nanfree = rec('nanfree', PyV, BoolS)
nanfree_l = rec('nanfree_l', PyVs, BoolS)
nanfree_k = rec('nanfree_k', KVs, BoolS)
define(nanfree, [a], If(is_listish(a), nanfree_l(items(a)),
                        If(is_dict(a), nanfree_k(PyV.kvs(a)),
                           If(is_sub(a), nanfree(PyV.sbase(a)), Not(is_nan(a))))))
define(nanfree_l, [xs], Or(PyVs.is_nil(xs), And(nanfree(PyVs.hd(xs)), nanfree_l(PyVs.tl(xs)))))
define(nanfree_k, [ks], Or(KVs.is_knil(ks), And(nanfree(KVs.kk(ks)), nanfree(KVs.kv(ks)),
                                                 nanfree_k(KVs.krest(ks)))))

# --- JSON equality (the statement of C07/C18): lists == tuples, 1 == 1.0, bool != number,
#     dicts as finite maps (pointwise on the canonical representation) ---------------------------------
jeq = rec('jeq', PyV, PyV, BoolS)
jeq_l = rec('jeq_l', PyVs, PyVs, BoolS)
jeq_k = rec('jeq_k', KVs, KVs, BoolS)
define(jeq, [a, b],
       If(is_listish(a), And(is_listish(b), jeq_l(items(a), items(b))),
          If(is_dict(a), And(is_dict(b), jeq_k(PyV.kvs(a), PyV.kvs(b))),
             If(is_bool(a), And(is_bool(b), PyV.pb(a) == PyV.pb(b)),
                If(is_num(a), And(is_num(b), num(a) == num(b)),
                   If(is_nan(a), False,
                      a == b))))))          # None, str, +-inf: identical
define(jeq_l, [xs, ys], If(PyVs.is_nil(xs), PyVs.is_nil(ys),
                           And(PyVs.is_cons(ys), jeq(PyVs.hd(xs), PyVs.hd(ys)),
                               jeq_l(PyVs.tl(xs), PyVs.tl(ys)))))
define(jeq_k, [ks, ls], If(KVs.is_knil(ks), KVs.is_knil(ls),
                           And(KVs.is_kcons(ls), KVs.kk(ks) == KVs.kk(ls),
                               jeq(KVs.kv(ks), KVs.kv(ls)), jeq_k(KVs.krest(ks), KVs.krest(ls)))))

# every item of ks has its key in ls with a JSON-equal value (what is_equal's dict loop checks)
sub_ok = rec('sub_ok', KVs, KVs, BoolS)
define(sub_ok, [ks, ls], Or(KVs.is_knil(ks),
                            And(kmem(KVs.kk(ks), ls), jeq(KVs.kv(ks), klookup(KVs.kk(ks), ls)),
                                sub_ok(KVs.krest(ks), ls))))

# --- Python's == on the values that occur as hashable forms and atoms ---------------------------------
pyeq = rec('pyeq', PyV, PyV, BoolS)
pyeq_l = rec('pyeq_l', PyVs, PyVs, BoolS)
pyeq_k = rec('pyeq_k', KVs, KVs, BoolS)


def _numlike(v):
    return Or(is_bool(v), is_int(v), is_float(v))


def _numval(v):
    return If(is_bool(v), boolnum(v), num(v))


define(pyeq, [a, b],
       If(is_tuple(a), And(is_tuple(b), pyeq_l(PyV.titems(a), PyV.titems(b))),
          If(is_list(a), And(is_list(b), pyeq_l(PyV.litems(a), PyV.litems(b))),
             If(_numlike(a), And(_numlike(b), _numval(a) == _numval(b)),
                If(is_nan(a), False,
                   # dict ==: same keys, values compared with == (NOT JSON equality: a list
                   # is never == a tuple, True == 1).  Positional over the sorted association
                   # lists that represent dicts with string keys.
                   If(is_dict(a), And(is_dict(b), pyeq_k(PyV.kvs(a), PyV.kvs(b))),
                      a == b))))))
define(pyeq_k, [ks, ls], If(KVs.is_knil(ks), KVs.is_knil(ls),
                            And(KVs.is_kcons(ls), KVs.kk(ks) == KVs.kk(ls),
                                pyeq(KVs.kv(ks), KVs.kv(ls)),
                                pyeq_k(KVs.krest(ks), KVs.krest(ls)))))
define(pyeq_l, [xs, ys], If(PyVs.is_nil(xs), PyVs.is_nil(ys),
                            And(PyVs.is_cons(ys), pyeq(PyVs.hd(xs), PyVs.hd(ys)),
                                pyeq_l(PyVs.tl(xs), PyVs.tl(ys)))))

# --- the hashable form -----------------------------------------------------------------------------------
hsh = rec('hsh', PyV, PyV)
hsh_l = rec('hsh_l', PyVs, PyVs)
flat = rec('flat', KVs, PyVs)
define(hsh, [a], If(is_list(a), PyV.PTuple(PyVs.cons(PyV.PInt(0), hsh_l(PyV.litems(a)))),
                    If(is_dict(a), PyV.PTuple(flat(PyV.kvs(a))),
                       If(is_bool(a), PyV.PTuple(PyVs.cons(PyV.PInt(If(PyV.pb(a), 1, 2)), PyVs.nil)),
                          a))))
define(hsh_l, [xs], If(PyVs.is_nil(xs), PyVs.nil, PyVs.cons(hsh(PyVs.hd(xs)), hsh_l(PyVs.tl(xs)))))
define(flat, [ks], If(KVs.is_knil(ks), PyVs.nil,
                      PyVs.cons(KVs.kk(ks), PyVs.cons(hsh(KVs.kv(ks)), flat(KVs.krest(ks))))))
# flat restricted to a list of keys looked up in a dict (what the loop in to_hashable computes)
flatk = rec('flatk', PyVs, KVs, PyVs)
define(flatk, [xs, ks], If(PyVs.is_nil(xs), PyVs.nil,
                           PyVs.cons(PyVs.hd(xs), PyVs.cons(hsh(klookup(PyVs.hd(xs), ks)),
                                                            flatk(PyVs.tl(xs), ks)))))

# size (termination measure for the recursive functions under contract)
size = rec('size', PyV, IntS)
size_l = rec('size_l', PyVs, IntS)
size_k = rec('size_k', KVs, IntS)
define(size, [a], If(is_listish(a), 1 + size_l(items(a)),
                     If(is_dict(a), 1 + size_k(PyV.kvs(a)),
                        If(is_sub(a), 1 + size(PyV.sbase(a)), 1))))
define(size_l, [xs], If(PyVs.is_nil(xs), 0, size(PyVs.hd(xs)) + size_l(PyVs.tl(xs))))
define(size_k, [ks], If(KVs.is_knil(ks), 0,
                        size(KVs.kk(ks)) + size(KVs.kv(ks)) + size_k(KVs.krest(ks))))


# ---------------------------------------------------------------------------------------------------------
# concrete <-> symbolic

class _SubBase:
    pass


def abstract(v, strs=None, sort_dicts=False):
    """Real Python object -> PyV term.  sort_dicts=True gives the canonical (sanitized) form."""
    import math
    if v is None:
        return PyV.PNone
    t = type(v)
    if t is bool:
        return PyV.PBool(z3.BoolVal(v))
    if t is int:
        return PyV.PInt(z3.IntVal(v))
    if t is float:
        if math.isnan(v):
            return PyV.PNaN
        if math.isinf(v):
            return PyV.PInf(z3.BoolVal(v < 0))
        from fractions import Fraction
        fr = Fraction(v)
        return PyV.PFloat(z3.RealVal(str(fr)))
    if t is str:
        return PyV.PStr(str_lit(v))
    if t is list or t is tuple:
        l = PyVs.nil
        for e in reversed(v):
            l = PyVs.cons(abstract(e, strs, sort_dicts), l)
        return PyV.PList(l) if t is list else PyV.PTuple(l)
    if t is dict:
        its = list(v.items())
        if sort_dicts:
            its.sort(key=lambda kv: kv[0])
        l = KVs.knil
        for k, x in reversed(its):
            l = KVs.kcons(abstract(k, strs, sort_dicts), abstract(x, strs, sort_dicts), l)
        return PyV.PDict(l)
    for base in (str, int, float, list, tuple, dict):
        if isinstance(v, base) and t is not bool:
            return PyV.PSub(abstract(base(v), strs, sort_dicts), z3.IntVal(id(t) % 100000))
    return PyV.POther(z3.IntVal(0))

"""Object shapes (field types) of the repo classes and the ghost state of the platform model."""
import z3
from pyvc.sorts import (HKEY, STR, BOOL, INT, PYV, OBJ, SET, MAP, LIST, OPT, TUP, StrS, ObjS, KindS,
                        IntS, BoolS)

# ---- operation records (operation.py) --------------------------------------------------------------
FIELDS = {
    'Operation.args': PYV,
    'Operation.return_value': PYV,
    'Operation.is_finished': BOOL,
    'SimpleOperation.name': STR,
    'SimpleOperation.exception_type_str': OPT(STR),
    'ComplexOperation.func_name': STR,
    'ComplexOperation.kwargs': PYV,
    'ComplexOperation.suboperations': LIST(OBJ('Operation')),
    'ComplexOperation.raised': BOOL,
    'ComplexOperation.setup_failed': BOOL,
    'BuildFileOperation.filename': STR,
    'BuildFileOperation.file_comparison': OBJ('FileComparison'),
    'BuildFileOperation.file_comparison_result': PYV,
    'FileComparison.name': STR,
    # ---- Cache -------------------------------------------------------------------------------------
    'Cache._build_name': STR,
    'Cache._files': MAP(STR, OPT(OBJ('BuildFileOperation'))),
    'Cache._norm_cased_files': MAP(STR, OPT(OBJ('BuildFileOperation'))),
    'Cache._subbuilds': MAP(HKEY, OPT(OBJ('SubbuildOperation'))),
    'Cache._created_dirs': SET(STR),
    'Cache._built_files': SET(STR),
    'Cache._func_versions': PYV,
    'Cache._operation_versions': PYV,
    'Cache._files_lock': OBJ('Lock'),
    'Cache._subbuilds_lock': OBJ('Lock'),
    'Cache._created_dirs_lock': OBJ('Lock'),
    # ---- BuildDirs ---------------------------------------------------------------------------------
    'BuildDirs._build_dir_counts': MAP(STR, INT),
    'BuildDirs._created_dirs_map': MAP(STR, STR),
    'BuildDirs._error_created_dirs': SET(STR),
    'BuildDirs._removed_dirs': SET(STR),
    'BuildDirs._exists_dirs': SET(STR),
    'BuildDirs._maybe_removed_dirs': SET(STR),
    'BuildDirs._removed_files': SET(STR),
    'BuildDirs._lock': OBJ('Lock'),
    # ---- FileBackups -------------------------------------------------------------------------------
    'FileBackups._backups': LIST(TUP(STR, STR)),
    'FileBackups._next_backup_index': INT,
    'FileBackups._temp_dir': OPT(STR),
    'FileBackups._lock': OBJ('Lock'),
    # ---- SimpleOperationExecutor -------------------------------------------------------------------
    'SimpleOperationExecutor._norm_cased_cache_filename': STR,
    'SimpleOperationExecutor._old_cache': OBJ('Cache'),
    'SimpleOperationExecutor._new_cache': OBJ('Cache'),
    'SimpleOperationExecutor._build_dirs': OBJ('BuildDirs'),
    'SimpleOperationExecutor._hash_cache': MAP(STR, TUP(STR, BOOL)),
    'SimpleOperationExecutor._hash_cache_lock': OBJ('Lock'),
    # ---- FileBuilder -------------------------------------------------------------------------------
    'FileBuilder._operation': OPT(OBJ('ComplexOperation')),
    'FileBuilder._old_cache': OBJ('Cache'),
    'FileBuilder._new_cache': OBJ('Cache'),
    'FileBuilder._simple_operation_executor': OBJ('SimpleOperationExecutor'),
    'FileBuilder._backups': OBJ('FileBackups'),
    'FileBuilder._build_dirs': OBJ('BuildDirs'),
    'FileBuilder._is_finished_build': BOOL,
    'FileBuilder._lock': OBJ('Lock'),
}

# ---- ghost state of the platform -------------------------------------------------------------------
Effect = z3.Datatype('Effect')
Effect.declare('Mkdir', ('e_p', StrS))
Effect.declare('Rmdir', ('e_rp', StrS))
Effect.declare('Remove', ('e_fp', StrS))
Effect.declare('Rename', ('e_src', StrS), ('e_dst', StrS))
Effect.declare('Replace', ('e_rsrc', StrS), ('e_rdst', StrS))
Effect.declare('WriteOpen', ('e_wp', StrS))
Effect.declare('Rmtree', ('e_tp', StrS))
Effect.declare('Mkdtemp', ('e_mp', StrS))
Effect.declare('Makedirs', ('e_mdp', StrS))
Effect = Effect.create()

GHOSTS = {
    'fs_kind': z3.ArraySort(StrS, KindS),     # real file system: Absent / File / Dir per path
    'eff': None,   # (set below) log of the mutating primitives executed by the library so far
    'ncalls': IntS,                           # number of user callbacks invoked so far
    'alloc': IntS,                            # allocation clock: object o exists iff birth(o) < alloc
    'rm_attempts': z3.ArraySort(StrS, BoolS),  # paths on which os.rmdir / os.remove has been attempted
    'fs_epoch': IntS,
    'cb_exc': IntS,     # identity of the exception raised by the user function called here (-1: none)
    'bd_res': IntS,     # number of outstanding output-file reservations in BuildDirs (ghost)
    'vstate': IntS,     # bumped whenever the virtual directory state may change (fs effect, reservation)                         # bumped whenever file *contents/metadata* may change
}


# The effect trace is kept as a counter of mutating primitives attempted (plus the counter value
# at which the backup directory was made).  Sequences / arrays of effects made the "only grows"
# obligations time out (measured); what is executed where is pinned by the guard obligations at the
# call sites, so the content of the trace is not needed.
GHOSTS['eff'] = IntS
GHOSTS['mkdtemp_at'] = IntS
# paths the library has opened for writing (the cache file): ghost of gzip.open(.., 'w*')
GHOSTS['wopen_attempts'] = z3.ArraySort(StrS, BoolS)
# the last query re-executed through SimpleOperationExecutor.exec (scratch ghosts: written by exec's
# contract, read by the exit obligation of _is_simple_operation_cached, never part of a frame)
from pyvc.sorts import PyV as _PyV
GHOSTS['xq_n'] = IntS                     # number of exec calls so far
GHOSTS['xq_val'] = _PyV                   # value returned by the last exec call
GHOSTS['xq_exc'] = OPT(STR).sort()        # class name of the OSError it raised instead (or none)
# outcome log of os.rename/os.replace/os.makedirs (scratch: read only by FileBackups.restore_all's
# own postcondition, relative to its own entry state)
GHOSTS['mv_done'] = z3.ArraySort(StrS, BoolS)      # targets of moves that succeeded
GHOSTS['os_failed'] = z3.ArraySort(StrS, BoolS)    # paths on which makedirs / a move raised
GHOSTS['ser'] = z3.ArraySort(ObjS, BoolS)         # records handed to Cache._operation_to_json
GHOSTS['bd_resv'] = z3.ArraySort(StrS, BoolS)      # output paths currently reserved in BuildDirs (by their own call)
GHOSTS['fence_n'] = IntS                            # number of _append_suboperation calls (the fence re-check)
GHOSTS['cache_read'] = z3.ArraySort(StrS, BoolS)    # files Cache.read_immutable has parsed successfully
GHOSTS['exec_n'] = IntS                             # number of _exec_simple_operation calls (recorded queries)
GHOSTS['ne_wit'] = z3.ArraySort(StrS, StrS)       # a child seen by an rmdir that failed with ENOTEMPTY
GHOSTS['obs_dir'] = z3.ArraySort(StrS, BoolS)      # paths for which os.path.isdir answered True
GHOSTS['md_dir'] = StrS                             # argument of the last FileBuilder._make_dirs call that returned
GHOSTS['md_res'] = LIST(STR).sort()                 # ... and the list it returned
GHOSTS['replayed'] = z3.ArraySort(ObjS, BoolS)     # records visited by the replay functions of a cache look-up
SCRATCH_GHOSTS = ('replayed', 'md_dir', 'md_res', 'xq_n', 'xq_val', 'xq_exc', 'mv_done', 'os_failed', 'obs_dir', 'ser', 'ne_wit', 'bd_resv', 'fence_n', 'cache_read', 'exec_n')


def log_append(lg, e):
    return lg + 1


def log_prefix(a, b):
    """nothing is ever removed from the trace"""
    return a <= b


def log_len(a):
    return a

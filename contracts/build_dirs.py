"""Contracts for file_builder/build_dirs.py: class BuildDirs.

The reservation machine (counting of reserved children per directory) is NOT proved here: its
invariant is a cardinality statement (count[d] = number of reserved children of d) that the back
ends do not handle without a dedicated theory of finite sets.  The contracts below are ASSUMED at
call sites (listed as trusted in every evidence file that uses them) and backed by the bounded
stand-in bounded/build_dirs_machine.py, which runs every protocol-respecting call sequence up to a
stated length on the real class against a reference model.
"""
import z3
from pyvc.engine import Contract, ExcSpec, LoopSpec
from pyvc.sorts import STR, BOOL, INT, OBJ, SET, MAP, LIST, StrS, anc, dirname
from contracts.shapes import FIELDS as SH

M = 'file_builder.build_dirs.BuildDirs.'
And, Or, Not, Implies, If, ForAll = z3.And, z3.Or, z3.Not, z3.Implies, z3.If, z3.ForAll
BD = OBJ('BuildDirs')
BD_FIELDS = [f for f in SH if f.startswith('BuildDirs.') and f != 'BuildDirs._lock']
x = z3.Const('bd!x', StrS)
CM = 'BuildDirs._created_dirs_map'
ERR = 'BuildDirs._error_created_dirs'
OCM = SH[CM].osort()


def mods(c):
    return [(f, c.self) for f in BD_FIELDS] + ['g:vstate', 'g:bd_res', 'g:bd_resv']


CNT = 'BuildDirs._build_dir_counts'
OCNT = SH[CNT].osort()


def bd_inv(c, st):
    """representation invariant of the reservation tables (what does not need cardinalities):
    a registered count is positive; a directory recorded as created by this build is reserved;
    a directory is not both 'created' and 'created, then given up after an error'"""
    rd = getattr(c, st)
    cnt, cm, err = rd(CNT, c.self), rd(CM, c.self), rd(ERR, c.self)
    return [('counts-are-positive', ForAll([x], Implies(OCNT.is_some(cnt[x]),
                                                        OCNT.val(cnt[x]) >= 1))),
            ('created-dirs-are-reserved', ForAll([x], Implies(OCM.is_some(cm[x]),
                                                              OCNT.is_some(cnt[x])))),
            ('created-and-given-up-are-disjoint', ForAll([x], Not(And(err[x],
                                                                      OCM.is_some(cm[x])))))]


def bd_inv_pre(c):
    # object invariant: established by __init__, preserved by the two methods that write these
    # tables (both proved below); no caller can establish it locally
    return [('assume-object-invariant.' + n, f) for n, f in bd_inv(c, 'old')]


def bd_inv_post(c):
    return [('invariant.' + n, f, ['C04', 'C10', 'C12']) for n, f in bd_inv(c, 'new')]


y_ = z3.Const('bd!y', StrS)


def dec(e):
    """a count entry after giving one reservation back"""
    return If(OCNT.val(e) > 1, OCNT.some(OCNT.val(e) - 1), OCNT.none)


def inc(e):
    """a count entry after taking one more reservation"""
    return If(OCNT.is_some(e), OCNT.some(OCNT.val(e) + 1), OCNT.some(1))


def reserved_along_the_path(c, cnt1, cnt0):
    """functional specification of started_building_file on the counts: the directory of the file
    gets one more reservation; a directory further up gets one exactly when the directory below
    it on the path had none before"""
    d0 = dirname(c.filename)
    return Implies(d0 != c.filename, And(
        cnt1[d0] == inc(cnt0[d0]),
        ForAll([y_], Implies(And(anc(y_, d0), dirname(y_) != y_), And(
            Implies(OCNT.is_none(cnt0[y_]), cnt1[dirname(y_)] == inc(cnt0[dirname(y_)])),
            Implies(OCNT.is_some(cnt0[y_]), cnt1[dirname(y_)] == cnt0[dirname(y_)]))))))


CONTRACTS = []
CONTRACTS.append(Contract(
    M + 'started_building_file', props=['C04', 'C10', 'C12'],
    params={'self': BD, 'filename': STR, 'created_dirs': LIST(STR)}, returns=LIST(STR),
    ret_fresh=True,
    # protocol: the reserved directories are closed under taking ancestors (true while the counts
    # are the numbers of reserved files below -- the cardinality statement left to the bounded
    # stand-in build_dirs_machine; error_building_file cannot re-establish it without it)
    requires=lambda c: bd_inv_pre(c) + [
        ('assume-protocol.reserved-dirs-have-reserved-ancestors', ForAll([x, y_], Implies(
            And(OCNT.is_some(c.old(CNT, c.self)[x]), anc(y_, x)),
            OCNT.is_some(c.old(CNT, c.self)[y_]))))],
    ensures=lambda c: bd_inv_post(c) + [
        ('one-reservation-taken-along-the-path',
         reserved_along_the_path(c, c.new(CNT, c.self), c.old(CNT, c.self)),
         ['C04', 'C10', 'C12']),
        ('only-own-ancestors-are-reserved', ForAll([x], Implies(
            Not(anc(x, dirname(c.filename))),
            And(c.new(CNT, c.self)[x] == c.old(CNT, c.self)[x],
                c.new(CM, c.self)[x] == c.old(CM, c.self)[x]))), ['C04', 'C10']),
        ('locked-are-made-ancestors', ForAll([x], Implies(
            z3.Contains(c.res, z3.Unit(x)),
            And(z3.Contains(c.created_dirs, z3.Unit(x)), anc(x, dirname(c.filename)))))),
        ('locked-are-registered', ForAll([x], Implies(
            z3.Contains(c.res, z3.Unit(x)), OCM.is_some(c.new(CM, c.self)[x])))),
    ],
    modifies=mods,
    local_types={'locked_created_dirs': LIST(STR), 'created_dirs_set': SET(STR), 'count': INT},
    loops={0: LoopSpec(inv=lambda c: [
        ('walking-up-from-the-file', anc(c.v('parent'), dirname(c.filename))),
        ('locked-so-far-are-made-ancestors', ForAll([x], Implies(
            z3.Contains(c.v('locked_created_dirs'), z3.Unit(x)),
            And(z3.Contains(c.created_dirs, z3.Unit(x)), anc(x, dirname(c.filename)))))),
        ('locked-so-far-are-registered', ForAll([x], Implies(
            z3.Contains(c.v('locked_created_dirs'), z3.Unit(x)),
            OCM.is_some(c.new(CM, c.self)[x])))),
        ('set-is-the-list', ForAll([x], c.v('created_dirs_set')[x]
                                   == z3.Contains(c.created_dirs, z3.Unit(x)))),
        ('only-own-ancestors-are-reserved', ForAll([x], Implies(
            Not(anc(x, dirname(c.filename))),
            And(c.new(CNT, c.self)[x] == c.entry(CNT, c.self)[x],
                c.new(CM, c.self)[x] == c.entry(CM, c.self)[x])))),
        ('visited-ancestors-had-no-reservation', Implies(
            dirname(c.filename) != c.filename,
            ForAll([y_], Implies(And(anc(y_, dirname(c.filename)), anc(c.v('prev_parent'), y_)),
                                 And(OCNT.is_none(c.entry(CNT, c.self)[y_]),
                                     c.new(CNT, c.self)[y_] == OCNT.some(1)))))),
        ('one-step-at-a-time', And(c.v('parent') == dirname(c.v('prev_parent')),
                                   Or(c.v('prev_parent') == c.filename,
                                      anc(c.v('prev_parent'), dirname(c.filename))))),
        ('not-yet-visited-ancestors-untouched', Implies(
            c.v('parent') != c.v('prev_parent'),
            ForAll([x], Implies(anc(x, c.v('parent')),
                                c.new(CNT, c.self)[x] == c.entry(CNT, c.self)[x])))),
    ] + [('invariant.' + n, f) for n, f in bd_inv(c, 'new')])},
    lemmas=['ANC', 'PATHS'],
    notes='reserves the file and its unreserved ancestors; returns the ancestors out of '
          'created_dirs that this call registered as created.  The two reservation ghosts are '
          'marker updates (definitions); that the counts equal the number of reserved files below '
          'each directory is the bounded stand-in build_dirs_machine'))
CONTRACTS[-1].ghost_updates = lambda c: {
    'bd_res': c.gold('bd_res') + 1,
    'bd_resv': z3.Store(c.gold('bd_resv'), c.filename, True)}
CONTRACTS[-1].lock_guards = {f: '_lock' for f in BD_FIELDS}
def released_along_the_path(c, cnt1, cnt0):
    """functional specification of error_building_file on the counts: the directory of the file
    loses one reservation; a directory further up loses one exactly when the directory below it on
    the path lost its last one"""
    d0 = dirname(c.filename)
    return Implies(d0 != c.filename, And(
        cnt1[d0] == dec(cnt0[d0]),
        ForAll([y_], Implies(And(anc(y_, d0), dirname(y_) != y_), And(
            Implies(OCNT.is_none(cnt1[y_]), cnt1[dirname(y_)] == dec(cnt0[dirname(y_)])),
            Implies(OCNT.is_some(cnt1[y_]), cnt1[dirname(y_)] == cnt0[dirname(y_)]))))))


def given_up(c, st0):
    """a directory this build created whose last reservation is released is recorded as given up
    (removed at the end of the build) and must be re-examined by the scan of the view"""
    rd0 = getattr(c, st0)
    return ForAll([x], Implies(
        And(OCM.is_some(rd0(CM, c.self)[x]), OCNT.is_some(rd0(CNT, c.self)[x]),
            OCNT.is_none(c.new(CNT, c.self)[x])),
        And(c.new(ERR, c.self)[x], c.new('BuildDirs._maybe_removed_dirs', c.self)[x],
            OCM.is_none(c.new(CM, c.self)[x]))))


ERROR_BF = Contract(
    M + 'error_building_file', props=['C04', 'C10'],
    params={'self': BD, 'filename': STR},
    # protocol: the file was reserved by started_building_file and not yet released, so every
    # ancestor the walk visits has a count (that the counts are exactly the numbers of reserved
    # files below is the cardinality statement left to the bounded stand-in build_dirs_machine)
    requires=lambda c: bd_inv_pre(c) + [
        ('assume-protocol.ancestors-are-reserved', ForAll([x], Implies(
            anc(x, dirname(c.filename)), OCNT.is_some(c.old(CNT, c.self)[x]))))],
    # never raises (raises=[]): giving a reservation back must not fail
    ensures=lambda c: bd_inv_post(c) + [
        ('given-up-dirs-were-created-by-this-build', ForAll([x], Implies(
            And(c.new(ERR, c.self)[x], Not(c.old(ERR, c.self)[x])),
            And(OCM.is_some(c.old(CM, c.self)[x]), anc(x, dirname(c.filename))))),
         ['C10', 'C03', 'C04']),
        ('only-own-ancestors-are-released', ForAll([x], Implies(
            Not(anc(x, dirname(c.filename))),
            And(c.new(CNT, c.self)[x] == c.old(CNT, c.self)[x],
                c.new(CM, c.self)[x] == c.old(CM, c.self)[x]))), ['C04', 'C10']),
        ('one-reservation-released-along-the-path',
         released_along_the_path(c, c.new(CNT, c.self), c.old(CNT, c.self)), ['C04', 'C10']),
        # C10: "the parent directories this call created are removed when empty - at once in the
        # virtual view and on disk by the end of the build"
        ('created-dirs-without-reservation-are-given-up', given_up(c, 'old'), ['C04', 'C10']),
        ('a-dir-that-stays-created-keeps-its-name', ForAll([x], Implies(
            OCM.is_some(c.new(CM, c.self)[x]),
            c.new(CM, c.self)[x] == c.old(CM, c.self)[x])), ['C12', 'C10'])],
    modifies=mods,
    local_types={'count': INT},
    loops={0: LoopSpec(inv=lambda c: [
        ('walking-up-from-the-file', anc(c.v('parent'), dirname(c.filename))),
        ('given-up-dirs-were-created-by-this-build', ForAll([x], Implies(
            And(c.new(ERR, c.self)[x], Not(c.entry(ERR, c.self)[x])),
            And(OCM.is_some(c.entry(CM, c.self)[x]), anc(x, dirname(c.filename)))))),
        ('only-own-ancestors-are-released', ForAll([x], Implies(
            Not(anc(x, dirname(c.filename))),
            And(c.new(CNT, c.self)[x] == c.entry(CNT, c.self)[x],
                c.new(CM, c.self)[x] == c.entry(CM, c.self)[x])))),
        ('a-dir-that-stays-created-keeps-its-name', ForAll([x], Implies(
            OCM.is_some(c.new(CM, c.self)[x]),
            c.new(CM, c.self)[x] == c.entry(CM, c.self)[x]))),
        ('created-dirs-without-reservation-are-given-up', given_up(c, 'entry')),
        ('visited-ancestors-lost-their-last-reservation', Implies(
            dirname(c.filename) != c.filename,
            ForAll([y_], Implies(And(anc(y_, dirname(c.filename)), anc(c.v('prev_parent'), y_)),
                                 And(OCNT.is_none(c.new(CNT, c.self)[y_]),
                                     OCNT.is_none(dec(c.entry(CNT, c.self)[y_]))))))),
        ('one-step-at-a-time', And(c.v('parent') == dirname(c.v('prev_parent')),
                                   Or(c.v('prev_parent') == c.filename,
                                      anc(c.v('prev_parent'), dirname(c.filename))))),
        ('not-yet-visited-ancestors-untouched', Implies(
            c.v('parent') != c.v('prev_parent'),
            ForAll([x], Implies(anc(x, c.v('parent')),
                                And(c.new(CNT, c.self)[x] == c.entry(CNT, c.self)[x],
                                    c.new(CM, c.self)[x] == c.entry(CM, c.self)[x]))))),
    ] + [('invariant.' + n, f) for n, f in bd_inv(c, 'new')])},
    lemmas=['ANC', 'PATHS'],
    notes='releases the reservation of a file reserved by started_building_file; the two '
          'reservation ghosts are marker updates (definitions)')
ERROR_BF.ghost_updates = lambda c: {
    'bd_res': c.gold('bd_res') - 1,
    'bd_resv': z3.Store(c.gold('bd_resv'), c.filename, False)}
ERROR_BF.lock_guards = {f: '_lock' for f in BD_FIELDS}
CONTRACTS.append(ERROR_BF)
CONTRACTS.append(Contract(
    M + 'created_dirs', props=['C12', 'C02', 'C03'], params={'self': BD}, returns=LIST(STR),
    ret_fresh=True,
    ensures=lambda c: [
        ('values-of-the-created-map', ForAll([x], Implies(
            z3.Contains(c.res, z3.Unit(x)),
            z3.Exists([z3.Const('bd!k', StrS)],
                      c.old(CM, c.self)[z3.Const('bd!k', StrS)] == OCM.some(x))))),
        ('every-value-of-the-created-map', ForAll([x], Implies(
            OCM.is_some(c.old(CM, c.self)[x]),
            z3.Contains(c.res, z3.Unit(OCM.val(c.old(CM, c.self)[x]))))), ['C02', 'C03'])],
    modifies=lambda c: []))
CONTRACTS.append(Contract(
    M + 'norm_cased_error_created_dirs', props=['C12', 'C02', 'C03', 'C10'], params={'self': BD},
    returns=LIST(STR), ret_fresh=True,
    ensures=lambda c: [('exactly-the-error-set', ForAll([x], z3.Contains(c.res, z3.Unit(x))
                                                       == c.old(ERR, c.self)[x]))],
    modifies=lambda c: []))

CONTRACTS.append(Contract(
    M + '__init__', props=['C04', 'C10', 'C12'],
    params={'self': BD, 'old_cache_dirs': LIST(STR), 'old_cache_files': LIST(STR)},
    ensures=lambda c: bd_inv_post(c) + [
        ('nothing-reserved-yet', ForAll([x], And(
            OCNT.is_none(c.new(CNT, c.self)[x]), OCM.is_none(c.new(CM, c.self)[x]),
            Not(c.new(ERR, c.self)[x]))), ['C04', 'C10']),
        ('knows-what-the-previous-build-left', ForAll([x], And(
            c.new('BuildDirs._maybe_removed_dirs', c.self)[x]
            == z3.Contains(c.old_cache_dirs, z3.Unit(x)),
            c.new('BuildDirs._removed_files', c.self)[x]
            == z3.Contains(c.old_cache_files, z3.Unit(x)),
            Not(c.new('BuildDirs._removed_dirs', c.self)[x]),
            Not(c.new('BuildDirs._exists_dirs', c.self)[x]))), ['C04', 'C03', 'C12'])],
    modifies=lambda c: [(f, c.self) for f in SH if f.startswith('BuildDirs.')],
    notes='establishes the object invariant assumed by started_building_file / '
          'error_building_file'))

"""Contracts for file_builder/build_dirs.py: class BuildDirs.

The reservation machine (counting of reserved children per directory) is NOT proved here: its
invariant is a cardinality statement (count[d] = number of reserved children of d) that the back
ends do not handle without a dedicated theory of finite sets.  The contracts below are ASSUMED at
call sites (listed as trusted in every evidence file that uses them) and backed by the bounded
stand-in bounded/build_dirs_machine.py, which runs every protocol-respecting call sequence up to a
stated length on the real class against a reference model.
"""
import z3
from pyvc.engine import Contract, ExcSpec, LoopSpec
from pyvc.sorts import STR, BOOL, INT, OBJ, SET, MAP, LIST, StrS, anc, dirname
from contracts.shapes import FIELDS as SH

M = 'file_builder.build_dirs.BuildDirs.'
And, Or, Not, Implies, If, ForAll = z3.And, z3.Or, z3.Not, z3.Implies, z3.If, z3.ForAll
BD = OBJ('BuildDirs')
BD_FIELDS = [f for f in SH if f.startswith('BuildDirs.') and f != 'BuildDirs._lock']
x = z3.Const('bd!x', StrS)
CM = 'BuildDirs._created_dirs_map'
ERR = 'BuildDirs._error_created_dirs'
OCM = SH[CM].osort()


def mods(c):
    return [(f, c.self) for f in BD_FIELDS] + ['g:vstate', 'g:bd_res', 'g:bd_resv']


CONTRACTS = []
CONTRACTS.append(Contract(
    M + 'started_building_file', props=['C04', 'C10', 'C12'],
    params={'self': BD, 'filename': STR, 'created_dirs': LIST(STR)}, returns=LIST(STR),
    ret_fresh=True,
    ensures=lambda c: [
        ('locked-are-made-ancestors', ForAll([x], Implies(
            z3.Contains(c.res, z3.Unit(x)),
            And(z3.Contains(c.created_dirs, z3.Unit(x)), anc(x, dirname(c.filename)))))),
        ('locked-are-registered', ForAll([x], Implies(
            z3.Contains(c.res, z3.Unit(x)), OCM.is_some(c.new(CM, c.self)[x])))),
    ],
    modifies=mods,
    local_types={'locked_created_dirs': LIST(STR), 'created_dirs_set': SET(STR), 'count': INT},
    loops={0: LoopSpec(inv=lambda c: [
        ('walking-up-from-the-file', anc(c.v('parent'), dirname(c.filename))),
        ('locked-so-far-are-made-ancestors', ForAll([x], Implies(
            z3.Contains(c.v('locked_created_dirs'), z3.Unit(x)),
            And(z3.Contains(c.created_dirs, z3.Unit(x)), anc(x, dirname(c.filename)))))),
        ('locked-so-far-are-registered', ForAll([x], Implies(
            z3.Contains(c.v('locked_created_dirs'), z3.Unit(x)),
            OCM.is_some(c.new(CM, c.self)[x])))),
        ('set-is-the-list', ForAll([x], c.v('created_dirs_set')[x]
                                   == z3.Contains(c.created_dirs, z3.Unit(x)))),
    ])},
    lemmas=['ANC', 'PATHS'],
    notes='reserves the file and its unreserved ancestors; returns the ancestors out of '
          'created_dirs that this call registered as created.  The two reservation ghosts are '
          'marker updates (definitions); that the counts equal the number of reserved files below '
          'each directory is the bounded stand-in build_dirs_machine'))
CONTRACTS[-1].ghost_updates = lambda c: {
    'bd_res': c.gold('bd_res') + 1,
    'bd_resv': z3.Store(c.gold('bd_resv'), c.filename, True)}
CONTRACTS[-1].lock_guards = {f: '_lock' for f in BD_FIELDS}
CONTRACTS.append(Contract(
    M + 'error_building_file', props=['C04', 'C10'], trusted=True,
    params={'self': BD, 'filename': STR},
    ensures=lambda c: [('one-reservation-less', c.gnew('bd_res') == c.gold('bd_res') - 1),
                       ('this-path-released',
                        c.gnew('bd_resv') == z3.Store(c.gold('bd_resv'), c.filename, False))],
    modifies=mods,
    notes='releases the reservation of a file reserved by started_building_file; never raises '
          'under that protocol'))
CONTRACTS.append(Contract(
    M + 'created_dirs', props=['C12', 'C02', 'C03'], params={'self': BD}, returns=LIST(STR),
    ret_fresh=True,
    ensures=lambda c: [
        ('values-of-the-created-map', ForAll([x], Implies(
            z3.Contains(c.res, z3.Unit(x)),
            z3.Exists([z3.Const('bd!k', StrS)],
                      c.old(CM, c.self)[z3.Const('bd!k', StrS)] == OCM.some(x))))),
        ('every-value-of-the-created-map', ForAll([x], Implies(
            OCM.is_some(c.old(CM, c.self)[x]),
            z3.Contains(c.res, z3.Unit(OCM.val(c.old(CM, c.self)[x]))))), ['C02', 'C03'])],
    modifies=lambda c: []))
CONTRACTS.append(Contract(
    M + 'norm_cased_error_created_dirs', props=['C12', 'C02', 'C03', 'C10'], params={'self': BD},
    returns=LIST(STR), ret_fresh=True,
    ensures=lambda c: [('exactly-the-error-set', ForAll([x], z3.Contains(c.res, z3.Unit(x))
                                                       == c.old(ERR, c.self)[x]))],
    modifies=lambda c: []))

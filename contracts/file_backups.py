"""Contracts for file_builder/file_backups.py: class FileBackups (C02, C03, C14).

back_up_and_remove / restore_all / __enter__ / __exit__ are ASSUMED here with their documented
effect on the ghost file system (trusted, listed in the evidence); the index -> path arithmetic and
the string formatting of backup names are outside the modelled subset.  A bounded stand-in
(bounded/file_backups.py) runs the real class on a real directory.
"""
import z3
from pyvc.engine import Contract, ExcSpec, LoopSpec
from pyvc.sorts import (STR, BOOL, INT, OBJ, LIST, TUP, OPT, StrS, K_FILE, K_DIR, K_ABSENT, anc,
                        dirname)
from contracts.shapes import FIELDS as SH, Effect, log_prefix, log_append, log_len

M = 'file_builder.file_backups.FileBackups.'
And, Or, Not, Implies, If, ForAll = z3.And, z3.Or, z3.Not, z3.Implies, z3.If, z3.ForAll
FBK = OBJ('FileBackups')
BK = 'FileBackups._backups'
PAIR = SH[BK].args[0].sort()
is_temp = z3.Function('is_temp_path', StrS, z3.BoolSort())
x = z3.Const('bk!x', StrS)
i_ = z3.Const('bk!i', z3.IntSort())

CONTRACTS = []


def outside_temp_unchanged(c, also=None):
    k0, k1 = c.gold('fs_kind'), c.gnew('fs_kind')
    cond = Not(is_temp(x))
    if also is not None:
        cond = And(cond, x != also)
    return ForAll([x], Implies(cond, k1[x] == k0[x]))


TD = 'FileBackups._temp_dir'
OTD = SH[TD].sort()
from pyvc.lib import SIMPLE_NAME, ALL_SIMPLE      # noqa: E402


def entered(c):
    """the object is inside its `with` block: the backup directory was made by mkdtemp, it and its
    ancestors are directories, and "is a backup path" means "lies strictly below it".  Established
    by __enter__; user code cannot reach the directory's name (protocol assumption)."""
    t = OTD.val(c.old(TD, c.self))
    k = c.gold('fs_kind')
    return And(OTD.is_some(c.old(TD, c.self)),
               ForAll([x], Implies(anc(x, t), k[x] == K_DIR)),
               ForAll([x], is_temp(x) == And(anc(t, x), x != t)),
               Not(is_temp(c.filename)))


def backup_rename_guard(eng, st, args):
    """C03/C02: the file is moved into the backup directory, nowhere else"""
    return [('moves-only-into-the-backup-directory',
             And(args[0] == eng.cur_args['filename'].t, is_temp(args[1])), ['C03', 'C02'])]


def backup_makedirs_guard(eng, st, args):
    t = OTD.val(eng.hread(st, TD, eng.cur_args['self'].t))
    return [('creates-directories-only-in-the-backup-directory', anc(t, args[0]), ['C03', 'C02'])]


BACKUP = Contract(
    M + 'back_up_and_remove', props=['C02', 'C03', 'C14', 'C10'],
    params={'self': FBK, 'filename': STR}, returns=BOOL,
    requires=lambda c: [('assume-entered', entered(c))],
    ensures=lambda c: [
        ('moved-iff-it-was-a-regular-file', c.res == (c.gold('fs_kind')[c.filename] == K_FILE)),
        ('gone-afterwards', Implies(c.gold('fs_kind')[c.filename] != K_ABSENT,
                                    c.gnew('fs_kind')[c.filename] == K_ABSENT)),
        ('absent-stays-absent', Implies(c.gold('fs_kind')[c.filename] == K_ABSENT,
                                        c.gnew('fs_kind')[c.filename] == K_ABSENT)),
        ('nothing-else-outside-the-backup-directory-changes',
         outside_temp_unchanged(c, c.filename)),
        ('recorded-iff-moved', If(
            c.res,
            And(z3.Length(c.new(BK, c.self)) == z3.Length(c.old(BK, c.self)) + 1,
                z3.PrefixOf(c.old(BK, c.self), c.new(BK, c.self)),
                PAIR.t0(c.new(BK, c.self)[z3.Length(c.old(BK, c.self))]) == c.filename,
                is_temp(PAIR.t1(c.new(BK, c.self)[z3.Length(c.old(BK, c.self))]))),
            c.new(BK, c.self) == c.old(BK, c.self))),
        ('effects-appended', log_prefix(c.gold('eff'), c.gnew('eff'))),
        ('no-callback', c.gnew('ncalls') == c.gold('ncalls')),
    ],
    raises=[ExcSpec('OSError', ensures=lambda c: [
        ('file-left-in-place', outside_temp_unchanged(c)),
        ('nothing-recorded', c.new(BK, c.self) == c.old(BK, c.self)),
        ('effects-appended', log_prefix(c.gold('eff'), c.gnew('eff'))),
        ('no-callback', c.gnew('ncalls') == c.gold('ncalls'))])],
    modifies=lambda c: [(BK, c.self), ('FileBackups._next_backup_index', c.self), 'g:fs_kind',
                        'g:eff', 'g:fs_epoch', 'g:vstate'],
    local_types={'components': LIST(STR), 'value': INT},
    loops={0: LoopSpec(modifies=lambda c: [], inv=lambda c: [
        ('no-callback', c.gnew('ncalls') == c.gentry('ncalls')),
        ('nothing-touched-yet', And(c.gnew('fs_kind') == c.gentry('fs_kind'),
                                    c.gnew('eff') == c.gentry('eff'),
                                    c.new(BK, c.self) == c.entry(BK, c.self))),
        ('components-are-plain-names', ALL_SIMPLE(c.v('components')))])},
    lemmas=['ANC', 'PATHS'],
    notes='os.rename(filename, <path in the backup directory>); FileNotFoundError -> False; '
          'that the backup path is not yet in use (index -> path injective) is NOT proved: '
          'bounded stand-in file_backups')
BACKUP.guards = {'rename': backup_rename_guard, 'makedirs': backup_makedirs_guard}
BACKUP.lock_guards = {BK: '_lock', 'FileBackups._next_backup_index': '_lock'}
CONTRACTS.append(BACKUP)

def _orig(b, i):
    return PAIR.t0(b[i])


def restore_replace_guard(eng, st, args):
    """C03: the only file restore_all writes is the original position of a recorded backup, from
    its recorded backup path"""
    b0 = eng.hread(eng.entry_state, BK, eng.cur_args['self'].t)
    src, dst = args[0], args[1]
    return [('restores-only-recorded-backups-to-their-origin', z3.Exists([i_], And(
        i_ >= 0, i_ < z3.Length(b0), PAIR.t0(b0[i_]) == dst, PAIR.t1(b0[i_]) == src)),
        ['C03', 'C02'])]


def restore_makedirs_guard(eng, st, args):
    b0 = eng.hread(eng.entry_state, BK, eng.cur_args['self'].t)
    return [('creates-only-the-parent-of-a-backed-up-file', z3.Exists([i_], And(
        i_ >= 0, i_ < z3.Length(b0), dirname(PAIR.t0(b0[i_])) == args[0])), ['C03', 'C02'])]


def _handled(c, p):
    """what C02 needs of one backup (p = where the file belongs): a move onto p succeeded, or p
    is a directory (the documented case in which the file cannot be put back), or the OS refused
    (creating the parent, or the move itself)"""
    return Or(c.gnew('mv_done')[p], c.gnew('obs_dir')[p], c.gnew('os_failed')[p],
              c.gnew('os_failed')[dirname(p)])


def _restore_stable(c):
    """the outcome / observation logs only grow"""
    return And(ForAll([x], Implies(c.gold('obs_dir')[x], c.gnew('obs_dir')[x])),
               ForAll([x], Implies(c.gold('mv_done')[x], c.gnew('mv_done')[x])),
               ForAll([x], Implies(c.gold('os_failed')[x], c.gnew('os_failed')[x])))


RESTORE = Contract(
    M + 'restore_all', props=['C02', 'C03', 'C14'],
    params={'self': FBK},
    ensures=lambda c: [
        ('list-emptied', z3.Length(c.new(BK, c.self)) == 0),
        ('effects-appended', log_prefix(c.gold('eff'), c.gnew('eff'))),
        ('no-callback', c.gnew('ncalls') == c.gold('ncalls')),
        # C02 ("every regular file that existed before the call exists ..."): no backup is
        # skipped -- each one was moved back, or could not be for one of the documented reasons
        ('every-backup-is-restored-unless-directory-or-os-error', ForAll([i_], Implies(
            And(i_ >= 0, i_ < z3.Length(c.old(BK, c.self))),
            _handled(c, _orig(c.old(BK, c.self), i_)))), ['C02', 'C03']),
    ],
    # C02.R2: never raises (raises=[]: every exceptional path is an obligation)
    modifies=lambda c: [(BK, c.self), 'g:fs_kind', 'g:eff', 'g:fs_epoch', 'g:vstate',
                        'g:mv_done', 'g:os_failed', 'g:obs_dir'],
    loops={0: LoopSpec(inv=lambda c: [
        ('no-callback', c.gnew('ncalls') == c.gentry('ncalls')),
        ('effects-appended', log_prefix(c.gentry('eff'), c.gnew('eff'))),
        ('list-stays-empty', z3.Length(c.new(BK, c.self)) == 0),
        ('iterates-the-recorded-backups', c.loop['seq'] == c.entry(BK, c.self)),
        ('visited-backups-are-handled', ForAll([i_], Implies(
            And(i_ >= 0, i_ < c.loop['i']), _handled(c, _orig(c.entry(BK, c.self), i_)))),
         ['C02', 'C03']),
        ('logs-grow', _restore_stable(c)),
    ])},
    notes='for each (path, backup) in order: skipped if path is a directory, else '
          'makedirs(parent) and os.replace(backup, path); OSErrors are logged and skipped')
RESTORE.guards = {'replace': restore_replace_guard, 'makedirs': restore_makedirs_guard}
RESTORE.lock_guards = {BK: '_lock', 'FileBackups._next_backup_index': '_lock'}
CONTRACTS.append(RESTORE)

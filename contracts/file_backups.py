"""Contracts for file_builder/file_backups.py: class FileBackups (C02, C03, C14).

back_up_and_remove / restore_all / __enter__ / __exit__ are ASSUMED here with their documented
effect on the ghost file system (trusted, listed in the evidence); the index -> path arithmetic and
the string formatting of backup names are outside the modelled subset.  A bounded stand-in
(bounded/file_backups.py) runs the real class on a real directory.
"""
import z3
from pyvc.engine import Contract, ExcSpec, LoopSpec
from pyvc.sorts import (STR, BOOL, INT, OBJ, LIST, TUP, OPT, StrS, K_FILE, K_DIR, K_ABSENT, anc,
                        dirname)
from contracts.shapes import FIELDS as SH, Effect, log_prefix, log_append, log_len

M = 'file_builder.file_backups.FileBackups.'
And, Or, Not, Implies, If, ForAll = z3.And, z3.Or, z3.Not, z3.Implies, z3.If, z3.ForAll
FBK = OBJ('FileBackups')
BK = 'FileBackups._backups'
PAIR = SH[BK].args[0].sort()
is_temp = z3.Function('is_temp_path', StrS, z3.BoolSort())
x = z3.Const('bk!x', StrS)

CONTRACTS = []


def outside_temp_unchanged(c, also=None):
    k0, k1 = c.gold('fs_kind'), c.gnew('fs_kind')
    cond = Not(is_temp(x))
    if also is not None:
        cond = And(cond, x != also)
    return ForAll([x], Implies(cond, k1[x] == k0[x]))


CONTRACTS.append(Contract(
    M + 'back_up_and_remove', props=['C02', 'C03', 'C14'], trusted=True,
    params={'self': FBK, 'filename': STR}, returns=BOOL,
    ensures=lambda c: [
        ('moved-iff-it-was-a-regular-file', c.res == (c.gold('fs_kind')[c.filename] == K_FILE)),
        ('gone-afterwards', Implies(c.gold('fs_kind')[c.filename] != K_ABSENT,
                                    c.gnew('fs_kind')[c.filename] == K_ABSENT)),
        ('absent-stays-absent', Implies(c.gold('fs_kind')[c.filename] == K_ABSENT,
                                        c.gnew('fs_kind')[c.filename] == K_ABSENT)),
        ('nothing-else-outside-the-backup-directory-changes',
         outside_temp_unchanged(c, c.filename)),
        ('recorded-iff-moved', If(
            c.res,
            And(z3.Length(c.new(BK, c.self)) == z3.Length(c.old(BK, c.self)) + 1,
                z3.PrefixOf(c.old(BK, c.self), c.new(BK, c.self)),
                PAIR.t0(c.new(BK, c.self)[z3.Length(c.old(BK, c.self))]) == c.filename,
                is_temp(PAIR.t1(c.new(BK, c.self)[z3.Length(c.old(BK, c.self))]))),
            c.new(BK, c.self) == c.old(BK, c.self))),
        ('effects-appended', log_prefix(c.gold('eff'), c.gnew('eff'))),
        ('no-callback', c.gnew('ncalls') == c.gold('ncalls')),
    ],
    raises=[ExcSpec('OSError', ensures=lambda c: [
        ('file-left-in-place', outside_temp_unchanged(c)),
        ('nothing-recorded', c.new(BK, c.self) == c.old(BK, c.self)),
        ('effects-appended', log_prefix(c.gold('eff'), c.gnew('eff'))),
        ('no-callback', c.gnew('ncalls') == c.gold('ncalls'))])],
    modifies=lambda c: [(BK, c.self), ('FileBackups._next_backup_index', c.self), 'g:fs_kind',
                        'g:eff', 'g:fs_epoch', 'g:vstate'],
    notes='os.rename(filename, <fresh path in the backup directory>); FileNotFoundError -> False'))

CONTRACTS.append(Contract(
    M + 'restore_all', props=['C02', 'C03', 'C14'], trusted=True,
    params={'self': FBK},
    ensures=lambda c: [
        ('list-emptied', z3.Length(c.new(BK, c.self)) == 0),
        ('effects-appended', log_prefix(c.gold('eff'), c.gnew('eff'))),
        ('no-callback', c.gnew('ncalls') == c.gold('ncalls'))],
    modifies=lambda c: [(BK, c.self), 'g:fs_kind', 'g:eff', 'g:fs_epoch', 'g:vstate'],
    notes='never raises; for each (path, backup) in order: skipped if path is a directory, '
          'else makedirs(parent) and os.replace(backup, path)'))

"""Contracts for file_builder/file_builder.py (class FileBuilder)."""
import z3
from pyvc.engine import Contract, ExcSpec, LoopSpec
from pyvc.sorts import (anc, str_lit, is_alloc, STR, BOOL, INT, PYV, OBJ, SET, MAP, LIST, OPT, StrS, ObjS, PyV, PyVs, KVs,
                        cls_isinstance, cls_of, CLS, abspath, dirname, slen, K_FILE, K_DIR, K_ABSENT, EXC,
                        exc_issub)
from pyvc.values import CallbackV, Sym
from spec import json_spec as J
from contracts.shapes import FIELDS as SH, Effect, log_prefix, log_append, log_len, GHOSTS

M = 'file_builder.file_builder.FileBuilder.'
And, Or, Not, Implies, If, ForAll = z3.And, z3.Or, z3.Not, z3.Implies, z3.If, z3.ForAll

OPT_OP = SH['FileBuilder._operation'].sort()
FB = OBJ('FileBuilder')
ANY = OBJ('FileComparison?')      # any object; may or may not be a FileComparison


def op_of(c, st='old'):
    return getattr(c, st)('FileBuilder._operation', c.self)


def finished(c, st='old'):
    """the builder's function has returned or raised"""
    rd = getattr(c, st)
    op = rd('FileBuilder._operation', c.self)
    return If(OPT_OP.is_some(op), rd('Operation.is_finished', OPT_OP.val(op)),
              rd('FileBuilder._is_finished_build', c.self))


def wf_builder(c):
    """type invariant of a FileBuilder: its operation, if any, is a build-file or subbuild record"""
    op = op_of(c)
    return [('operation-kind', Implies(OPT_OP.is_some(op),
                                       Or(cls_of(OPT_OP.val(op)) == CLS['BuildFileOperation'],
                                          cls_of(OPT_OP.val(op)) == CLS['SubbuildOperation']))),
            ('operation-exists', Implies(OPT_OP.is_some(op),
                                         is_alloc(c.gold('alloc'), OPT_OP.val(op))))]


def no_effect(c):
    return [('no-fs-effect', c.gnew('eff') == c.gold('eff')),
            ('no-callback', c.gnew('ncalls') == c.gold('ncalls')),
            ('fs-unchanged', c.gnew('fs_kind') == c.gold('fs_kind'))]


def callback(name='func'):
    cb = CallbackV(name)
    cb.is_callable = z3.Bool('callable!' + name)
    return cb


NOTHING = lambda c: []
CONTRACTS = []
VARIANTS = []

# ---------------------------------------------------------------------------------------------------
CONTRACTS.append(Contract(
    M + '_assert_not_finished', props=['C17'],
    params={'self': FB},
    requires=wf_builder,
    raises=[ExcSpec('RuntimeError', when=lambda c: finished(c), modifies=NOTHING)],
    modifies=NOTHING,
))

SUBOPS = 'ComplexOperation.suboperations'
CONTRACTS.append(Contract(
    M + '_append_suboperation', props=['C17'],
    params={'self': FB, 'suboperation': OBJ('Operation')},
    requires=wf_builder,
    ensures=lambda c: [
        ('appended-to-owner', Implies(
            OPT_OP.is_some(op_of(c)),
            c.new(SUBOPS, OPT_OP.val(op_of(c)))
            == z3.Concat(c.old(SUBOPS, OPT_OP.val(op_of(c))), z3.Unit(c.suboperation)))),
        ('root-builder-records-nothing', Implies(
            Not(OPT_OP.is_some(op_of(c))),
            c.new(SUBOPS, OPT_OP.val(op_of(c))) == c.old(SUBOPS, OPT_OP.val(op_of(c))))),
    ],
    raises=[ExcSpec('RuntimeError', when=lambda c: finished(c), modifies=NOTHING)],
    modifies=lambda c: [(SUBOPS, OPT_OP.val(op_of(c)))],
))
CONTRACTS[-1].lock_guards = {SUBOPS: '_lock'}
# marker ghost: "the fence (re-check of the finished flag under the lock) was passed"
CONTRACTS[-1].ghost_updates = lambda c: {'fence_n': c.gold('fence_n') + 1}


def fence_exit(eng, st, ctrl, v):
    """C17 (structural half of the racing clause): a public method that got past its entry check
    re-checks the finished flag under the builder's lock (_append_suboperation) before any value
    or exception of its own leaves it -- so a call that was in flight when the function finished
    cannot deliver a result.  The interleaving argument itself is not machine-checked."""
    from pyvc.engine import Ctx
    if ctrl not in ('ret', 'ok', 'exc'):
        return []
    c = Ctx(eng, eng.entry_state, st, eng.cur_args, entry=eng.entry_state)
    passed = eng.gread(st, 'fence_n') > eng.gread(eng.entry_state, 'fence_n')
    if ctrl == 'exc':
        # refusals at the entry check (finished builder, ill-typed argument) need no re-check;
        # KeyboardInterrupt & co. are outside the statement
        need = And(Not(finished(c)), exc_issub(v.cls, 'OSError'))
        return [('os-errors-leave-only-through-the-fence', Implies(need, passed), ['C17'])]
    return [('results-leave-only-through-the-fence', passed, ['C17'])]


CONTRACTS.append(Contract(
    M + '_sanitize_filename', props=['C07', 'C15', 'C17', 'C10', 'C08', 'C04', 'C03'],
    params={'filename': PYV}, returns=STR,
    requires=lambda c: [('wf', J.wf(c.filename))],
    ensures=lambda c: [
        ('is-abspath-of-str', Implies(J.is_str(J.base_of(c.filename)),
                                      c.res == abspath(PyV.ps(J.base_of(c.filename)))))],
    raises=[ExcSpec('TypeError', when=lambda c: Not(J.is_str(J.base_of(c.filename))), exact=False,
                    modifies=NOTHING)],
    modifies=NOTHING,
))

# ---------------------------------------------------------------------------------------------------
# C17.Z1: every public method of a finished builder raises RuntimeError (or TypeError for an
# ill-typed argument, which is checked first) and changes nothing.
FENCE_EXC = [
    ExcSpec('RuntimeError', ensures=no_effect, modifies=NOTHING),
    ExcSpec('TypeError', ensures=no_effect, modifies=NOTHING),
]


def fence(name, params, vararg=None, kwarg=None):
    ps = {'self': FB}
    ps.update(params)
    con = Contract(M + name, props=['C17'], params=ps, variant='finished',
                   requires=lambda c: wf_builder(c) + build_state_wf(c) + [('finished', finished(c))] + [
                       ('wf-' + k, J.wf(c.a(k))) for k, t in params.items()
                       if t is PYV or (isinstance(t, Sym) and t.ty.kind == 'pyv')],
                   may_return=False, raises=FENCE_EXC, modifies=NOTHING)
    VARIANTS.append(con)


VARARGS = Sym(PyV.PTuple(z3.Const('p!args', PyVs)), PYV)
KWARGS = Sym(PyV.PDict(z3.Const('p!kwargs', KVs)), PYV)
for nm, ps in [
    ('build_file', {'filename': PYV, 'func_name': PYV, 'func': callback(), 'args': VARARGS,
                    'kwargs': KWARGS}),
    ('build_file_with_comparison', {'filename': PYV, 'file_comparison': ANY, 'func_name': PYV,
                                    'func': callback(), 'args': VARARGS, 'kwargs': KWARGS}),
    ('subbuild', {'func_name': PYV, 'func': callback(), 'args': VARARGS, 'kwargs': KWARGS}),
    ('read_text', {'filename': PYV, 'file_comparison': ANY}),
    ('read_binary', {'filename': PYV, 'file_comparison': ANY}),
    ('declare_read', {'filename': PYV, 'file_comparison': ANY}),
    ('list_dir', {'dir_': PYV}),
    ('walk', {'dir_': PYV, 'top_down': PYV}),
    ('is_file', {'filename': PYV}),
    ('is_dir', {'filename': PYV}),
    ('exists', {'filename': PYV}),
    ('get_size', {'filename': PYV}),
]:
    fence(nm, ps)


# ===================================================================================================
# guards: ghost preconditions of destructive primitives, stated from C03/C15 ("never touch a regular
# file other than the cache file, the targets of this build and the outputs recorded by the previous
# committed build; never remove a directory unless a build created it")
from contracts import cache as CA      # noqa: E402


def root_env(st):
    """locals of the function under verification (guards may fire inside inlined helpers)"""
    e = st.env
    while '$outer' in e:
        e = e['$outer']
    return e


def env_t(st, name):
    v = root_env(st)[name]
    return v.t if isinstance(v, Sym) else v


def guard_set(con, **guards):
    con.guards = guards
    return con


# ---------------------------------------------------------------------------------------------------
# clean (C12, C15, C03)
class _StView:
    """contract-style reader over one interpreter state (for guards)"""
    def __init__(self, eng, st):
        self.eng, self.st = eng, st

    def old(self, field, obj):
        return self.eng.hread(self.st, field, obj)
    new = old


def clean_remove_guard(eng, st, args):
    p = args[0]
    v = _StView(eng, st)
    cache = env_t(st, 'cache')
    name_ok = clean_name_ok(eng, st)
    return [
        ('only-recorded-outputs-or-cache-file',
         Or(p == env_t(st, 'cache_filename'), CA.created(v, 'old', cache, p)), ['C03', 'C12']),
        ('validated-before-first-effect', name_ok, ['C15', 'C12']),
    ]


def clean_name_ok(eng, st):
    bn = root_env(st)['build_name']
    cache = env_t(st, 'cache')
    stored = eng.hread(st, 'Cache._build_name', cache)
    return Or(J.is_none(bn.t), And(J.is_str(J.base_of(bn.t)),
                                   PyV.ps(J.base_of(bn.t)) == stored))


def clean_rmdir_guard(eng, st, args):
    p = args[0]
    cache = env_t(st, 'cache')
    return [('only-recorded-created-dirs', eng.hread(st, 'Cache._created_dirs', cache)[p],
             ['C03', 'C12']),
            ('validated-before-first-effect', clean_name_ok(eng, st), ['C15', 'C12'])]


xs_ = z3.Const('fb!x', StrS)


def clean_removals_only(c):
    """since this loop began (gold = the state in which the loop was entered)"""
    return ForAll([xs_], Or(c.gnew('fs_kind')[xs_] == c.gold('fs_kind')[xs_],
                            c.gnew('fs_kind')[xs_] == K_ABSENT))


def clean_attempts_grow(c):
    return ForAll([xs_], Implies(c.gold('rm_attempts')[xs_], c.gnew('rm_attempts')[xs_]))


CONTRACTS.append(guard_set(Contract(
    M + 'clean', props=['C12', 'C15', 'C03'],
    params={'cache_filename': PYV, 'build_name': PYV},
    requires=lambda c: [('wf1', J.wf(c.cache_filename)), ('wf2', J.wf(c.build_name))],
    ensures=lambda c: [
        ('no-callback', c.gnew('ncalls') == c.gold('ncalls')),
        # C15: "the cache path being a directory" is a refusal, not "nothing to clean"
        ('a-directory-at-the-cache-path-is-refused', Implies(
            J.is_str(J.base_of(c.cache_filename)),
            c.gold('fs_kind')[abspath(PyV.ps(J.base_of(c.cache_filename)))] != K_DIR), ['C15']),
    ],
    # any exception = refusal: nothing was touched
    raises=[ExcSpec('Exception', ensures=no_effect, modifies=NOTHING)],
    modifies=lambda c: ['g:eff', 'g:fs_kind', 'g:fs_epoch', 'g:rm_attempts', 'g:vstate'],
    loops={
        0: LoopSpec(inv=lambda c: [
            ('no-callback', c.gnew('ncalls') == c.gentry('ncalls')),
            # C12 coverage: every recorded output visited so far is no regular file any more, or
            # its removal has been attempted (and failed with an OSError, which clean ignores)
            ('visited-outputs-are-removed', ForAll([xs_], Implies(
                c.loop['seen'][xs_],
                Or(c.gnew('rm_attempts')[xs_], c.gnew('fs_kind')[xs_] != K_FILE))), ['C12']),
            ('removals-only', clean_removals_only(c), ['C12', 'C03']),
            ('attempts-only-grow', clean_attempts_grow(c), ['C12'])]),
        1: LoopSpec(inv=lambda c: [('no-callback', c.gnew('ncalls') == c.gentry('ncalls'))]),
    },
    lemmas=['lookup_sanitized', 'sanitized_eqdom', 'PATHS'],
), remove=clean_remove_guard, rmdir=clean_rmdir_guard))
CONTRACTS[-1].inlined_loops = {
    'file_builder.FileBuilder._remove_empty_dirs': {
        0: LoopSpec(inv=lambda c: [
            ('no-callback', c.gnew('ncalls') == c.gentry('ncalls')),
            ('visited-dirs-were-attempted', ForAll([xs_], Implies(
                c.loop['seen'][xs_], c.gnew('rm_attempts')[xs_])), ['C12']),
            # C12 ("those directories that build created which are empty afterwards" are deleted):
            # a visited directory is gone, is not empty, or the OS refused for another reason.
            # Stays true while shorter-or-equal paths are removed (longest first: a child is
            # longer than its parent), which is why the order of the clean-up steps matters.
            ('visited-dirs-are-gone-or-not-empty', ForAll([xs_], Implies(
                c.loop['seen'][xs_],
                gone_or_not_empty(c.gnew('fs_kind'), c.gnew('os_failed'), c.gnew('ne_wit'), xs_))),
             ['C12']),
            ('visited-dirs-are-not-shorter-than-the-last-one', Implies(
                c.loop['i'] > 0, ForAll([xs_], Implies(
                    c.loop['seen'][xs_],
                    slen(xs_) >= slen(c.loop['seq'][c.loop['i'] - 1])))), ['C12']),
            ('nothing-visited-at-the-start', Implies(
                c.loop['i'] == 0, ForAll([xs_], Not(c.loop['seen'][xs_]))), ['C12']),
            ('removals-only', clean_removals_only(c), ['C12', 'C03']),
            ('attempts-only-grow', clean_attempts_grow(c), ['C12']),
            ('refusals-only-grow', ForAll([xs_], Implies(c.gold('os_failed')[xs_],
                                                         c.gnew('os_failed')[xs_])))])},
}


def gone_or_not_empty(kind, failed, wit, d):
    """d is no directory (any more), or the OS refused to remove it for a reason other than
    ENOTEMPTY, or it still has a child (the one logged when its rmdir failed)"""
    return Or(kind[d] != K_DIR, failed[d],
              And(dirname(wit[d]) == d, wit[d] != d, kind[wit[d]] != K_ABSENT))


def clean_exit(eng, st, ctrl, v):
    """C12 coverage ("clean deletes the output files recorded by the last committed build, the
    cache file, and those directories that build created which are empty afterwards"): at every
    normal exit that read a cache, each recorded output and the cache file is no regular file any
    more or had its removal attempted, and each recorded directory had its rmdir attempted"""
    if ctrl not in ('ret', 'ok') or not isinstance(st.env.get('cache'), Sym):
        return []
    cache = st.env['cache'].t
    view = _StView(eng, st)
    kind, rm = eng.gread(st, 'fs_kind'), eng.gread(st, 'rm_attempts')
    cf = env_t(st, 'cache_filename')
    dirs = eng.hread(st, 'Cache._created_dirs', cache)
    return [
        ('every-recorded-output-is-removed', ForAll([xs_], Implies(
            CA.created(view, 'old', cache, xs_), Or(rm[xs_], kind[xs_] != K_FILE))), ['C12']),
        ('the-cache-file-is-removed', Or(rm[cf], kind[cf] != K_FILE), ['C12']),
        ('every-recorded-directory-is-attempted', ForAll([xs_], Implies(dirs[xs_], rm[xs_])),
         ['C12']),
        ('every-recorded-directory-is-gone-or-not-empty', ForAll([xs_], Implies(
            dirs[xs_], gone_or_not_empty(kind, eng.gread(st, 'os_failed'), eng.gread(st, 'ne_wit'),
                                         xs_))), ['C12'])]


CONTRACTS[-1].exit_obligations = clean_exit


# ---------------------------------------------------------------------------------------------------
# _build: for now only the frame facts its callers need (the body is verified under C02 below)
def eff_grows(c):
    return [('effects-only-appended', log_prefix(c.gold('eff'), c.gnew('eff')))]


# heap fields a running build may change (everything else is fixed at construction)
BUILD_MODS = [
    'Operation.return_value', 'Operation.is_finished', 'ComplexOperation.suboperations',
    'ComplexOperation.raised', 'ComplexOperation.setup_failed',
    'BuildFileOperation.file_comparison_result', 'SimpleOperation.exception_type_str',
    'Cache._files', 'Cache._norm_cased_files', 'Cache._subbuilds', 'Cache._created_dirs',
    'Cache._built_files',
    'BuildDirs._build_dir_counts', 'BuildDirs._created_dirs_map', 'BuildDirs._error_created_dirs',
    'BuildDirs._removed_dirs', 'BuildDirs._exists_dirs', 'BuildDirs._maybe_removed_dirs',
    'BuildDirs._removed_files', 'FileBackups._backups', 'FileBackups._next_backup_index',
    'SimpleOperationExecutor._hash_cache', 'FileBuilder._is_finished_build',
]
BUILD_GHOSTS = ['g:eff', 'g:fs_kind', 'g:fs_epoch', 'g:ncalls', 'g:rm_attempts', 'g:vstate',
                'g:bd_res']

# (_build's contract: see the end of this module, where it is verified)


def local_sym(eng, st, name):
    """the value of a local of the function under verification that a guard needs; None if it is
    not bound.  If the function has no local of that name at all (renamed by a refactoring) the
    guard does not apply: the function's obligations become weak (decided by replay, 10.3)"""
    v = root_env(st).get(name)
    if isinstance(v, Sym):
        return v
    if name not in getattr(eng, 'cur_local_names', (name,)):
        eng.renamed_locals.add(name)
    return None


def bv_mkdtemp_guard(eng, st, args):
    """C15: the temporary directory (first effect of a build) is made only after every check"""
    env = root_env(st)
    bn = env['build_name']
    kind0 = eng.gread(eng.entry_state, 'fs_kind')
    cf = env_t(st, 'cache_filename')
    oc = env.get('old_cache')
    name_ok = z3.BoolVal(True)
    if oc is not None:
        name_ok = Implies(kind0[cf] == K_FILE,
                          eng.hread(st, 'Cache._build_name', oc.t) == PyV.ps(J.base_of(bn.t)))
    func = eng.cur_args['func']
    vers = eng.cur_args['versions']
    bd_facts = []
    bd = env.get('build_dirs')
    if bd is not None and oc is not None:
        # the directory bookkeeping starts from the previous build's record: its created
        # directories may be gone, its outputs and the cache file are gone (C04, C12, C03)
        v = _StView(eng, st)
        rf = eng.hread(st, 'BuildDirs._removed_files', bd.t)
        mr = eng.hread(st, 'BuildDirs._maybe_removed_dirs', bd.t)
        bd_facts = [
            ('bookkeeping-knows-the-cache-file-is-not-foreign', rf[cf], ['C12', 'C04', 'C03']),
            ('bookkeeping-knows-the-previous-outputs', ForAll([xs_], Implies(
                CA.created(v, 'old', oc.t, xs_), rf[xs_])), ['C12', 'C04', 'C03']),
            ('bookkeeping-knows-the-previous-created-dirs', ForAll([xs_], (
                mr[xs_] == eng.hread(st, 'Cache._created_dirs', oc.t)[xs_])), ['C12', 'C04', 'C03']),
        ]
    nc = local_sym(eng, st, 'new_cache')
    # C06 ("names absent from the map have version None", "a version change invalidates"): the
    # cache of this build records exactly the versions it was given -- the JSON form of the
    # `versions` argument, nothing carried over from anywhere else, nothing left unsanitized
    bd_facts = bd_facts + [
        ('new-cache-records-exactly-the-given-versions',
         eng.hread(st, 'Cache._func_versions', nc.t) == J.rt(vers.t)
         if isinstance(nc, Sym) else z3.BoolVal(False), ['C06', 'C16', 'C05'])]
    return bd_facts + [
        ('name-is-str', J.is_str(J.base_of(bn.t)), ['C15']),
        ('func-callable', func.is_callable, ['C15']),
        ('versions-is-json-dict', And(J.is_dict(J.base_of(vers.t)), J.jsonable(vers.t)), ['C15']),
        ('cache-path-not-a-directory', kind0[cf] != K_DIR, ['C15']),
        ('stored-build-name-matches', name_ok, ['C15']),
        # C15 ("a corrupt or truncated cache file is refused"): whatever regular file stands at
        # the cache path has been parsed by Cache.read_immutable without error before the build
        # starts -- there is no other way past it
        ('existing-cache-file-was-read', Implies(
            And(kind0[cf] == K_FILE, Not(eng.gread(eng.entry_state, 'cache_read')[cf])),
            eng.gread(st, 'cache_read')[cf]), ['C15', 'C16']),
        ('nothing-happened-before', And(eng.gread(st, 'eff') == eng.gread(eng.entry_state, 'eff'),
                                        eng.gread(st, 'ncalls')
                                        == eng.gread(eng.entry_state, 'ncalls'),
                                        eng.gread(st, 'fs_kind') == kind0), ['C15']),
    ]


def first_effect_is_mkdtemp(c):
    e0, e1 = c.gold('eff'), c.gnew('eff')
    return Or(And(e1 == e0, c.gnew('ncalls') == c.gold('ncalls'),
                  c.gnew('fs_kind') == c.gold('fs_kind')),
              And(e1 > e0, c.gnew('mkdtemp_at') == e0))


def bv_exit(eng, st, ctrl, val=None):
    """C17.Z2: the root builder created by this call is finished on every exit (also when the
    build function raised something that is not an Exception)"""
    b = st.env.get('builder')
    if b is None:
        return []
    return [('root-builder-closed-on-every-exit',
             eng.hread(st, 'FileBuilder._is_finished_build', b.t), ['C17'])]


def root_builders_closed(c):
    """C17.Z2: the root builder created by this call is finished on every exit (also when the
    build function raised something that is not an Exception)"""
    a0, a1 = c.gold('alloc'), c.gnew('alloc')
    from pyvc.sorts import birth
    return [('root-builder-closed-on-every-exit', ForAll([qo_], Implies(
        And(birth(qo_) >= a0, birth(qo_) < a1, cls_of(qo_) == CLS['FileBuilder'],
            Not(OPT_OP.is_some(c.new('FileBuilder._operation', qo_)))),
        c.new('FileBuilder._is_finished_build', qo_))), ['C17'])]


CONTRACTS.append(guard_set(Contract(
    M + 'build_versioned', props=['C15', 'C17', 'C12', 'C04', 'C03', 'C06', 'C05', 'C16'],
    params={'cache_filename': PYV, 'build_name': PYV, 'versions': PYV, 'func': callback(),
            'args': VARARGS, 'kwargs': KWARGS},
    returns=PYV,
    requires=lambda c: [('wf1', J.wf(c.cache_filename)), ('wf2', J.wf(c.build_name)),
                        ('wf3', J.wf(c.versions))],
    ensures=lambda c: [('first-effect-is-the-backup-directory', first_effect_is_mkdtemp(c))],
    raises=[ExcSpec('BaseException', ensures=lambda c: [
        ('refused-or-first-effect-is-the-backup-directory', first_effect_is_mkdtemp(c))])],
    modifies=lambda c: list(SH.keys()) + BUILD_GHOSTS + ['g:mkdtemp_at', 'g:wopen_attempts'],
    lemmas=['lookup_sanitized', 'sanitized_eqdom', 'rt_sanitized'],
), mkdtemp=bv_mkdtemp_guard))
CONTRACTS[-1].exit_obligations = bv_exit


def builder_mods(c):
    return BUILD_MODS + BUILD_GHOSTS


# ===================================================================================================
# C11: values cross the API by value.  Region obligations: `ret_fresh` on every value-returning API
# edge; arguments handed to user callbacks must be fresh (checked at the callback call site).
EXEC = 'file_builder.simple_operation_executor.SimpleOperationExecutor.'
OPS = ['exists', 'get_size', 'is_dir', 'is_file', 'list_dir', 'read', 'walk']
EXEC_MODS = ['BuildDirs._removed_dirs', 'BuildDirs._exists_dirs', 'BuildDirs._maybe_removed_dirs',
             'BuildDirs._removed_files', 'SimpleOperationExecutor._hash_cache']

def xq_logged(c):
    """ghost log of the query just re-executed: what it returned, or the class name of the OSError
    it raised (read by the exit obligation of _is_simple_operation_cached)"""
    from pyvc.lib import exc_name
    XO = GHOSTS['xq_exc']
    out = [('query-logged', c.gnew('xq_n') == c.gold('xq_n') + 1)]
    if c.exc is None:
        out.append(('query-result-logged', And(c.gnew('xq_val') == c.res,
                                                 c.gnew('xq_exc') == XO.none)))
    else:
        out.append(('query-exception-logged', c.gnew('xq_exc') == XO.some(exc_name(c.exc.cls))))
    return out


class _ExecView:
    """context in which the contract clauses of an executor method are read for the operation
    `name(*args, created_files)`: same states as `c`, `self` = the executor, parameters taken from
    the JSON argument list"""
    def __init__(self, c, ex, args, cf, st='old'):
        self.self = ex
        rd = getattr(c, st)
        g = c.gold if st == 'old' else c.gnew
        self.old, self.new, self.gold, self.gnew = rd, rd, g, g
        a0 = PyVs.hd(PyV.litems(args))
        self.filename = PyV.ps(a0)
        self.created_files = cf


def exec_dispatch(c, ex, name, args, cf, res, st='old'):
    """what `getattr(self, name)(*(args + [created_files]))` returns, by the (verified) contracts
    of the executor's query methods: the Boolean queries are exactly the virtual view of C04, a
    size is returned only for paths of the view.  TRUSTED step: that the dispatch calls the method
    called `name` with these arguments (one line of Python; pinned by the context hash)."""
    from contracts import executor as EXC_
    v = _ExecView(c, ex, args, cf, st)
    wellformed = And(PyV.is_PList(args), PyVs.is_cons(PyV.litems(args)),
                     PyV.is_PStr(PyVs.hd(PyV.litems(args))))
    p = v.filename

    def case(opname, body):
        return Implies(And(name == str_lit(opname), wellformed), body)
    return [
        ('dispatch-is_file-is-the-virtual-view',
         case('is_file', res == PyV.PBool(EXC_.vfile(v, p, cf))), ['C04', 'C05', 'C01']),
        ('dispatch-is_dir-is-the-virtual-view',
         case('is_dir', res == PyV.PBool(EXC_.vdir(v, p, cf))), ['C04', 'C05', 'C01']),
        ('dispatch-exists-is-the-virtual-view',
         case('exists', res == PyV.PBool(EXC_.vexists(v, p, cf))), ['C04', 'C05', 'C01']),
        ('dispatch-get_size-only-for-paths-of-the-view',
         case('get_size', And(PyV.is_PInt(res), EXC_.vexists(v, p, cf))), ['C04', 'C05']),
    ]


# the executor's dispatch: frame + result type only here; the per-operation semantics are the
# contracts in contracts/executor.py (C04/C05/C13)
CONTRACTS.append(Contract(
    EXEC + 'exec', props=['C04'], trusted=True,
    params={'self': OBJ('SimpleOperationExecutor'), 'name': STR, 'args': PYV,
            'created_files': OPT(OBJ('CreatedFiles'))},
    returns=PYV,
    ensures=lambda c: no_effect(c) + [('result-is-json-like', J.wf(c.res)),
                                      ('result-comparable', J.eqdom(c.res))] + xq_logged(c)
    + exec_dispatch(c, c.self, c.a('name'), c.a('args'), c.a('created_files'), c.res),
    raises=[ExcSpec('OSError', ensures=lambda c: no_effect(c) + xq_logged(c)),
            ExcSpec('ValueError', when=lambda c: Not(Or([c.name == str_lit(n) for n in OPS])),
                    ensures=no_effect)],
    modifies=lambda c: EXEC_MODS + ['g:xq_n', 'g:xq_val', 'g:xq_exc'],
    notes='dispatch by name to the executor methods; queries never change the file system'))




CONTRACTS.append(Contract(
    M + '_exec_simple_operation', props=['C11', 'C04', 'C17', 'C05'],
    params={'self': FB, 'operation': OBJ('SimpleOperation')}, returns=PYV, ret_fresh=True,
    requires=lambda c: wf_builder(c) + [
        ('fresh-record', Not(c.old('Operation.is_finished', c.operation)))],
    ensures=lambda c: no_effect(c) + append_only(c, except_obj=c.operation)
    # C04 at the level of the builder: the value handed back is the executor's answer for the
    # recorded name and arguments, with no replay overlay
    + exec_dispatch(c, c.old('FileBuilder._simple_operation_executor', c.self),
                    c.old('SimpleOperation.name', c.operation),
                    c.old('Operation.args', c.operation), None, c.res),
    raises=[ExcSpec('RuntimeError', when=lambda c: finished(c), ensures=no_effect,
                    modifies=NOTHING),
            ExcSpec('OSError', when=lambda c: Not(finished(c)), exact=False,
                    ensures=lambda c: no_effect(c) + append_only(c, except_obj=c.operation)),
            ExcSpec('ValueError', when=lambda c: Not(finished(c)), exact=False,
                    ensures=lambda c: no_effect(c)
                    + append_only(c, except_obj=c.operation))],
    modifies=lambda c: EXEC_MODS + ['Operation.return_value', 'Operation.is_finished',
                                    'SimpleOperation.exception_type_str', SUBOPS],
))
CONTRACTS[-1].fresh_props = ['C11', 'C05']
CONTRACTS[-1].exit_obligations = fence_exit
CONTRACTS[-1].ghost_updates = lambda c: {'exec_n': c.gold('exec_n') + 1}


# ---------------------------------------------------------------------------------------------------
# the public query methods (C13, C04, C05, C01): each records exactly one simple operation whose
# name and arguments are the documented ones -- the sanitized path and, for reads, the name of the
# comparison kind that was asked for -- and hands back what _exec_simple_operation returned
def query_guard(opname, argnames):
    def guard(eng, st, cargs):
        op = cargs['operation'].t
        args = eng.hread(st, 'Operation.args', op)
        conds = [eng.hread(st, 'SimpleOperation.name', op) == str_lit(opname), PyV.is_PList(args)]
        items = PyV.litems(args)
        for a in argnames:
            conds.append(PyVs.is_cons(items))
            elt = PyVs.hd(items)
            if a == 'file_comparison':
                # the comparison kind that was asked for, by name
                fc = eng.cur_args['file_comparison']
                conds.append(elt == PyV.PStr(eng.hread(st, 'FileComparison.name', fc.t)))
            elif a == 'top_down':
                conds.append(elt == eng.intr.to_pyv(eng.cur_args['top_down']))
            else:
                # the absolute normalised form of the path that was given
                f0 = J.base_of(eng.intr.to_pyv(eng.cur_args[a]))
                conds.append(Implies(J.is_str(f0), elt == PyV.PStr(abspath(PyV.ps(f0)))))
            items = PyVs.tl(items)
        conds.append(PyVs.is_nil(items))
        return [('records-the-documented-operation', And(conds),
                 ['C13', 'C04', 'C05', 'C01', 'C07'])]
    return guard


def query_exit(eng, st, ctrl, v):
    if ctrl not in ('ret', 'ok'):
        return []
    n0, n1 = eng.gread(eng.entry_state, 'exec_n'), eng.gread(st, 'exec_n')
    out = [('returns-only-after-recording-exactly-one-operation', n1 == n0 + 1,
            ['C13', 'C04', 'C05', 'C01'])]
    name = eng.cur.node.name
    if name in ('is_file', 'is_dir', 'exists'):
        # C04 at the API: the answer is the virtual view at the sanitized path
        from pyvc.engine import Ctx
        from contracts import executor as EXC_
        c = Ctx(eng, eng.entry_state, st, eng.cur_args, entry=eng.entry_state)
        f0 = J.base_of(eng.intr.to_pyv(eng.cur_args['filename']))
        ex = c.old('FileBuilder._simple_operation_executor', c.self)
        view = _ExecView(c, ex, PyV.PList(PyVs.cons(PyV.PStr(abspath(PyV.ps(f0))), PyVs.nil)),
                         None)
        want = {'is_file': EXC_.vfile, 'is_dir': EXC_.vdir, 'exists': EXC_.vexists}[name](
            view, abspath(PyV.ps(f0)), None)
        res = eng.intr.to_pyv(v)       # also a literal True/False returned by the body
        out.append(('answers-the-virtual-view-at-the-sanitized-path', Implies(
            J.is_str(f0), res == PyV.PBool(want)), ['C04', 'C05', 'C01']))
    return out


for _nm, _args in [('read_text', ['filename', 'file_comparison']),
                   ('read_binary', ['filename', 'file_comparison']),
                   ('declare_read', ['filename', 'file_comparison']),
                   ('list_dir', ['dir_']), ('is_file', ['filename']), ('is_dir', ['filename']),
                   ('exists', ['filename']), ('get_size', ['filename']),
                   ('walk', ['dir_', 'top_down'])]:
    _ps = {'self': FB}
    for _a in _args:
        _ps[_a] = ANY if _a == 'file_comparison' else PYV
    _c = Contract(
        M + _nm, props=['C13', 'C04', 'C05', 'C01'], params=_ps,
        returns=(None if _nm == 'declare_read' else
                 (OBJ('FileObj') if _nm.startswith('read_') else PYV)),
        requires=(lambda args: lambda c: wf_builder(c) + [
            ('wf-' + a, J.wf(c.a(a))) for a in args if a != 'file_comparison'])(_args),
        raises=[ExcSpec('RuntimeError', exact=False), ExcSpec('TypeError', exact=False),
                ExcSpec('OSError', exact=False), ExcSpec('ValueError', exact=False)],
        modifies=lambda c: EXEC_MODS + ['Operation.return_value', 'Operation.is_finished',
                                        'SimpleOperation.exception_type_str', SUBOPS],
        notes='public query method: records one simple operation')
    _c.call_guards = {'file_builder.FileBuilder._exec_simple_operation': query_guard(_nm if not
                      _nm.startswith(('read_', 'declare_')) else 'read', _args)}
    _c.exit_obligations = query_exit
    CONTRACTS.append(_c)

# _build_file / _subbuild as seen by their callers (bodies verified separately)
# (_build_file's contract is defined with its verification further below)


def same_user_exception(eng, st, ctrl, exc):
    """C10/C02: an exception raised by the user function propagates as the same object"""
    if ctrl != 'exc':
        return []
    cb = eng.gread(st, 'cb_exc')
    return [('user-exception-propagates-as-the-same-object', Or(cb == -1, exc.ident == cb),
             ['C10', 'C02'])]


def cb_args_fresh_hook(eng, st, f, pos, kws, starv, dstarv, node):
    """C11.A2: every JSON argument handed to the user function is a private copy"""
    intr = eng.intr
    vals = []
    for v in ([starv] if starv is not None else []) + ([dstarv] if dstarv is not None else []) \
            + list(pos):
        if hasattr(v, 'tail'):        # ArgsV: [self, filename] + <copy of args>
            vals.append(v.tail)
        elif isinstance(v, Sym) and v.ty.kind == 'pyv':
            vals.append(v)
    for i, v in enumerate(vals):
        eng.oblige(st, intr.fresh_goal(eng, st, v), 'region',
                   'callback-argument-%d-fresh@L%d' % (i, node.lineno),
                   props=['C11', 'C07', 'C08'],
                   line=node.lineno)


qo_ = z3.Const('fb!o', ObjS)


def append_only_states(eng, pre, post):
    """two-state invariant of a running build: records only grow (appends), closed stays closed"""
    rd = eng.hread
    al = eng.gread(pre, 'alloc')
    return [ForAll([qo_], Implies(is_alloc(al, qo_), z3.PrefixOf(rd(pre, SUBOPS, qo_),
                                                       rd(post, SUBOPS, qo_)))),
            ForAll([qo_], Implies(And(is_alloc(al, qo_), rd(pre, 'Operation.is_finished', qo_)),
                                  rd(post, 'Operation.is_finished', qo_)))]


STABLE_FIELDS = ['FileBuilder._is_finished_build',
                 'ComplexOperation.raised', 'ComplexOperation.setup_failed',
                 'Operation.return_value', 'Operation.is_finished',
                 'BuildFileOperation.file_comparison_result', 'SimpleOperation.exception_type_str']


def stable_states(eng, pre, post, except_obj=None):
    """records that existed before a nested call keep their result fields: a nested call writes
    only the records it allocates itself (and appends to suboperations lists)"""
    al = eng.gread(pre, 'alloc')
    out = []
    for f in STABLE_FIELDS:
        cond = is_alloc(al, qo_)
        if except_obj is not None:
            cond = And(cond, qo_ != except_obj)
        out.append(ForAll([qo_], Implies(cond, eng.hread(post, f, qo_) == eng.hread(pre, f, qo_))))
    return out


def append_only(c, except_own=False, except_obj=None):
    fs = append_only_states(c.eng, c._old, c._new)
    out = [('records-append-only', fs[0]), ('closed-stays-closed', fs[1])]
    ex = cur_op(c) if except_own else except_obj
    for f, g in zip(STABLE_FIELDS, stable_states(c.eng, c._old, c._new, ex)):
        out.append(('existing-records-keep-' + f.split('.')[1], g))
    return out


def cb_havoc_builder(eng, st, f, pos, kws, starv, dstarv):
    """what user code can change through the builder it was given: the shared build state,
    subject to the two-state invariants (rely) that every public method guarantees"""
    pre = st.fork()
    for fld in BUILD_MODS:
        eng.hhavoc(st, fld, 'Hcb')
    for f_ in append_only_states(eng, pre, st) + stable_states(eng, pre, st):
        st.assume(f_)


def own_subbuild_key(c):
    op = cur_op(c)
    return J.hsh(PyV.PList(PyVs.cons(PyV.PStr(c.old('ComplexOperation.func_name', op)),
                                     PyVs.cons(c.old('Operation.args', op),
                                               PyVs.cons(c.old('ComplexOperation.kwargs', op),
                                                         PyVs.nil)))))


def subbuild_taken(c):
    """C08: a subbuild with JSON-equal name and arguments was already started in this build"""
    nc = c.old('FileBuilder._new_cache', c.self)
    return CA.OSB.is_some(c.old('Cache._subbuilds', nc)[CA.hkey(own_subbuild_key(c))])


SUBBUILD_INNER = Contract(
    M + '_subbuild', props=['C11', 'C07', 'C08', 'C17', 'C05', 'C01'],
    params={'self': FB, 'func': callback()}, returns=PYV,
    requires=lambda c: wf_builder(c) + [
        ('is-subbuild', And(OPT_OP.is_some(op_of(c)),
                            cls_of(OPT_OP.val(op_of(c))) == CLS['SubbuildOperation'])),
        ('args-sanitized', J.sanitized(c.old('Operation.args', OPT_OP.val(op_of(c))))),
        ('kwargs-sanitized', J.sanitized(c.old('ComplexOperation.kwargs', OPT_OP.val(op_of(c))))),
        ('func-callable', c.args['func'].is_callable),
        ('record-is-new', And(z3.Length(c.old(SUBOPS, OPT_OP.val(op_of(c)))) == 0,
                              Not(c.old('ComplexOperation.raised', OPT_OP.val(op_of(c))))))]
    + build_state_wf(c),
    ensures=lambda c: [('closed', c.new('Operation.is_finished', OPT_OP.val(op_of(c)))),
                       ('function-skipped-only-if-version-unchanged', Implies(
                           c.gnew('ncalls') == c.gold('ncalls'),
                           versions_equal(c, c.old(FN, cur_op(c)))), ['C06']),
                       ] + append_only(c, True),
    raises=[ExcSpec('RuntimeError', when=subbuild_taken, guarded=True, forces=True,
                    ensures=no_effect, modifies=NOTHING, props=['C08']),
            ExcSpec('Exception', when=lambda c: Not(subbuild_taken(c)), guarded=True,
                    ensures=lambda c: append_only(c, True) + [
                        # C17: the builder is closed (under its lock) once its function has
                        # raised, like _rebuild_file does for a build_file builder (a failed
                        # set-up is closed by the public wrapper: no function ever held it)
                        ('closed-once-the-function-raised', Implies(
                            c.gnew('ncalls') > c.gold('ncalls'),
                            c.new('Operation.is_finished', cur_op(c))), ['C17']),
                        ('raised-iff-function-called',
                         c.new('ComplexOperation.raised', cur_op(c))
                         == (c.gnew('ncalls') > c.gold('ncalls')), ['C08', 'C10', 'C05', 'C01']),
                        ('setup-flag-untouched',
                         c.new('ComplexOperation.setup_failed', cur_op(c))
                         == c.old('ComplexOperation.setup_failed', cur_op(c)), ['C08', 'C05'])]),
            ExcSpec('KeyboardInterrupt', when=lambda c: Not(subbuild_taken(c)), guarded=True,
                    ensures=lambda c: append_only(c, True))],
    modifies=builder_mods,
)
SUBBUILD_INNER.exit_obligations = lambda eng, st, ctrl, v: same_user_exception(eng, st, ctrl, v)
SUBBUILD_INNER.callback_havoc = cb_havoc_builder
SUBBUILD_INNER.on_callback = cb_args_fresh_hook
CONTRACTS.append(SUBBUILD_INNER)


# ---------------------------------------------------------------------------------------------------
# cache lookups and reuse, as seen by _subbuild/_build_file (strengthened and verified further below)
OPT_SUB = OPT(OBJ('SubbuildOperation'))
OPT_BF = OPT(OBJ('BuildFileOperation'))
LOOKUP_MODS = EXEC_MODS     # replaying queries only refreshes the executor's memo tables


def versions_equal(c, name, st='old'):
    rd = getattr(c, st)
    oc, nc = rd('FileBuilder._old_cache', c.self), rd('FileBuilder._new_cache', c.self)

    def ver(cache):
        fv = rd('Cache._func_versions', cache)
        return If(J.kmem(PyV.PStr(name), PyV.kvs(fv)), J.klookup(PyV.PStr(name), PyV.kvs(fv)),
                  PyV.PNone)
    return J.jeq(ver(oc), ver(nc))


def cur_op(c):
    return OPT_OP.val(op_of(c))


# (the two top-level lookups are defined with the replay functions below)

# (_apply_cached_suboperations: contract with its verification at the end of the module)

def in_progress(e):
    """cache entry of a file whose building has started and not finished"""
    return And(CA.OO.is_some(e), CA.OI.is_none(CA.OO.val(e)))


# (Cache.use_cached_operation: contract and verification after the record predicates below)


# ---------------------------------------------------------------------------------------------------
# public entry points that run user functions
def last_subop(c, st='new'):
    rd = getattr(c, st)
    parent = OPT_OP.val(op_of(c))
    s = rd(SUBOPS, parent)
    return s[z3.Length(s) - 1]


def recorded_on_parent(c):
    """C17.Z4 / C08.D3: the attempt is attached to the caller's record, closed"""
    parent_some = OPT_OP.is_some(op_of(c))
    s0 = c.old(SUBOPS, OPT_OP.val(op_of(c)))
    s1 = c.new(SUBOPS, OPT_OP.val(op_of(c)))
    return [('attempt-recorded-on-parent', Implies(
        And(parent_some, Not(finished(c, 'new'))),
        And(z3.Length(s1) > z3.Length(s0),
            c.new('Operation.is_finished', last_subop(c)))), ['C17', 'C08'])]


PUBLIC_RUN_REQ = lambda c: wf_builder(c) + build_state_wf(c) + [('wf-args', J.wf(c.args['args'].t)),
                                            ('wf-kwargs', J.wf(c.args['kwargs'].t)),
                                            ('kwargs-keys-are-str', J.is_dict(c.args['kwargs'].t))]

SUBBUILD_PUB = Contract(
    M + 'subbuild', props=['C11', 'C08', 'C17', 'C07', 'C01', 'C05'],
    params={'self': FB, 'func_name': PYV, 'func': callback(), 'args': VARARGS, 'kwargs': KWARGS},
    returns=PYV, ret_fresh=True,
    requires=lambda c: PUBLIC_RUN_REQ(c) + [('wf-name', J.wf(c.func_name))],
    ensures=lambda c: recorded_on_parent(c) + append_only(c),
    raises=[ExcSpec('RuntimeError', when=lambda c: finished(c), ensures=no_effect,
                    modifies=NOTHING, props=['C17'], guarded=True, forces=True),
            ExcSpec('BaseException', when=lambda c: Not(finished(c)), guarded=True,
                    ensures=lambda c: append_only(c))],
    modifies=builder_mods,
    lemmas=['rt_sanitized'],
)
SUBBUILD_PUB.exit_obligations = lambda eng, st, ctrl, exc: (bfwc_exit(eng, st, ctrl, exc)
                                                            + fence_exit(eng, st, ctrl, exc))
SUBBUILD_PUB.fresh_props = ['C11', 'C01', 'C05']
CONTRACTS.append(SUBBUILD_PUB)

BFWC = Contract(
    M + 'build_file_with_comparison', props=['C11', 'C08', 'C17', 'C07', 'C10', 'C01', 'C05'],
    params={'self': FB, 'filename': PYV, 'file_comparison': ANY, 'func_name': PYV,
            'func': callback(), 'args': VARARGS, 'kwargs': KWARGS},
    returns=PYV, ret_fresh=True,
    requires=lambda c: PUBLIC_RUN_REQ(c) + [('wf-name', J.wf(c.func_name)),
                                            ('wf-filename', J.wf(c.filename))],
    ensures=lambda c: recorded_on_parent(c) + append_only(c),
    raises=[ExcSpec('RuntimeError', when=lambda c: finished(c), ensures=no_effect,
                    modifies=NOTHING, props=['C17'], guarded=True, forces=True),
            ExcSpec('BaseException', when=lambda c: Not(finished(c)), guarded=True,
                    ensures=lambda c: append_only(c))],
    modifies=builder_mods,
    lemmas=['rt_sanitized'],
)
def bfwc_exit(eng, st, ctrl, exc):
    """C08/C10 (what the cache may replay later): when build_file* fails with an Exception, its
    record is marked raised, and it is marked `setup_failed` exactly when the user function was
    never called (no callback happened during the call) -- only such records are dropped from the
    cache and retried by the next build; a failure of the function itself is cached"""
    sub = st.env.get('suboperation')
    if ctrl != 'exc' or not isinstance(sub, Sym):
        return []
    is_exception = exc_issub(exc.cls, 'Exception')
    called = eng.gread(st, 'ncalls') > eng.gread(eng.entry_state, 'ncalls')
    return [('failed-attempt-marked-raised', Implies(is_exception, eng.hread(st, RAISED, sub.t)),
             ['C08', 'C10', 'C01', 'C05']),
            ('setup-failed-iff-function-never-called', Implies(
                is_exception, eng.hread(st, SETUPF, sub.t) == Not(called)), ['C08', 'C10', 'C01', 'C05'])]


BFWC.exit_obligations = lambda eng, st, ctrl, exc: (bfwc_exit(eng, st, ctrl, exc)
                                                    + fence_exit(eng, st, ctrl, exc))
BFWC.fresh_props = ['C11', 'C01', 'C05']
CONTRACTS.append(BFWC)


# ---------------------------------------------------------------------------------------------------
# _rebuild_file: runs the user function of build_file (C10.B1/B3, C11.A2, C13.M6, C17.Z2)
def is_bf_builder(c):
    return [('is-build-file', And(OPT_OP.is_some(op_of(c)),
                                  cls_of(OPT_OP.val(op_of(c))) == CLS['BuildFileOperation'])),
            ('args-sanitized', J.sanitized(c.old('Operation.args', OPT_OP.val(op_of(c))))),
            ('kwargs-sanitized', J.sanitized(c.old('ComplexOperation.kwargs',
                                                   OPT_OP.val(op_of(c))))),
            ('func-callable', c.args['func'].is_callable)]


NCF = 'Cache._norm_cased_files'


def claimed(c, st='old'):
    """the target is claimed (in progress) in the new cache"""
    rd = getattr(c, st)
    nc = rd('FileBuilder._new_cache', c.self)
    fn = rd('BuildFileOperation.filename', cur_op(c))
    e = rd(NCF, nc)[fn]
    return And(CA.OO.is_some(e), CA.OI.is_none(CA.OO.val(e)))


def recorded(c, st='new'):
    rd = getattr(c, st)
    nc = rd('FileBuilder._new_cache', c.self)
    fn = rd('BuildFileOperation.filename', cur_op(c))
    return rd(NCF, nc)[fn] == CA.OO.some(CA.OI.some(cur_op(c)))


def my_filename(c):
    return c.old('BuildFileOperation.filename', cur_op(c))


REBUILD = Contract(
    M + '_rebuild_file', props=['C10', 'C11', 'C07', 'C17', 'C13', 'C03', 'C02'],
    params={'self': FB, 'func': callback()},
    requires=lambda c: wf_builder(c) + is_bf_builder(c) + [
        ('target-claimed', claimed(c)),
        ('not-yet-raised', Not(c.old('ComplexOperation.raised', cur_op(c))))],
    ensures=lambda c: [
        ('closed', c.new('Operation.is_finished', cur_op(c)), ['C17', 'C10']),
        ('not-raised', Not(c.new('ComplexOperation.raised', cur_op(c))), ['C10']),
        ('called-exactly-once', c.gnew('ncalls') >= c.gold('ncalls') + 1, ['C10']),
        ('visible-from-now-on', recorded(c), ['C04', 'C10']),
        ('comparison-result-taken-after-the-function-returned', Not(J.is_none(c.new(
            'BuildFileOperation.file_comparison_result', cur_op(c)))), ['C13', 'C10']),
    ] + append_only(c, True),
    raises=[ExcSpec('Exception', ensures=lambda c: [
        ('closed', c.new('Operation.is_finished', cur_op(c)), ['C17', 'C10']),
        ('marked-raised', c.new('ComplexOperation.raised', cur_op(c)), ['C10']),
        ('failed-output-stays-invisible', recorded(c), ['C04', 'C10']),
        # C10 ("parent directories this call created are removed at once in the virtual view"):
        # the reservation of the target is given back
        ('failed-call-releases-its-reservation', Not(c.gnew('bd_resv')[my_filename(c)]),
         ['C10', 'C14', 'C04']),
        ('function-was-called', c.gnew('ncalls') > c.gold('ncalls'), ['C10', 'C08']),
        ('setup-flag-untouched', c.new(SETUPF, cur_op(c)) == c.old(SETUPF, cur_op(c)),
         ['C08', 'C10']),
    ] + append_only(c, True)),
        ExcSpec('KeyboardInterrupt', ensures=lambda c: append_only(c, True))],
    modifies=lambda c: builder_mods(c) + ['g:bd_resv'],
)
REBUILD.exit_obligations = lambda eng, st, ctrl, v: same_user_exception(eng, st, ctrl, v)
REBUILD.callback_havoc = cb_havoc_builder
REBUILD.on_callback = cb_args_fresh_hook
REBUILD.lock_guards = {'Operation.is_finished': '_lock'}
CONTRACTS.append(REBUILD)


# (file_comparison_result: contract in contracts/executor.py)


# ===================================================================================================
# Cache lookups and replay (C06 versions, C01.L1-L3, C05, C08.D4)
from contracts import created_files as CF      # noqa: E402
from pyvc.fuel import rec as frec, define as fdefine      # noqa: E402

CFO = OBJ('CreatedFiles')
OPREC = OBJ('ComplexOperation')
FN, ARGS, KWARGS_F = 'ComplexOperation.func_name', 'Operation.args', 'ComplexOperation.kwargs'
SETUPF, RAISED = 'ComplexOperation.setup_failed', 'ComplexOperation.raised'

# VOK(o): the function version of record o and of every complex record below it equals the version
# given for this build (C06).  Least fixpoint over the (finite, acyclic) record tree; used through
# its two unfolding directions, stated per call site from the entry-state heap.
VOK = z3.Function('versions_ok', ObjS, z3.BoolSort())
qi_ = z3.Const('fb!i', z3.IntSort())


def is_complex(o):
    return Or(cls_of(o) == CLS['BuildFileOperation'], cls_of(o) == CLS['SubbuildOperation'])


def vok_children(c, op, st='old'):
    s = getattr(c, st)(SUBOPS, op)
    return ForAll([qi_], Implies(And(0 <= qi_, qi_ < z3.Length(s), is_complex(s[qi_])),
                                 VOK(s[qi_])))


def replay_marks_grow(c, base='gold'):
    g0 = getattr(c, base)('replayed')
    return ForAll([qr_], Implies(g0[qr_], c.gnew('replayed')[qr_]))


def children_replayed(c, op):
    """coverage of a replay: every recorded suboperation of `op` was handed to its replay function
    (which re-executes a query / checks an output and its versions, and says False if it differs)"""
    s = c.old(SUBOPS, op)
    return ForAll([qi_], Implies(And(0 <= qi_, qi_ < z3.Length(s)), c.gnew('replayed')[s[qi_]]))


COVER = ['C13', 'C01', 'C05', 'C04', 'C06']


def mark_replayed(c):
    return {'replayed': z3.Store(c.gnew('replayed'), c.operation, True)}


def vok_def(c, op):
    """definition of VOK at `op` (instance of the fixpoint equation)"""
    return VOK(op) == And(versions_equal(c, c.old(FN, op)), vok_children(c, op))


RWF = z3.Function('record_wf', ObjS, z3.BoolSort())
qr_ = z3.Const('fb!r', ObjS)


def record_axioms(c, with_versions=True):
    """ghost predicates over the record forest of the old cache: VOK is defined by its fixpoint
    equation; RWF is the type invariant of records read from a cache file (assumed of the input):
    JSON arguments and results, known comparison names, children well-formed"""
    rd = c.old
    s = rd(SUBOPS, qr_)
    local = And(
        is_alloc(c.gold('alloc'), qr_),
        Implies(is_complex(qr_), And(J.sanitized(rd(ARGS, qr_)), J.sanitized(rd(KWARGS_F, qr_)),
                                     rd('Operation.is_finished', qr_))),
        Implies(cls_of(qr_) == CLS['BuildFileOperation'], And(
            J.eqdom(rd('BuildFileOperation.file_comparison_result', qr_)),
            Or(rd(SETUPF, qr_), dirname(rd('BuildFileOperation.filename', qr_))
               != rd('BuildFileOperation.filename', qr_)))),
        Implies(cls_of(qr_) == CLS['SimpleOperation'], J.eqdom(rd('Operation.return_value', qr_))),
        Or(is_complex(qr_), cls_of(qr_) == CLS['SimpleOperation']))
    kids = ForAll([qi_], Implies(And(0 <= qi_, qi_ < z3.Length(s)), RWF(s[qi_])))
    out = [('def-record-type-invariant', ForAll([qr_], Implies(RWF(qr_), And(
                local, Implies(is_complex(qr_), kids)))))]
    if not with_versions:
        return out
    return [('def-versions-ok', ForAll([qr_], Implies(RWF(qr_), VOK(qr_) == And(
                versions_equal(c, rd(FN, qr_)),
                ForAll([qi_], Implies(And(0 <= qi_, qi_ < z3.Length(s), is_complex(s[qi_])),
                                      VOK(s[qi_]))))))),
            ] + out


# NBF(o): number of build-file records below o that did not raise (also below raised ones): the
# outputs a reuse of o must re-reserve (C01.L5).  NBFP(o, i) = the same over the first i children.
NBF = z3.Function('nonraised_outputs_below', ObjS, z3.IntSort())
NBFP = z3.Function('nonraised_outputs_prefix', ObjS, z3.IntSort(), z3.IntSort())


def nbf_term(c, s_):
    """contribution of one suboperation"""
    return If(And(cls_of(s_) == CLS['BuildFileOperation'], Not(c.old(RAISED, s_))),
              1 + NBF(s_), If(is_complex(s_), NBF(s_), 0))


def nbf_axioms(c):
    s = c.old(SUBOPS, qr_)
    return [('def-outputs-below', ForAll([qr_], Implies(RWF(qr_), And(
        NBFP(qr_, 0) == 0, NBF(qr_) == NBFP(qr_, z3.Length(s)), NBF(qr_) >= 0)))),
        ('def-outputs-prefix', ForAll([qr_, qi_], Implies(
            And(RWF(qr_), 0 <= qi_, qi_ < z3.Length(s)),
            And(NBFP(qr_, qi_ + 1) == NBFP(qr_, qi_) + nbf_term(c, s[qi_]),
                NBFP(qr_, qi_) >= 0))))]


# ---------------------------------------------------------------------------------------------------
# registration of a reused subtree in the new cache: Cache.use_cached_operation, _assert_no_repeats,
# _use_cached_operation (C08: a duplicate hidden in a reused subtree is refused; C01: everything
# reused counts as built).  Verified since round 4 (was a trusted contract with the bounded
# stand-in cache_forest).  INSUB(r, o): r is o or below o -- least relation with these constructors;
# defined through its prefix version INSUBP, so no existential is needed.
INSUB = z3.Function('in_subtree', ObjS, ObjS, z3.BoolSort())
INSUBP = z3.Function('in_subtree_prefix', ObjS, ObjS, z3.IntSort(), z3.BoolSort())
qo_ = z3.Const('fb!o', ObjS)
qk_ = z3.Const('fb!hk', CA.HKeyS)
CACHE_REG = [('Cache._files', ), ('Cache._norm_cased_files', ), ('Cache._subbuilds', )]


def insub_axioms(c):
    """INSUB(r, o): r is o or lies below o; INSUBP(r, o, i): r lies in the subtree of one of the
    first i suboperations of o.  Least solution of the two defining equations (reachability in
    the record forest); `step` is a consequence in that model (by induction on i) that the solver
    cannot derive itself"""
    s = c.old(SUBOPS, qo_)
    return [('def-subtree', ForAll([qr_, qo_], INSUB(qr_, qo_) == Or(
                qr_ == qo_, And(is_complex(qo_), INSUBP(qr_, qo_, z3.Length(s)))))),
            ('def-subtree-prefix-0', ForAll([qr_, qo_], Not(INSUBP(qr_, qo_, 0)))),
            ('def-subtree-prefix', ForAll([qr_, qo_, qi_], Implies(
                And(0 <= qi_, qi_ < z3.Length(s)),
                INSUBP(qr_, qo_, qi_ + 1) == Or(INSUBP(qr_, qo_, qi_), INSUB(qr_, s[qi_]))))),
            ('def-subtree-step', ForAll([qr_, qo_, qi_], Implies(
                And(is_complex(qo_), 0 <= qi_, qi_ < z3.Length(s), INSUB(qr_, s[qi_])),
                INSUB(qr_, qo_))))]


def sbkey(c, r):
    """what Cache.subbuild_key answers for record r (its verified contract)"""
    return J.hsh(PyV.PList(PyVs.cons(PyV.PStr(c.old(FN, r)), PyVs.cons(
        c.old(ARGS, r), PyVs.cons(c.old(KWARGS_F, r), PyVs.nil)))))


def counts(c, r):
    """records that take part in the registration: build-file and subbuild records whose set-up
    did not fail"""
    return And(is_complex(r), Not(c.old(SETUPF, r)))


def key_free(c, r, st):
    """nothing is claimed or registered under r's key"""
    rd = getattr(c, st)
    return And(
        Implies(cls_of(r) == CLS['BuildFileOperation'],
                Not(CA.OO.is_some(rd(NCF, c.self)[c.old('BuildFileOperation.filename', r)]))),
        Implies(cls_of(r) == CLS['SubbuildOperation'],
                Not(CA.OSB.is_some(rd('Cache._subbuilds', c.self)[CA.hkey(sbkey(c, r))]))))


def registered(c, r, st='new'):
    rd = getattr(c, st)
    fn = c.old('BuildFileOperation.filename', r)
    e = rd('Cache._subbuilds', c.self)[CA.hkey(sbkey(c, r))]
    return And(
        Implies(cls_of(r) == CLS['BuildFileOperation'],
                And(CA.entry_record(rd('Cache._files', c.self)[fn]),
                    CA.entry_record(rd(NCF, c.self)[fn]))),
        Implies(cls_of(r) == CLS['SubbuildOperation'],
                And(CA.OSB.is_some(e), CA.OSI.is_some(CA.OSB.val(e)))))


def file_entry_from(c, field, op, x_, st0, st1='new'):
    """entry x of a file map is unchanged or is now a record of the subtree of `op` with path x"""
    e1 = getattr(c, st1)(field, c.self)[x_]
    e0 = getattr(c, st0)(field, c.self)[x_]
    r = CA.rec_of(e1)
    return Or(e1 == e0, And(CA.entry_record(e1), INSUB(r, op), counts(c, r),
                            cls_of(r) == CLS['BuildFileOperation'],
                            c.old('BuildFileOperation.filename', r) == x_))


def sub_entry_from(c, op, k_, st0, st1='new'):
    e1 = getattr(c, st1)('Cache._subbuilds', c.self)[k_]
    e0 = getattr(c, st0)('Cache._subbuilds', c.self)[k_]
    r = CA.OSI.val(CA.OSB.val(e1))
    return Or(e1 == e0, And(CA.OSB.is_some(e1), CA.OSI.is_some(CA.OSB.val(e1)), INSUB(r, op),
                            counts(c, r), cls_of(r) == CLS['SubbuildOperation'],
                            CA.hkey(sbkey(c, r)) == k_))


def reuse_req(c):
    """what the callers hand over: the record of the current call (JSON arguments) carrying the
    suboperations of a record of the previous build"""
    s = c.old(SUBOPS, c.operation)
    return record_axioms(c, False) + insub_axioms(c) + [
        ('is-complex', is_complex(c.operation)),
        ('own-args-json', And(J.sanitized(c.old(ARGS, c.operation)),
                              J.sanitized(c.old(KWARGS_F, c.operation)))),
        ('suboperations-are-old-records',
         ForAll([qi_], Implies(And(0 <= qi_, qi_ < z3.Length(s)), RWF(s[qi_]))))]


CACHE_REG_MODS = lambda c: [('Cache._files', c.self), ('Cache._norm_cased_files', c.self),
                            ('Cache._subbuilds', c.self)]

ASSERT_NO_REPEATS = Contract(
    'file_builder.cache.Cache._assert_no_repeats', props=['C08', 'C01'],
    params={'self': OBJ('Cache'), 'operation': OBJ('ComplexOperation')},
    requires=reuse_req,
    ensures=lambda c: [
        ('no-key-of-the-subtree-is-taken', ForAll([qr_], Implies(
            And(INSUB(qr_, c.operation), counts(c, qr_)), key_free(c, qr_, 'old'))))],
    raises=[ExcSpec('RuntimeError', modifies=NOTHING)],
    modifies=NOTHING,
    loops={0: LoopSpec(inv=lambda c: [
        ('same-list', c.loop['seq'] == c.entry(SUBOPS, c.operation)),
        ('children-so-far-are-free', ForAll([qr_], Implies(
            And(INSUBP(qr_, c.operation, c.loop['i']), counts(c, qr_)),
            key_free(c, qr_, 'old'))))])},
)
CONTRACTS.append(ASSERT_NO_REPEATS)

USE_CACHED_INNER = Contract(
    'file_builder.cache.Cache._use_cached_operation', props=['C08', 'C01'],
    params={'self': OBJ('Cache'), 'operation': OBJ('ComplexOperation')},
    requires=reuse_req,
    # no exceptional exit (raises=[]): a registration that stops half-way would leave part of the
    # subtree registered
    ensures=lambda c: [
        ('only-records-of-the-subtree-are-entered', And(
            ForAll([xs_], And(file_entry_from(c, 'Cache._files', c.operation, xs_, 'old'),
                              file_entry_from(c, NCF, c.operation, xs_, 'old'))),
            ForAll([qk_], sub_entry_from(c, c.operation, qk_, 'old')))),
        ('every-record-of-the-subtree-is-registered', ForAll([qr_], Implies(
            And(INSUB(qr_, c.operation), counts(c, qr_)), registered(c, qr_))))],
    modifies=CACHE_REG_MODS,
    loops={0: LoopSpec(inv=lambda c: [
        ('same-list', c.loop['seq'] == c.entry(SUBOPS, c.operation)),
        ('only-records-of-the-subtree-are-entered', And(
            ForAll([xs_], And(file_entry_from(c, 'Cache._files', c.operation, xs_, 'entry'),
                              file_entry_from(c, NCF, c.operation, xs_, 'entry'))),
            ForAll([qk_], sub_entry_from(c, c.operation, qk_, 'entry')))),
        ('itself-registered', Implies(counts(c, c.operation), registered(c, c.operation))),
        ('children-so-far-are-registered', ForAll([qr_], Implies(
            And(INSUBP(qr_, c.operation, c.loop['i']), counts(c, qr_)),
            registered(c, qr_))))], modifies=CACHE_REG_MODS)},
)
CONTRACTS.append(USE_CACHED_INNER)

USE_CACHED = Contract(
    'file_builder.cache.Cache.use_cached_operation', props=['C08', 'C01'],
    params={'self': OBJ('Cache'), 'operation': OBJ('ComplexOperation')},
    requires=reuse_req,
    ensures=lambda c: [
        # a reuse registers finished records; it never creates (or resolves) a claim in progress
        ('claims-in-progress-unchanged', ForAll([xs_], And(
            in_progress(c.new('Cache._norm_cased_files', c.self)[xs_])
            == in_progress(c.old('Cache._norm_cased_files', c.self)[xs_]),
            Implies(in_progress(c.new('Cache._files', c.self)[xs_]),
                    in_progress(c.old('Cache._files', c.self)[xs_]))))),
        # C08: "without disturbing ... the cache record of the first call"
        ('records-of-earlier-calls-untouched', And(
            ForAll([xs_], Implies(CA.OO.is_some(c.old(NCF, c.self)[xs_]),
                                  c.new(NCF, c.self)[xs_] == c.old(NCF, c.self)[xs_])),
            ForAll([qk_], Implies(CA.OSB.is_some(c.old('Cache._subbuilds', c.self)[qk_]),
                                  c.new('Cache._subbuilds', c.self)[qk_]
                                  == c.old('Cache._subbuilds', c.self)[qk_])))),
        # C08: "implied because a cached subtree containing it is being reused - raises": a normal
        # return means no key of the subtree was taken before the call
        ('returns-only-if-no-key-of-the-subtree-was-taken', ForAll([qr_], Implies(
            And(INSUB(qr_, c.operation), counts(c, qr_)), key_free(c, qr_, 'old')))),
        # C08/C01: everything reused counts as built in this build
        ('every-record-of-the-subtree-is-registered', ForAll([qr_], Implies(
            And(INSUB(qr_, c.operation), counts(c, qr_)), registered(c, qr_))))],
    raises=[ExcSpec('RuntimeError', modifies=NOTHING)],
    modifies=CACHE_REG_MODS,
    notes='all-or-nothing registration of a reused subtree: the only exceptional exit leaves the '
          'cache unchanged')
USE_CACHED.lock_guards = {'Cache._files': '_files_lock', 'Cache._norm_cased_files': '_files_lock',
                          'Cache._subbuilds': '_subbuilds_lock'}
# C08: check and registration are one atomic step with respect to the claims of other threads
USE_CACHED.lock_calls = {
    'cache.Cache._assert_no_repeats': ['_files_lock', '_subbuilds_lock'],
    'cache.Cache._use_cached_operation': ['_files_lock', '_subbuilds_lock']}
CONTRACTS.append(USE_CACHED)




def cf_inv(c, st, cf):
    rd = getattr(c, st)
    return CF.inv(lambda f: rd(f, cf))


def cf_counts_grow(c, cf):
    d = CF.d
    return ForAll([d], CF.cnt(c.new(CF.N_, cf), d) >= CF.cnt(c.old(CF.N_, cf), d))


def replay_frame(c):
    return no_effect(c)


REPLAY_MODS = lambda c: EXEC_MODS + [(f, c.created_files) for f in (CF.F_, CF.D_, CF.S_, CF.N_)]


def replay_common_req(c):
    return wf_builder(c) + record_axioms(c) + versions_wf(c)


def versions_wf(c):
    return [('versions-are-dicts', And(
        J.is_dict(c.old('Cache._func_versions', c.old('FileBuilder._old_cache', c.self))),
        J.is_dict(c.old('Cache._func_versions', c.old('FileBuilder._new_cache', c.self))),
        J.sanitized(c.old('Cache._func_versions', c.old('FileBuilder._old_cache', c.self))),
        J.sanitized(c.old('Cache._func_versions', c.old('FileBuilder._new_cache', c.self))))),
        ('op-versions-are-dicts', And(
            J.is_dict(c.old('Cache._operation_versions', c.old('FileBuilder._old_cache', c.self))),
            J.is_dict(c.old('Cache._operation_versions', c.old('FileBuilder._new_cache', c.self))),
            J.sanitized(c.old('Cache._operation_versions',
                              c.old('FileBuilder._old_cache', c.self))),
            J.sanitized(c.old('Cache._operation_versions',
                              c.old('FileBuilder._new_cache', c.self)))))]


ARE_SUBOPS = Contract(
    M + '_are_suboperations_cached', props=['C06', 'C01', 'C05', 'C13', 'C04'],
    params={'self': FB, 'operation': OPREC, 'created_files': CFO}, returns=BOOL,
    requires=lambda c: replay_common_req(c) + cf_inv(c, 'old', c.created_files) + [
        ('record-wf', RWF(c.operation)), ('is-complex', is_complex(c.operation))],
    ensures=lambda c: replay_frame(c) + cf_inv(c, 'new', c.created_files) + [
        ('overlay-counts-never-drop', cf_counts_grow(c, c.created_files)),
        ('true-only-if-versions-unchanged-below', Implies(c.res, vok_children(c, c.operation)),
         ['C06']),
        # C13/C01 ("nested in a reused subtree"): True only after EVERY recorded suboperation
        # was replayed -- none skipped, the walk not cut short
        ('true-only-if-every-recorded-suboperation-was-replayed', Implies(
            c.res, children_replayed(c, c.operation)), COVER),
        ('replay-marks-only-grow', replay_marks_grow(c)),
    ],
    raises=[ExcSpec('RuntimeError', ensures=replay_frame), ExcSpec('OSError', ensures=replay_frame),
            ExcSpec('ValueError', ensures=replay_frame)],
    modifies=lambda c: REPLAY_MODS(c) + ['g:replayed'],
    loops={0: LoopSpec(modifies=lambda c: REPLAY_MODS(c) + ['g:replayed'],
                       inv=lambda c: cf_inv(c, 'new', c.created_files) + no_effect_loop(c) + [
        ('replay-marks-only-grow', replay_marks_grow(c, 'gentry')),
        ('visited-were-replayed', ForAll([qi_], Implies(
            And(0 <= qi_, qi_ < c.loop['i']), c.gnew('replayed')[c.loop['seq'][qi_]])), COVER),
        ('overlay-counts-never-drop', ForAll([CF.d], CF.cnt(c.new(CF.N_, c.created_files), CF.d)
                                             >= CF.cnt(c.entry(CF.N_, c.created_files), CF.d))),
        ('versions-ok-so-far', ForAll([qi_], Implies(
            And(0 <= qi_, qi_ < c.loop['i'], is_complex(c.loop['seq'][qi_])),
            VOK(c.loop['seq'][qi_])))),
    ])},
    lemmas=['PATHS', 'ANC'],
)


def no_effect_loop(c):
    return [('no-fs-effect', c.gnew('eff') == c.gentry('eff')),
            ('no-callback', c.gnew('ncalls') == c.gentry('ncalls')),
            ('fs-unchanged', c.gnew('fs_kind') == c.gentry('fs_kind')),
            ('fs-bookkeeping-unchanged', And(c.gnew('rm_attempts') == c.gentry('rm_attempts'),
                                             c.gnew('fs_epoch') == c.gentry('fs_epoch')))]


CONTRACTS.append(ARE_SUBOPS)

IS_BF_CACHED = Contract(
    M + '_is_build_file_cached', props=['C13', 'C01', 'C05', 'C10', 'C04'],
    params={'self': FB, 'operation': OBJ('BuildFileOperation')}, returns=BOOL,
    requires=lambda c: [('recorded-result-is-json', J.eqdom(c.old(
        'BuildFileOperation.file_comparison_result', c.operation)))],
    ensures=lambda c: no_effect(c) + [
        ('intact-outputs-exist', Implies(
            And(c.res, Not(J.is_none(c.old('BuildFileOperation.file_comparison_result',
                                           c.operation)))),
            c.gold('fs_kind')[c.old('BuildFileOperation.filename', c.operation)] == K_FILE),
         ['C01', 'C13'])],
    # C01/C05: an output that is not there -- missing, a directory, or a path below a regular
    # file -- is "changed", never an error: only an OS fault (EIO, EACCES, ...) may escape
    raises=[ExcSpec('OtherOSError', ensures=no_effect), ExcSpec('ValueError', ensures=no_effect)],
    modifies=lambda c: ['SimpleOperationExecutor._hash_cache'],
    lemmas=['sanitized_eqdom'],
)
CONTRACTS.append(IS_BF_CACHED)

DIRS_TO_MAKE = Contract(
    M + '_dirs_to_make', props=['C10', 'C04', 'C03'],
    params={'self': FB, 'dir_': STR, 'created_files': OPT(CFO)}, returns=LIST(STR), ret_fresh=True,
    ensures=lambda c: no_effect(c) + [
        ('only-ancestors-of-the-directory', ForAll([xs_], Implies(
            in_list(c.res, xs_), anc(xs_, c.dir_))), ['C10', 'C03'])],
    raises=[ExcSpec('NotADirectoryError', ensures=no_effect),
            ExcSpec('FileNotFoundError', ensures=no_effect)],
    modifies=lambda c: EXEC_MODS,
    local_types={'parents': LIST(STR), 'is_dir': BOOL, 'is_file': BOOL},
    loops={0: LoopSpec(modifies=lambda c: EXEC_MODS, inv=lambda c: no_effect_loop(c) + [
        ('cursor-is-an-ancestor', anc(c.v('parent'), c.dir_)),
        ('collected-are-ancestors', ForAll([xs_], Implies(
            in_list(c.v('parents'), xs_), anc(xs_, c.dir_))))])},
    lemmas=['PATHS', 'ANC'],
)
CONTRACTS.append(DIRS_TO_MAKE)


def record_wf(c, op):
    """type invariant of a finished record read from the old cache"""
    return [('record-args-json', And(J.sanitized(c.old(ARGS, op)), J.sanitized(c.old(KWARGS_F, op)))),
            ('record-exists', is_alloc(c.gold('alloc'), op))]


class _ExOld:
    def __init__(self, c):
        self.self = c.old('FileBuilder._simple_operation_executor', c.self)
        self.old, self.gold = c.old, c.gold


def bfop_target_exists(c):
    from contracts import executor as EXC_
    return EXC_.vexists(_ExOld(c), c.old('BuildFileOperation.filename', c.operation),
                        EXC_.OCF.some(c.created_files))


IS_BFOP = Contract(
    M + '_is_build_file_operation_cached', props=['C06', 'C01', 'C05', 'C08', 'C13', 'C04'],
    params={'self': FB, 'operation': OBJ('BuildFileOperation'), 'created_files': CFO}, returns=BOOL,
    requires=lambda c: replay_common_req(c) + cf_inv(c, 'old', c.created_files)
    + [('record-wf', RWF(c.operation))],
    ensures=lambda c: replay_frame(c) + cf_inv(c, 'new', c.created_files) + [
        ('overlay-counts-never-drop', cf_counts_grow(c, c.created_files)),
        ('true-only-if-versions-unchanged', Implies(c.res, VOK(c.operation)), ['C06']),
        ('true-only-if-not-setup-failed', Implies(c.res, Not(c.old(SETUPF, c.operation))),
         ['C08', 'C01']),
        ('true-only-if-path-unclaimed', Implies(c.res, Not(CA.OO.is_some(c.old(
            NCF, c.old('FileBuilder._new_cache', c.self))[c.old(
                'BuildFileOperation.filename', c.operation)]))), ['C08', 'C01']),
        # C01/C04/C10: a failed build_file call is replayed as "failed, target absent" only if
        # nothing stands at its target now -- executing it would first move a file there aside
        # (and delete it), or fail differently on a directory
        ('a-replayed-failure-finds-nothing-at-its-target', Implies(
            And(c.res, c.old(RAISED, c.operation)),
            Not(bfop_target_exists(c))), ['C01', 'C04', 'C10']),
        ('true-only-if-every-recorded-suboperation-was-replayed', Implies(
            c.res, children_replayed(c, c.operation)), COVER),
        ('replay-marks-only-grow', replay_marks_grow(c)),
    ],
    raises=[ExcSpec('RuntimeError', ensures=replay_frame), ExcSpec('OSError', ensures=replay_frame),
            ExcSpec('ValueError', ensures=replay_frame)],
    modifies=lambda c: REPLAY_MODS(c) + ['g:replayed'],
    lemmas=['PATHS', 'ANC', 'lookup_sanitized', 'sanitized_eqdom'],
)


def bfop_dirs_guard(eng, st, cargs):
    """C01 ("raises the same exception type as from scratch"): whether the parent directories of
    a recorded output can still be made is asked of the replayed state as it was BEFORE this
    output is registered in it -- once registered, its directories count as existing and the
    question can no longer fail"""
    obj = eng.cur_args['created_files'].t      # (here the overlay is a plain CreatedFiles object)
    from contracts import created_files as CF_
    same = And(eng.hread(st, CF_.F_, obj) == eng.hread(eng.entry_state, CF_.F_, obj),
               eng.hread(st, CF_.D_, obj) == eng.hread(eng.entry_state, CF_.D_, obj))
    return [('directories-checked-before-the-output-is-registered', same, ['C01', 'C05', 'C04'])]


IS_BFOP.call_guards = {'file_builder.FileBuilder._dirs_to_make': bfop_dirs_guard}
IS_BFOP.ghost_updates = mark_replayed
IS_BFOP.ghost_updates_on = 'ret'
CONTRACTS.append(IS_BFOP)

IS_SUBOP = Contract(
    M + '_is_subbuild_operation_cached', props=['C06', 'C01', 'C05', 'C08', 'C13', 'C04'],
    params={'self': FB, 'operation': OBJ('SubbuildOperation'), 'created_files': CFO}, returns=BOOL,
    requires=lambda c: replay_common_req(c) + cf_inv(c, 'old', c.created_files)
    + [('record-wf', RWF(c.operation))],
    ensures=lambda c: replay_frame(c) + cf_inv(c, 'new', c.created_files) + [
        ('overlay-counts-never-drop', cf_counts_grow(c, c.created_files)),
        ('true-only-if-versions-unchanged', Implies(c.res, VOK(c.operation)), ['C06']),
        ('true-only-if-not-setup-failed', Implies(c.res, Not(c.old(SETUPF, c.operation))),
         ['C08', 'C01']),
        ('true-only-if-every-recorded-suboperation-was-replayed', Implies(
            c.res, children_replayed(c, c.operation)), COVER),
        ('replay-marks-only-grow', replay_marks_grow(c)),
    ],
    raises=[ExcSpec('RuntimeError', ensures=replay_frame), ExcSpec('OSError', ensures=replay_frame),
            ExcSpec('ValueError', ensures=replay_frame)],
    modifies=lambda c: REPLAY_MODS(c) + ['g:replayed'],
    lemmas=['PATHS', 'ANC', 'lookup_sanitized', 'sanitized_eqdom'],
)
IS_SUBOP.ghost_updates = mark_replayed
IS_SUBOP.ghost_updates_on = 'ret'
CONTRACTS.append(IS_SUBOP)

IS_SIMPLE = Contract(
    M + '_is_simple_operation_cached', props=['C06', 'C01', 'C05', 'C13', 'C04'],
    params={'self': FB, 'operation': OBJ('SimpleOperation'), 'created_files': CFO}, returns=BOOL,
    requires=lambda c: replay_common_req(c) + [
        ('record-wf', RWF(c.operation))],
    ensures=lambda c: replay_frame(c),
    modifies=lambda c: EXEC_MODS,
    lemmas=['lookup_sanitized', 'sanitized_eqdom'],
)
def is_simple_exit(eng, st, ctrl, v):
    """C01/C13: a recorded query is accepted only if it was re-executed in this call AND what the
    re-execution gave is JSON-equal to the recorded value with the same exception class (or none).
    Stated over the ghost log written by executor.exec's contract, not over local variables."""
    if ctrl != 'ret':
        return []
    res = v.t if isinstance(v, Sym) else z3.BoolVal(bool(v))
    op = eng.cur_args['operation'].t
    rec_val = eng.hread(st, 'Operation.return_value', op)
    rec_exc = eng.hread(st, 'SimpleOperation.exception_type_str', op)
    n0 = eng.gread(eng.entry_state, 'xq_n')
    n1, cur_val, cur_exc = eng.gread(st, 'xq_n'), eng.gread(st, 'xq_val'), eng.gread(st, 'xq_exc')
    XO = GHOSTS['xq_exc']
    tags = ['C01', 'C13', 'C05', 'C04']
    return [('accepted-only-after-re-execution', Implies(res, n1 > n0), tags),
            ('accepted-only-if-same-value-and-same-exception-class',
             Implies(res, And(cur_exc == rec_exc,
                              Implies(XO.is_none(cur_exc), J.jeq(cur_val, rec_val)))), tags)]


IS_SIMPLE.exit_obligations = is_simple_exit
IS_SIMPLE.ghost_updates = mark_replayed
IS_SIMPLE.ghost_updates_on = 'ret'
CONTRACTS.append(IS_SIMPLE)


# ---- the two top-level lookups ----------------------------------------------------------------------
def old_cache_wf(c):
    """type invariant of the old cache: every registered record satisfies RWF"""
    oc = c.old('FileBuilder._old_cache', c.self)
    x_ = z3.Const('fb!p', StrS)
    k_ = z3.Const('fb!k', CA.HKeyS)
    F = c.old('Cache._files', oc)
    SBm = c.old('Cache._subbuilds', oc)
    return [('old-cache-records-wf', And(
        ForAll([x_], Implies(CA.entry_record(F[x_]), And(
            RWF(CA.rec_of(F[x_])), cls_of(CA.rec_of(F[x_])) == CLS['BuildFileOperation']))),
        ForAll([k_], Implies(And(CA.OSB.is_some(SBm[k_]), CA.OSI.is_some(CA.OSB.val(SBm[k_]))),
                             And(RWF(CA.OSI.val(CA.OSB.val(SBm[k_]))),
                                 cls_of(CA.OSI.val(CA.OSB.val(SBm[k_])))
                                 == CLS['SubbuildOperation'])))))]


def own_args_json(c):
    return [('own-args-json', And(J.sanitized(c.old(ARGS, cur_op(c))),
                                  J.sanitized(c.old(KWARGS_F, cur_op(c)))))]


SUBLOOKUP = Contract(
    M + '_subbuild_cache_lookup', props=['C01', 'C06', 'C05', 'C08'],
    params={'self': FB, 'subbuild_key': PYV}, returns=OPT_SUB,
    requires=lambda c: replay_common_req(c) + old_cache_wf(c) + [
        ('is-subbuild', And(OPT_OP.is_some(op_of(c)),
                            cls_of(cur_op(c)) == CLS['SubbuildOperation']))],
    ensures=lambda c: no_effect(c) + [
        ('hit-is-the-old-record', Implies(OPT_SUB.sort().is_some(c.res), And(
            CA.OSB.is_some(c.old('Cache._subbuilds', c.old('FileBuilder._old_cache', c.self))[
                CA.hkey(c.subbuild_key)]),
            CA.OSB.val(c.old('Cache._subbuilds', c.old('FileBuilder._old_cache', c.self))[
                CA.hkey(c.subbuild_key)]) == c.res,
            Not(c.old(RAISED, OPT_SUB.sort().val(c.res))),
            c.old('Operation.is_finished', OPT_SUB.sort().val(c.res)))), ['C01', 'C07']),
        ('hit-only-if-version-unchanged', Implies(
            OPT_SUB.sort().is_some(c.res),
            And(versions_equal(c, c.old(FN, cur_op(c))),
                vok_children(c, OPT_SUB.sort().val(c.res)))), ['C06']),
    ],
    raises=[ExcSpec('RuntimeError', ensures=no_effect), ExcSpec('OSError', ensures=no_effect),
            ExcSpec('ValueError', ensures=no_effect)],
    modifies=lambda c: LOOKUP_MODS,
    lemmas=['PATHS', 'ANC', 'lookup_sanitized', 'sanitized_eqdom'],
)
CONTRACTS.append(SUBLOOKUP)

BFLOOKUP = Contract(
    M + '_build_file_cache_lookup', props=['C01', 'C06', 'C05', 'C07', 'C13'],
    params={'self': FB}, returns=OPT_BF,
    requires=lambda c: replay_common_req(c) + old_cache_wf(c) + own_args_json(c) + [
        ('is-build-file', And(OPT_OP.is_some(op_of(c)),
                              cls_of(cur_op(c)) == CLS['BuildFileOperation']))],
    ensures=lambda c: no_effect(c) + [
        ('hit-is-the-old-record-of-this-path', Implies(OPT_BF.sort().is_some(c.res), And(
            c.old('Cache._files', c.old('FileBuilder._old_cache', c.self))[
                c.old('BuildFileOperation.filename', cur_op(c))] == CA.OO.some(c.res),
            Not(c.old(RAISED, OPT_BF.sort().val(c.res))))), ['C01', 'C07']),
        ('hit-only-if-same-name-and-json-equal-arguments', Implies(
            OPT_BF.sort().is_some(c.res), And(
                c.old(FN, OPT_BF.sort().val(c.res)) == c.old(FN, cur_op(c)),
                J.jeq(c.old(ARGS, OPT_BF.sort().val(c.res)), c.old(ARGS, cur_op(c))),
                J.jeq(c.old(KWARGS_F, OPT_BF.sort().val(c.res)), c.old(KWARGS_F, cur_op(c))))),
         ['C07', 'C01']),
        ('hit-only-if-version-unchanged', Implies(
            OPT_BF.sort().is_some(c.res),
            And(versions_equal(c, c.old(FN, cur_op(c))),
                vok_children(c, OPT_BF.sort().val(c.res)))), ['C06']),
    ],
    raises=[ExcSpec('RuntimeError', ensures=no_effect), ExcSpec('OSError', ensures=no_effect),
            ExcSpec('ValueError', ensures=no_effect)],
    modifies=lambda c: LOOKUP_MODS,
    lemmas=['PATHS', 'ANC', 'lookup_sanitized', 'sanitized_eqdom'],
)
CONTRACTS.append(BFLOOKUP)


def build_state_wf(c):
    """type invariant of the state shared by the builders of one build (established by
    build_versioned; assumed at the public entry points)"""
    return record_axioms(c) + versions_wf(c) + old_cache_wf(c) + executor_coherent(c)


# ===================================================================================================
# virtual-view queries as seen by FileBuilder (semantics and verification: contracts/executor.py)
EXECO = OBJ('SimpleOperationExecutor')


# ===================================================================================================
# commit / roll back / _build (C02, C03, C12, C01.L8, C16.P4)
def in_list(lst, x):
    return z3.Contains(lst, z3.Unit(x))


def commit_remove_guard(eng, st, args):
    p = args[0]
    v = _StView(eng, st)
    oc = eng.hread(st, 'FileBuilder._old_cache', env_t(st, 'self'))
    return [('only-outputs-of-the-previous-build', CA.created(v, 'old', oc, p), ['C03', 'C01'])]


def commit_rmdir_guard(eng, st, args):
    p = args[0]
    oc = eng.hread(st, 'FileBuilder._old_cache', env_t(st, 'self'))
    err = eng.cur_args['norm_cased_error_created_dirs'].t
    return [('only-dirs-created-by-this-or-the-previous-build',
             Or(eng.hread(st, 'Cache._created_dirs', oc)[p], in_list(err, p)), ['C03', 'C12'])]


class _ExNow:
    """the executor's view contract functions read through (.self, .old, .gold): adapter that
    makes them read the *current* state of a FileBuilder loop context"""
    def __init__(self, c):
        self.self = c.new('FileBuilder._simple_operation_executor', c.self)
        self.old, self.gold = c.new, c.gnew


def commit_kept(c, x):
    v = _ExNow(c)
    cfn = c.new('SimpleOperationExecutor._norm_cased_cache_filename', v.self)
    return Or(EXC_.vfile(v, x, None), x == cfn)


COMMIT = guard_set(Contract(
    M + '_commit', props=['C03', 'C01', 'C12', 'C10'],
    params={'self': FB, 'norm_cased_error_created_dirs': LIST(STR)},
    ensures=lambda c: [('no-callback', c.gnew('ncalls') == c.gold('ncalls'))] + eff_grows(c),
    modifies=lambda c: EXEC_MODS + ['g:eff', 'g:fs_kind', 'g:fs_epoch', 'g:rm_attempts', 'g:vstate'],
    local_types={'dirs_to_remove': SET(STR)},
    loops={
        0: LoopSpec(inv=lambda c: [('no-callback', c.gnew('ncalls') == c.gentry('ncalls')),
                                   ('effects-appended', log_prefix(c.gentry('eff'), c.gnew('eff'))),
                                   # C01.L8 / C12 coverage: every output of the previous build
                                   # visited so far is still a file of the virtual view (kept), is
                                   # the cache file, is no regular file any more, or had its
                                   # removal attempted
                                   ('visited-stale-outputs-are-removed', ForAll([xs_], Implies(
                                       c.loop['seen'][xs_],
                                       Or(c.gnew('rm_attempts')[xs_],
                                          c.gnew('fs_kind')[xs_] != K_FILE,
                                          commit_kept(c, xs_)))), ['C01', 'C12']),
                                   ('removals-only', clean_removals_only(c), ['C03', 'C01']),
                                   ('attempts-only-grow', clean_attempts_grow(c), ['C01'])]),
        1: LoopSpec(inv=lambda c: [
            ('no-callback', c.gnew('ncalls') == c.gentry('ncalls')),
            ('effects-appended', log_prefix(c.gentry('eff'), c.gnew('eff'))),
            ('to-remove-are-error-dirs-or-old-dirs', ForAll([xs_], Implies(
                c.v('dirs_to_remove')[xs_],
                Or(in_list(c.norm_cased_error_created_dirs, xs_),
                   c.new('Cache._created_dirs', c.new('FileBuilder._old_cache', c.self))[xs_])))),
        ]),
    },
), remove=commit_remove_guard, rmdir=commit_rmdir_guard)
COMMIT.inlined_loops = {'file_builder.FileBuilder._remove_empty_dirs': {0: LoopSpec(inv=lambda c: [
    ('no-callback', c.gnew('ncalls') == c.gentry('ncalls')),
    ('effects-appended', log_prefix(c.gentry('eff'), c.gnew('eff')))])}}
CONTRACTS.append(COMMIT)


# ---------------------------------------------------------------------------------------------------
def bd_of(eng, st):
    return eng.hread(st, 'FileBuilder._build_dirs', env_t(st, 'self'))


def rollback_remove_guard(eng, st, args):
    p = args[0]
    v = _StView(eng, st)
    nc = eng.hread(st, 'FileBuilder._new_cache', env_t(st, 'self'))
    return [('only-files-built-by-this-build', CA.created(v, 'old', nc, p), ['C03', 'C02'])]


def rollback_rmdir_guard(eng, st, args):
    p = args[0]
    dtr = local_sym(eng, st, 'dirs_to_remove')
    return [('only-dirs-created-by-this-build', dtr.t[p] if dtr is not None else z3.BoolVal(False),
             ['C03', 'C02'])]


def rollback_mkdir_guard(eng, st, args):
    p = args[0]
    oc = eng.hread(st, 'FileBuilder._old_cache', env_t(st, 'self'))
    return [('only-dirs-recorded-by-the-previous-build',
             eng.hread(st, 'Cache._created_dirs', oc)[p], ['C03', 'C02'])]


CMAP = 'BuildDirs._created_dirs_map'
OCMAP = SH[CMAP].osort()
kk_ = z3.Const('fb!kk', StrS)


def made_by_this_build(c, x, st='new'):
    """x is a directory this build created: registered in BuildDirs (created or error-created) or
    made for the cache file"""
    rd = getattr(c, st)
    bd = rd('FileBuilder._build_dirs', c.self)
    return Or(z3.Exists([kk_], rd(CMAP, bd)[kk_] == OCMAP.some(x)),
              rd('BuildDirs._error_created_dirs', bd)[x],
              in_list(c.cache_file_created_dirs, x))


ROLLBACK = guard_set(Contract(
    M + '_roll_back', props=['C02', 'C03', 'C14'],
    params={'self': FB, 'cache_file_created_dirs': LIST(STR)},
    # C02.R2: rolling back never raises (raises=[] : every exceptional path is an obligation)
    ensures=lambda c: [('no-callback', c.gnew('ncalls') == c.gold('ncalls')),
                       ('backups-consumed', z3.Length(c.new(
                           'FileBackups._backups', c.new('FileBuilder._backups', c.self))) == 0)]
    + eff_grows(c),
    modifies=lambda c: ['FileBackups._backups', 'g:eff', 'g:fs_kind', 'g:fs_epoch', 'g:vstate',
                        'g:rm_attempts', 'g:vstate'],
    local_types={'dirs_to_remove': SET(STR)},
    loops={
        0: LoopSpec(inv=lambda c: [
            ('no-callback', c.gnew('ncalls') == c.gentry('ncalls')),
            ('effects-appended', log_prefix(c.gentry('eff'), c.gnew('eff'))),
            ('to-remove-were-made-by-this-build', ForAll([xs_], Implies(
                c.v('dirs_to_remove')[xs_], made_by_this_build(c, xs_)))),
            # C02.R4 ("no file created by the failed build remains"): a file registered by this
            # build is either a result of the previous build that was reused as it is (registered
            # there, and not built now), or it is not a regular file any more / its removal has
            # been attempted.  A rebuilt file whose old copy existed was moved to the backups and
            # is put back by restore_all afterwards.
            ('every-file-this-build-built-is-removed', ForAll([xs_], Implies(
                And(c.loop['seen'][xs_], Not(reused_as_it_is(c, xs_))),
                Or(c.gnew('rm_attempts')[xs_], c.gnew('fs_kind')[xs_] != K_FILE))), ['C02']),
            ('removals-only', removals_only(c), ['C02', 'C03']),
            # C02: every directory this build made is going to be removed -- also one that the
            # previous build had recorded under the same name (it did not exist when this build
            # began, and restore_all cannot put a file back where a directory stands)
            ('everything-this-build-made-is-to-be-removed', ForAll([xs_], Implies(
                made_by_this_build(c, xs_), c.v('dirs_to_remove')[xs_])), ['C02', 'C03'])]),
    },
), remove=rollback_remove_guard, rmdir=rollback_rmdir_guard, mkdir=rollback_mkdir_guard)


def reused_as_it_is(c, x):
    oc = c.new('FileBuilder._old_cache', c.self)
    nc = c.new('FileBuilder._new_cache', c.self)
    return And(CA.created(c, 'new', oc, x), Not(c.new('Cache._built_files', nc)[x]))


def removals_only(c):
    """since the rollback began, the file system changed only by removals"""
    return ForAll([xs_], Or(c.gnew('fs_kind')[xs_] == c.gentry('fs_kind')[xs_],
                            c.gnew('fs_kind')[xs_] == K_ABSENT))


def rollback_restore_guard(eng, st, cargs):
    """C02/C03 ("even overwritten foreign files are back"): restore_all skips a file whose place
    is taken by a directory, so when it is called the rollback must not itself have put a
    directory where a backed-up file belongs"""
    b = eng.hread(st, 'FileBackups._backups', eng.hread(st, 'FileBuilder._backups',
                                                       env_t(st, 'self')))
    i = z3.Const('fb!bi', z3.IntSort())
    TS = SH['FileBackups._backups'].args[0].sort()
    k0, k1 = eng.gread(eng.entry_state, 'fs_kind'), eng.gread(st, 'fs_kind')
    orig = TS.t0(b[i])
    from pyvc.engine import Ctx
    c = Ctx(eng, eng.entry_state, st, eng.cur_args, entry=eng.entry_state)
    rm = eng.gread(st, 'rm_attempts')
    return [('no-directory-put-in-the-place-of-a-backed-up-file', ForAll([i], Implies(
        And(i >= 0, i < z3.Length(b), k1[orig] == K_DIR), k0[orig] == K_DIR)), ['C02', 'C03']),
            # ... and a directory that THIS build made at such a position (the file was moved
            # aside, then a directory was needed there) has had its removal attempted first, also
            # when the previous build had recorded a directory of that name
            ('directories-of-this-build-at-backed-up-positions-are-removed-first', ForAll(
                [i], Implies(And(i >= 0, i < z3.Length(b), k1[orig] == K_DIR,
                                 made_by_this_build(c, orig)), rm[orig])), ['C02', 'C03'])]


ROLLBACK.call_guards = {'file_backups.FileBackups.restore_all': rollback_restore_guard}
_lp = LoopSpec(inv=lambda c: [('no-callback', c.gnew('ncalls') == c.gentry('ncalls')),
                              ('effects-appended', log_prefix(c.gentry('eff'), c.gnew('eff')))])
_lp_rm = LoopSpec(inv=lambda c: [('no-callback', c.gnew('ncalls') == c.gentry('ncalls')),
                                 ('effects-appended', log_prefix(c.gentry('eff'), c.gnew('eff'))),
                                 ('removals-only', removals_only(c), ['C02', 'C03']),
                                 ('visited-were-attempted', ForAll([xs_], Implies(
                                     c.loop['seen'][xs_], c.gnew('rm_attempts')[xs_]))),
                                 ('attempts-only-grow', ForAll([xs_], Implies(
                                     c.gold('rm_attempts')[xs_], c.gnew('rm_attempts')[xs_])))])
ROLLBACK.inlined_loops = {'file_builder.FileBuilder._remove_empty_dirs': {0: _lp_rm},
                          'file_builder.FileBuilder._create_dirs': {0: _lp}}
CONTRACTS.append(ROLLBACK)


# ---------------------------------------------------------------------------------------------------
# _make_dirs (C10.B5, C14.F2, C03 guard on the move, C02.R3)
IS_TEMP = z3.Function('is_temp_path', StrS, z3.BoolSort())


def call_guard_set(con, **cg):
    con.call_guards = cg
    return con


def makedirs_backup_guard(eng, st, cargs):
    """C03/C02: a regular file standing where a directory is needed is moved aside only if it is
    an output recorded by the previous build"""
    p = cargs['filename'].t
    v = _StView(eng, st)
    oc = eng.hread(st, 'FileBuilder._old_cache', env_t(st, 'self'))
    nc = eng.hread(st, 'FileBuilder._new_cache', env_t(st, 'self'))
    return [('moves-only-outputs-of-the-previous-build',
             CA.created(v, 'old', oc, p, 'Cache._norm_cased_files'), ['C03', 'C02']),
            # what stands at a path the current build has begun to (re)build is this build's own
            # work (the old bytes were backed up when that build_file call began): moving it into
            # the backups would make the roll-back restore bytes the failed build wrote
            ('never-moves-a-file-this-build-is-building',
             Not(CA.OO.is_some(eng.hread(st, 'Cache._norm_cased_files', nc)[p])),
             ['C02', 'C10', 'C14'])]


def only_listed_changes(c, kind_now, made):
    """fs differs from the entry state only at: directories this call made, old outputs it moved
    aside, and the backup directory"""
    k0 = c.gentry('fs_kind')
    oc = c.new('FileBuilder._old_cache', c.self)
    return ForAll([xs_], Implies(Not(IS_TEMP(xs_)), Or(
        kind_now[xs_] == k0[xs_],
        And(in_list(made, xs_), kind_now[xs_] == K_DIR, k0[xs_] == K_ABSENT),
        And(k0[xs_] == K_FILE, CA.created(c, 'new', oc, xs_, 'Cache._norm_cased_files'),
            Or(kind_now[xs_] == K_ABSENT, And(in_list(made, xs_), kind_now[xs_] == K_DIR))))))


MAKE_DIRS = call_guard_set(Contract(
    M + '_make_dirs', props=['C10', 'C14', 'C03', 'C02', 'C04'],
    params={'self': FB, 'dir_': STR}, returns=LIST(STR), ret_fresh=False,
    requires=lambda c: [('not-in-backup-dir', ForAll([xs_], Implies(IS_TEMP(xs_), True)))],
    ensures=lambda c: [('no-callback', c.gnew('ncalls') == c.gold('ncalls'))] + eff_grows(c),
    raises=[ExcSpec('OSError', ensures=lambda c: [
        ('no-callback', c.gnew('ncalls') == c.gold('ncalls')),
        ('no-directory-left-behind', ForAll([xs_], Implies(
            And(Not(IS_TEMP(xs_)), c.gnew('fs_kind')[xs_] == K_DIR,
                c.gold('fs_kind')[xs_] != K_DIR),
            c.gnew('rm_attempts')[xs_])), ['C10', 'C14', 'C04', 'C02']),
    ] + eff_grows(c))],
    modifies=lambda c: EXEC_MODS + ['FileBackups._backups', 'FileBackups._next_backup_index',
                                    'g:eff', 'g:fs_kind', 'g:fs_epoch', 'g:rm_attempts', 'g:vstate'],
    local_types={'made_dirs': LIST(STR)},
    loops={0: LoopSpec(inv=lambda c: [
        ('no-callback', c.gnew('ncalls') == c.gentry('ncalls')),
        ('effects-appended', log_prefix(c.gentry('eff'), c.gnew('eff'))),
        ('only-listed-changes', only_listed_changes(c, c.gnew('fs_kind'), c.v('made_dirs')))
        if c.has('made_dirs') else ('shape', z3.BoolVal(True)),
        ('rm-attempts-unchanged', c.gnew('rm_attempts') == c.gentry('rm_attempts')),
    ])},
), **{'file_backups.FileBackups.back_up_and_remove': makedirs_backup_guard})
_lp2 = LoopSpec(inv=lambda c: [
    ('no-callback', c.gnew('ncalls') == c.gentry('ncalls')),
    ('effects-appended', log_prefix(c.gentry('eff'), c.gnew('eff'))),
    # clean-up loop: every directory visited so far has had its rmdir attempted; nothing is
    # created; attempts are never forgotten
    ('visited-were-attempted', ForAll([xs_], Implies(c.loop['seen'][xs_],
                                                     c.gnew('rm_attempts')[xs_]))),
    ('only-removals', ForAll([xs_], Or(c.gnew('fs_kind')[xs_] == c.gold('fs_kind')[xs_],
                                       c.gnew('fs_kind')[xs_] == K_ABSENT))),
    ('attempts-only-grow', ForAll([xs_], Implies(c.gold('rm_attempts')[xs_],
                                                 c.gnew('rm_attempts')[xs_]))),
])
MAKE_DIRS.inlined_loops = {'file_builder.FileBuilder._remove_empty_dirs': {0: _lp2}}
# scratch ghosts: which directory the last completed _make_dirs call was for and what it returned
# (read by the postcondition of _prepare_file_creation)
MAKE_DIRS.ghost_updates = lambda c: {'md_dir': c.dir_, 'md_res': c.res}
MAKE_DIRS.ghost_updates_on = 'ret'
CONTRACTS.append(MAKE_DIRS)


# ===================================================================================================
# preparing the target of build_file: _make_room, _prepare_file_creation (C03, C10, C02.R3)
from contracts import executor as EXC_      # noqa: E402


def allowed_move(eng, st, p):
    """C03: the only regular files the library may move aside are the cache file, outputs recorded
    by the previous build, and paths passed to build_file in this build"""
    me = env_t(st, 'self')
    v = _StView(eng, st)
    oc = eng.hread(st, 'FileBuilder._old_cache', me)
    nc = eng.hread(st, 'FileBuilder._new_cache', me)
    ex = eng.hread(st, 'FileBuilder._simple_operation_executor', me)
    cfn = eng.hread(st, 'SimpleOperationExecutor._norm_cased_cache_filename', ex)
    return Or(p == cfn, CA.created(v, 'old', oc, p, NCF),
              CA.OO.is_some(eng.hread(st, NCF, nc)[p]))


def executor_coherent(c):
    """the builder and its executor share the caches (established by build_versioned)"""
    ex = c.old('FileBuilder._simple_operation_executor', c.self)
    return [('executor-shares-caches', And(
        c.old('SimpleOperationExecutor._old_cache', ex) == c.old('FileBuilder._old_cache', c.self),
        c.old('SimpleOperationExecutor._new_cache', ex) == c.old('FileBuilder._new_cache', c.self),
        c.old('SimpleOperationExecutor._build_dirs', ex)
        == c.old('FileBuilder._build_dirs', c.self)))]


def make_room_backup_guard(eng, st, cargs):
    p = cargs['filename'].t
    kind = eng.gread(st, 'fs_kind')
    return [('moves-only-managed-files', Implies(kind[p] == K_FILE, allowed_move(eng, st, p)),
             ['C03', 'C02'])]


def make_room_rmdir_guard(eng, st, args):
    return [('removes-only-directories-a-build-made', EXC_.BUILD_MADE(args[0]), ['C03'])]


ROOM_MODS = lambda c: EXEC_MODS + ['FileBackups._backups', 'FileBackups._next_backup_index',
                                   'g:eff', 'g:fs_kind', 'g:fs_epoch', 'g:rm_attempts', 'g:vstate']
MAKE_ROOM = call_guard_set(guard_set(Contract(
    M + '_make_room', props=['C03', 'C10', 'C02'],
    params={'self': FB, 'dir_': STR, 'make_room_filename': STR},
    requires=lambda c: executor_coherent(c) + [('a-build-made-this-directory',
                                                EXC_.BUILD_MADE(c.dir_))],
    ensures=lambda c: [('no-callback', c.gnew('ncalls') == c.gold('ncalls'))] + eff_grows(c),
    raises=[ExcSpec('OSError', ensures=lambda c: [
        ('no-callback', c.gnew('ncalls') == c.gold('ncalls'))] + eff_grows(c))],
    modifies=ROOM_MODS,
    local_types={'error': BOOL},
    loops={0: LoopSpec(inv=lambda c: [
        ('no-callback', c.gnew('ncalls') == c.gentry('ncalls')),
        ('effects-appended', log_prefix(c.gentry('eff'), c.gnew('eff')))])},
    lemmas=['PATHS'],
), rmdir=make_room_rmdir_guard),
    **{'file_backups.FileBackups.back_up_and_remove': make_room_backup_guard})
CONTRACTS.append(MAKE_ROOM)

PREPARE = Contract(
    M + '_prepare_file_creation', props=['C03', 'C10', 'C14', 'C12', 'C04'],
    params={'self': FB}, returns=LIST(STR),
    requires=lambda c: wf_builder(c) + executor_coherent(c) + [
        ('is-build-file', And(OPT_OP.is_some(op_of(c)),
                              cls_of(cur_op(c)) == CLS['BuildFileOperation']))],
    ensures=lambda c: [
        ('no-callback', c.gnew('ncalls') == c.gold('ncalls')),
        # C12/C10 ("directories that build created" are registered, so that clean and the
        # virtual view know them): whatever was moved out of the way first, the list handed to
        # BuildDirs is the one _make_dirs produced for the parent directory of the target
        ('returns-what-make-dirs-made-for-the-parent-of-the-target', And(
            c.gnew('md_dir') == dirname(c.old('BuildFileOperation.filename', cur_op(c))),
            c.res == c.gnew('md_res')), ['C12', 'C10', 'C04']),
    ] + eff_grows(c),
    raises=[ExcSpec('OSError', ensures=lambda c: [
        ('no-callback', c.gnew('ncalls') == c.gold('ncalls'))] + eff_grows(c))],
    modifies=ROOM_MODS,
)
CONTRACTS.append(PREPARE)


# ---------------------------------------------------------------------------------------------------
# reuse of a cached output (C01.L7, C05.E2, C13.M5)
def reuse_target_untouched(c):
    """C05.E2: reusing a cached output leaves the file in place: no primitive names the target"""
    fn = c.old('BuildFileOperation.filename', cur_op(c))
    return [('target-kind-unchanged', c.gnew('fs_kind')[fn] == c.gold('fs_kind')[fn], ['C05'])]


TRY_REUSE = Contract(
    M + '_try_to_reuse_cached_file', props=['C01', 'C05', 'C13', 'C17', 'C06', 'C08'],
    params={'self': FB}, returns=BOOL,
    requires=lambda c: wf_builder(c) + build_state_wf(c) + own_args_json(c) + [
        ('is-build-file', And(OPT_OP.is_some(op_of(c)),
                              cls_of(cur_op(c)) == CLS['BuildFileOperation'])),
        ('record-is-new', z3.Length(c.old(SUBOPS, cur_op(c))) == 0)],
    ensures=lambda c: [
        ('function-not-called', c.gnew('ncalls') == c.gold('ncalls'), ['C01', 'C05']),
        ('closed-iff-reused', Implies(c.res, c.new('Operation.is_finished', cur_op(c))),
         ['C17', 'C01']),
        ('reused-only-if-version-unchanged', Implies(
            c.res, versions_equal(c, c.old(FN, cur_op(c)))), ['C06']),
        ('reused-only-if-output-exists', Implies(
            c.res, c.gold('fs_kind')[c.old('BuildFileOperation.filename', cur_op(c))] == K_FILE),
         ['C01', 'C13']),
        ('current-comparison-result-recorded', Implies(
            c.res, Not(J.is_none(c.new('BuildFileOperation.file_comparison_result', cur_op(c))))),
         ['C13']),
        ('not-reused-means-nothing-happened', Implies(Not(c.res), And(
            c.gnew('eff') == c.gold('eff'), c.gnew('fs_kind') == c.gold('fs_kind'))),
         ['C01', 'C14']),     # C14: a failed attempt to reuse must surface, not turn into False
        ('own-failure-flags-untouched', And(
            c.new(RAISED, cur_op(c)) == c.old(RAISED, cur_op(c)),
            c.new(SETUPF, cur_op(c)) == c.old(SETUPF, cur_op(c)),
            Implies(Not(c.res), c.new('Operation.is_finished', cur_op(c))
                    == c.old('Operation.is_finished', cur_op(c))))),
        ('no-claim-in-progress-created-for-the-target', Implies(
            Not(claimed(c, 'old')), Not(claimed(c, 'new'))), ['C14', 'C08']),
    ] + eff_grows(c) + append_only(c, True),
    raises=[ExcSpec('Exception', ensures=lambda c: [
        ('function-not-called', c.gnew('ncalls') == c.gold('ncalls')),
        ('own-failure-flags-untouched', And(
            c.new(RAISED, cur_op(c)) == c.old(RAISED, cur_op(c)),
            c.new(SETUPF, cur_op(c)) == c.old(SETUPF, cur_op(c))), ['C08', 'C10']),
        ('no-claim-in-progress-created-for-the-target', Implies(
            Not(claimed(c, 'old')), Not(claimed(c, 'new'))), ['C14', 'C08'])]
        + eff_grows(c) + append_only(c, True))],
    modifies=builder_mods,
    lemmas=['PATHS', 'ANC', 'lookup_sanitized', 'sanitized_eqdom'],
)
TRY_REUSE.lock_guards = {'Operation.is_finished': '_lock'}
CONTRACTS.append(TRY_REUSE)


# ---------------------------------------------------------------------------------------------------
# _build_file (C08.D1, C10, C14.F1, C02.R3, C03)
def own_filename(c):
    return c.old('BuildFileOperation.filename', cur_op(c))


def already_taken(c):
    """C08: the path was already passed to build_file in this build (claimed or finished)"""
    nc = c.old('FileBuilder._new_cache', c.self)
    return CA.OO.is_some(c.old(NCF, nc)[own_filename(c)])


def is_the_cache_file(c):
    ex = c.old('FileBuilder._simple_operation_executor', c.self)
    return own_filename(c) == c.old('SimpleOperationExecutor._norm_cased_cache_filename', ex)


def build_file_backup_guard(eng, st, cargs):
    p = cargs['filename'].t
    me = env_t(st, 'self')
    op = OPT_OP.val(eng.hread(st, 'FileBuilder._operation', me))
    nc = eng.hread(st, 'FileBuilder._new_cache', me)
    return [('moves-only-its-own-target', p == eng.hread(st, 'BuildFileOperation.filename', op),
             ['C03', 'C02']),
            # C08 ("from another thread ... without disturbing the output of the first call"):
            # the early duplicate check is not under the lock, the claim is (rely clause of
            # Cache.start_building_file) -- so what stands at the target may be moved aside only
            # once this call holds the claim; otherwise a duplicate that loses the race has
            # already moved the winner's output away when it is refused
            ('target-claimed-before-it-is-moved-aside',
             CA.OO.is_some(eng.hread(st, 'Cache._norm_cased_files', nc)[p]), ['C08'])]


REFUSED = lambda c: Or(already_taken(c), is_the_cache_file(c))
BUILD_FILE = call_guard_set(Contract(
    M + '_build_file', props=['C08', 'C10', 'C14', 'C03', 'C02', 'C17'],
    params={'self': FB, 'func': callback()}, returns=PYV,
    requires=lambda c: wf_builder(c) + build_state_wf(c) + executor_coherent(c) + is_bf_builder(c)
    + [('record-is-new', And(z3.Length(c.old(SUBOPS, cur_op(c))) == 0,
                             Not(c.old('ComplexOperation.raised', cur_op(c))),
                             Not(c.old('Operation.is_finished', cur_op(c)))))],
    ensures=lambda c: [
        ('closed', c.new('Operation.is_finished', cur_op(c)), ['C17', 'C10']),
        ('not-raised', Not(c.new('ComplexOperation.raised', cur_op(c))), ['C10']),
    ] + append_only(c, True),
    raises=[
        # a second build_file for the same path (or for the cache file) is rejected before
        # anything happens
        ExcSpec('RuntimeError', when=REFUSED, guarded=True, forces=True,
                ensures=no_effect, modifies=NOTHING, props=['C08']),
        ExcSpec('Exception', when=lambda c: Not(REFUSED(c)), guarded=True,
                ensures=lambda c: append_only(c, True) + [
                    # C10/C14: whatever fails after the target was reserved (moving the old file
                    # aside, claiming it in the cache, the function itself), the reservation is
                    # given back: the directories made for it vanish from the virtual view
                    ('failed-call-releases-its-reservation', Implies(
                        Not(c.gold('bd_resv')[my_filename(c)]),
                        Not(c.gnew('bd_resv')[my_filename(c)])), ['C10', 'C14', 'C04']),
                    # C14 ("the build carries on after a caught error, the cache is rewritten"):
                    # no claim is left in progress -- Cache.write cannot serialise one
                    ('failed-call-leaves-no-claim-in-progress', Implies(
                        Not(claimed(c, 'old')), Not(claimed(c, 'new'))), ['C14', 'C08', 'C10']),
                    # the record is marked raised here exactly when the function was called
                    ('raised-iff-function-called',
                     c.new('ComplexOperation.raised', cur_op(c))
                     == (c.gnew('ncalls') > c.gold('ncalls')), ['C08', 'C10']),
                    ('setup-flag-untouched', c.new(SETUPF, cur_op(c)) == c.old(SETUPF, cur_op(c)),
                     ['C08', 'C10'])]),
        ExcSpec('KeyboardInterrupt', when=lambda c: Not(REFUSED(c)), guarded=True,
                ensures=lambda c: append_only(c, True))],
    modifies=lambda c: builder_mods(c) + ['g:bd_resv'],
), **{'file_backups.FileBackups.back_up_and_remove': build_file_backup_guard})
CONTRACTS.append(BUILD_FILE)


# ---------------------------------------------------------------------------------------------------
# end of the build: _set_created_dirs, Cache.write, _build (C02, C12.CL5, C16.P4, C14.F6)
def cache_write_guard(eng, st, args):
    return [('writes-only-the-file-it-was-given', args[0] == eng.cur_args['filename'].t,
             ['C03', 'C16', 'C02'])]


qo_ = z3.Const('fb!qo', ObjS)
qe_ = z3.Const('fb!qe', CA.OI)


def cache_write_exit(eng, st, ctrl, v):
    """every root among the collected operations was serialised"""
    if ctrl not in ('ret', 'ok') or not isinstance(st.env.get('operations'), Sym) \
            or not isinstance(st.env.get('non_root_operations'), Sym):
        return []
    ops, nonroot = st.env['operations'].t, st.env['non_root_operations'].t
    return [('every-root-is-serialised', ForAll([qe_], Implies(
        And(z3.Contains(ops, z3.Unit(qe_)), CA.OI.is_some(qe_), Not(nonroot[CA.OI.val(qe_)])),
        eng.gread(st, 'ser')[CA.OI.val(qe_)])), ['C16', 'C12', 'C01', 'C06'])]


CACHE_WRITE = guard_set(Contract(
    'file_builder.cache.Cache.write', props=['C16', 'C02', 'C14', 'C03', 'C12'],
    params={'self': OBJ('Cache'), 'filename': STR},
    requires=lambda c: [('assume-no-build-in-progress', And(
        ForAll([xs_], Implies(CA.OO.is_some(c.old('Cache._files', c.self)[xs_]),
                              CA.OI.is_some(CA.OO.val(c.old('Cache._files', c.self)[xs_])))),
        ForAll([z3.Const('fb!hk', CA.HKeyS)], Implies(
            CA.OSB.is_some(c.old('Cache._subbuilds', c.self)[z3.Const('fb!hk', CA.HKeyS)]),
            CA.OSI.is_some(CA.OSB.val(c.old('Cache._subbuilds', c.self)[
                z3.Const('fb!hk', CA.HKeyS)]))))))],
    ensures=lambda c: [
        ('exactly-one-effect', c.gnew('eff') == c.gold('eff') + 1),
        ('file-written', c.gnew('fs_kind') == z3.Store(c.gold('fs_kind'), c.filename, K_FILE)),
        ('write-logged', c.gnew('wopen_attempts')
         == z3.Store(c.gold('wopen_attempts'), c.filename, True)),
        ('no-callback', c.gnew('ncalls') == c.gold('ncalls'))],
    raises=[ExcSpec('Exception', ensures=lambda c: [
        # ghost log of the attempt: if the file system changed, the open of that file was logged
        ('write-logged-if-attempted', Or(
            And(c.gnew('wopen_attempts') == c.gold('wopen_attempts'),
                c.gnew('fs_kind') == c.gold('fs_kind')),
            c.gnew('wopen_attempts') == z3.Store(c.gold('wopen_attempts'), c.filename, True))),
        # the open may have created (or truncated) the file before the failure
        ('at-most-that-file-touched', Or(
            c.gnew('fs_kind') == c.gold('fs_kind'),
            c.gnew('fs_kind') == z3.Store(c.gold('fs_kind'), c.filename, K_FILE))),
        ('at-most-one-effect', And(c.gnew('eff') >= c.gold('eff'),
                                   c.gnew('eff') <= c.gold('eff') + 1)),
        ('no-callback', c.gnew('ncalls') == c.gold('ncalls'))])],
    modifies=lambda c: ['g:eff', 'g:fs_kind', 'g:fs_epoch', 'g:vstate', 'g:wopen_attempts'],
    local_types={'non_root_operations': SET(OBJ('Operation')),
                 'root_operations_json': LIST(PYV)},
    loops={0: LoopSpec(modifies=NOTHING, inv=lambda c: no_effect_loop(c)),
           1: LoopSpec(modifies=lambda c: ['g:ser'], inv=lambda c: no_effect_loop(c) + [
               # C16/C12/C01: every registered record that is not a suboperation of another
               # registered record is handed to the serialiser -- whatever its outcome flags
               ('every-root-visited-so-far-is-serialised', ForAll([qe_], Implies(
                   And(c.loop['seen'][qe_], CA.OI.is_some(qe_),
                       Not(c.v('non_root_operations')[CA.OI.val(qe_)])),
                   c.gnew('ser')[CA.OI.val(qe_)])), ['C16', 'C12', 'C01', 'C06']),
               ('serialised-log-grows', ForAll([qo_], Implies(c.gold('ser')[qo_],
                                                              c.gnew('ser')[qo_])))])},
    notes='effects verified; the serialised content (json + gzip) is the trusted file layer with '
          'the bounded stand-in cache_forest'), write_open=cache_write_guard)
CACHE_WRITE.exit_obligations = cache_write_exit
CONTRACTS.append(CACHE_WRITE)
OP_TO_JSON = Contract(
    'file_builder.cache.Cache._operation_to_json', props=['C16'],
    params={'self': OBJ('Cache'), 'operation': OBJ('Operation')}, returns=PYV,
    ensures=lambda c: no_effect(c) + [
        ('serialised-log-grows', ForAll([qr_], Implies(c.gold('ser')[qr_], c.gnew('ser')[qr_]))),
        ('is-a-dict', J.is_dict(c.res))],
    raises=[ExcSpec('RuntimeError', ensures=no_effect)],
    modifies=lambda c: ['g:ser'],
    notes='dispatch on the record class; logs the record in the scratch ghost `ser` (marker '
          'update).  Verified since round 4 together with the two field-wise serialisers; what '
          'stays with the bounded stand-in cache_forest is the content of the `suboperations` '
          'list (a Python list of JSON values is abstract in the model) and the reader')
OP_TO_JSON.ghost_updates = lambda c: {'ser': z3.Store(c.gnew('ser'), c.operation, True)}
OP_TO_JSON.ghost_updates_on = 'ret'
CONTRACTS.append(OP_TO_JSON)

# ---- field-wise contracts of the hand-written serialisers (C16: "a dropped or renamed field") ------
def jfield(d, name):
    return J.klookup(PyV.PStr(str_lit(name)), PyV.kvs(d))


def jhas(d, name):
    return J.kmem(PyV.PStr(str_lit(name)), PyV.kvs(d))


OSTR = SH['SimpleOperation.exception_type_str'].sort() if hasattr(SH['SimpleOperation.exception_type_str'], 'sort') else None
SIMPLE_TO_JSON = Contract(
    'file_builder.cache.Cache._simple_operation_to_json', props=['C16'],
    params={'self': OBJ('Cache'), 'operation': OBJ('SimpleOperation')}, returns=PYV,
    ensures=lambda c: no_effect(c) + [
        ('is-a-dict', J.is_dict(c.res)),
        ('args-written', And(jhas(c.res, 'args'),
                             jfield(c.res, 'args') == c.old('Operation.args', c.operation))),
        ('return-value-written', And(
            jhas(c.res, 'returnValue'),
            jfield(c.res, 'returnValue') == c.old('Operation.return_value', c.operation))),
        ('type-written', And(jhas(c.res, 'type'), jfield(c.res, 'type') == PyV.PStr(
            c.old('SimpleOperation.name', c.operation)))),
        ('failure-marker-written-iff-recorded', And(
            jhas(c.res, 'exceptionType') == OSTR.is_some(
                c.old('SimpleOperation.exception_type_str', c.operation)),
            Implies(jhas(c.res, 'exceptionType'),
                    jfield(c.res, 'exceptionType') == PyV.PStr(OSTR.val(
                        c.old('SimpleOperation.exception_type_str', c.operation))))))],
    modifies=NOTHING)
SIMPLE_TO_JSON.replay_decided = True     # one half of the format: the pair is judged (C16)
CONTRACTS.append(SIMPLE_TO_JSON)


COMPLEX_TO_JSON = Contract(
    'file_builder.cache.Cache._complex_operation_to_json', props=['C16'],
    params={'self': OBJ('Cache'), 'operation': OBJ('ComplexOperation')}, returns=PYV,
    ensures=lambda c: no_effect(c) + [
        ('is-a-dict', J.is_dict(c.res)),
        ('args-written', And(jhas(c.res, 'args'),
                             jfield(c.res, 'args') == c.old(ARGS, c.operation))),
        ('kwargs-written', And(jhas(c.res, 'kwargs'),
                               jfield(c.res, 'kwargs') == c.old(KWARGS_F, c.operation))),
        ('function-name-written', And(jhas(c.res, 'funcName'), jfield(c.res, 'funcName')
                                      == PyV.PStr(c.old(FN, c.operation)))),
        ('return-value-written', And(
            jhas(c.res, 'returnValue'),
            jfield(c.res, 'returnValue') == c.old('Operation.return_value', c.operation))),
        ('suboperations-written', jhas(c.res, 'suboperations')),
        ('failure-markers-written-iff-set', And(
            jhas(c.res, 'raised') == c.old(RAISED, c.operation),
            Implies(jhas(c.res, 'raised'), jfield(c.res, 'raised') == PyV.PBool(True)),
            jhas(c.res, 'setupFailed') == c.old(SETUPF, c.operation),
            Implies(jhas(c.res, 'setupFailed'),
                    jfield(c.res, 'setupFailed') == PyV.PBool(True)))),
        ('type-written', And(jhas(c.res, 'type'), jfield(c.res, 'type') == PyV.PStr(If(
            cls_of(c.operation) == CLS['BuildFileOperation'], str_lit('build_file'),
            str_lit('subbuild'))))),
        ('output-fields-written', Implies(cls_of(c.operation) == CLS['BuildFileOperation'], And(
            jhas(c.res, 'filename'),
            jfield(c.res, 'filename') == PyV.PStr(c.old('BuildFileOperation.filename',
                                                        c.operation)),
            jhas(c.res, 'fileComparison'),
            jhas(c.res, 'fileComparisonResult'),
            jfield(c.res, 'fileComparisonResult')
            == c.old('BuildFileOperation.file_comparison_result', c.operation)))),
        ('serialised-log-grows', ForAll([qr_], Implies(c.gold('ser')[qr_], c.gnew('ser')[qr_]))),
        ('every-suboperation-serialised', ForAll([qi_], Implies(
            And(0 <= qi_, qi_ < z3.Length(c.old(SUBOPS, c.operation))),
            c.gnew('ser')[c.old(SUBOPS, c.operation)[qi_]])))],
    raises=[ExcSpec('RuntimeError', ensures=no_effect)],
    modifies=lambda c: ['g:ser'],
    local_types={'suboperations_json': LIST(PYV)},
    lemmas=['ksorted_nil', 'kmem_nil', 'kmem_kput', 'klookup_kput', 'kput_sorted'],
    loops={0: LoopSpec(inv=lambda c: no_effect_loop(c) + [
        ('same-list', c.loop['seq'] == c.entry(SUBOPS, c.operation)),
        ('serialised-so-far', ForAll([qi_], Implies(
            And(0 <= qi_, qi_ < c.loop['i']), c.gnew('ser')[c.loop['seq'][qi_]]))),
        ('log-only-grows', ForAll([qr_], Implies(c.gentry('ser')[qr_], c.gnew('ser')[qr_])))])})
COMPLEX_TO_JSON.replay_decided = True
CONTRACTS.append(COMPLEX_TO_JSON)


SET_CREATED = Contract(
    M + '_set_created_dirs', props=['C12', 'C02', 'C10'],
    params={'self': FB, 'cache_file_created_dirs': LIST(STR)}, returns=LIST(STR), ret_fresh=True,
    ensures=lambda c: no_effect(c) + [
        ('returns-only-error-created-dirs', ForAll([xs_], Implies(
            in_list(c.res, xs_),
            c.old('BuildDirs._error_created_dirs', c.old('FileBuilder._build_dirs', c.self))[xs_])),
         ['C10', 'C12', 'C03']),
        ('recorded-dirs-were-made-by-this-build', ForAll([xs_], Implies(
            And(c.new('Cache._created_dirs', c.new('FileBuilder._new_cache', c.self))[xs_],
                Not(c.old('Cache._created_dirs', c.old('FileBuilder._new_cache', c.self))[xs_])),
            Or(z3.Exists([kk_], c.old(CMAP, c.old('FileBuilder._build_dirs', c.self))[kk_]
                         == OCMAP.some(xs_)),
               in_list(c.cache_file_created_dirs, xs_)))), ['C12', 'C03']),
        ('cache-file-dirs-recorded', ForAll([xs_], Implies(
            in_list(c.cache_file_created_dirs, xs_),
            c.new('Cache._created_dirs', c.new('FileBuilder._new_cache', c.self))[xs_])), ['C12']),
    ],
    modifies=lambda c: [('Cache._created_dirs', c.old('FileBuilder._new_cache', c.self))],
    local_types={'created_dirs': LIST(STR), 'norm_cased_created_dirs': SET(STR),
                 'norm_cased_error_created_dirs': SET(STR)},
    loops={0: LoopSpec(inv=lambda c: no_effect_loop(c) + [
        ('error-dirs-only-shrink', ForAll([xs_], Implies(
            c.v('norm_cased_error_created_dirs')[xs_],
            c.new('BuildDirs._error_created_dirs', c.new('FileBuilder._build_dirs', c.self))[xs_]))),
        ('collected-are-created-or-cache-dirs', ForAll([xs_], Implies(
            in_list(c.v('created_dirs'), xs_),
            Or(z3.Exists([kk_], c.new(CMAP, c.new('FileBuilder._build_dirs', c.self))[kk_]
                         == OCMAP.some(xs_)),
               in_list(c.cache_file_created_dirs, xs_))))),
        ('visited-cache-dirs-collected', ForAll([xs_], Implies(
            c.loop['seen'][xs_], in_list(c.v('created_dirs'), xs_)))),
        ('known-set-is-listed', ForAll([xs_], Implies(
            c.v('norm_cased_created_dirs')[xs_], in_list(c.v('created_dirs'), xs_)))),
    ])},
)
CONTRACTS.append(SET_CREATED)


# ---------------------------------------------------------------------------------------------------
# _build (C02.R1, C16.P4, C14.F6, C17.Z2)
def build_write_guard(eng, st, cargs):
    """C16.P4: the cache file is (re)written only after the root function returned, after the
    created directories were recorded, and with the previous cache file moved aside"""
    me = env_t(st, 'self')
    p = cargs['filename'].t
    kind = eng.gread(st, 'fs_kind')
    return [('root-function-has-returned', eng.hread(st, 'FileBuilder._is_finished_build', me),
             ['C16', 'C02']),
            ('writes-only-the-cache-file', p == eng.cur_args['cache_filename'].t, ['C03', 'C16']),
            ('previous-cache-file-moved-aside-first', kind[p] != K_FILE,
             ['C16', 'C02', 'C14', 'C12'])]


def build_rollback_guard(eng, st, cargs):
    """C02 ("... or while the cache file is being written ... no file created by the failed build
    remains"): when the rollback starts after this build opened the cache file for writing, the
    (partial) file is gone, its removal has been attempted, or the previous cache file is the last
    backup and restore_all will put it back over it"""
    me = env_t(st, 'self')
    cf = eng.cur_args['cache_filename'].t
    w0, w1 = eng.gread(eng.entry_state, 'wopen_attempts'), eng.gread(st, 'wopen_attempts')
    kind, rm = eng.gread(st, 'fs_kind'), eng.gread(st, 'rm_attempts')
    b = eng.hread(st, 'FileBackups._backups', eng.hread(st, 'FileBuilder._backups', me))
    TS = SH['FileBackups._backups'].args[0].sort()
    return [('cache-file-written-by-this-build-is-not-left-behind', Implies(
        And(w1[cf], Not(w0[cf]), kind[cf] == K_FILE),
        Or(rm[cf], And(z3.Length(b) > 0, TS.t0(b[z3.Length(b) - 1]) == cf))), ['C02', 'C16'])]


def build_remove_guard(eng, st, args):
    """C03/C02: the only file _build itself removes is the cache file, and only after this build
    opened it for writing (the previous cache file was moved to the backups before that)"""
    p = args[0]
    cf = eng.cur_args['cache_filename'].t
    return [('only-the-cache-file-this-build-was-writing',
             And(p == cf, eng.gread(st, 'wopen_attempts')[cf]), ['C03', 'C02', 'C16'])]


def build_commit_guard(eng, st, cargs):
    """C02: committing (removing the previous build's stale outputs and directories, which cannot
    be undone) is the last step -- only after the cache file of this build has been written.
    Everything before it can still fail and must be rolled back."""
    cf = eng.cur_args['cache_filename'].t
    return [('commit-only-after-the-cache-file-is-written',
             And(eng.gread(st, 'wopen_attempts')[cf], eng.gread(st, 'fs_kind')[cf] == K_FILE,
                 eng.gread(st, 'eff') > eng.gread(eng.entry_state, 'eff')),
             ['C02', 'C16', 'C03'])]


def build_backup_guard(eng, st, cargs):
    return [('moves-only-the-cache-file', cargs['filename'].t == eng.cur_args['cache_filename'].t,
             ['C03', 'C02'])]


def cb_havoc_root(eng, st, f, pos, kws, starv, dstarv):
    cb_havoc_builder(eng, st, f, pos, kws, starv, dstarv)


BACKUPS_OF = lambda c, st='new': getattr(c, st)('FileBackups._backups',
                                                getattr(c, st)('FileBuilder._backups', c.self))
BUILD = call_guard_set(Contract(
    M + '_build', props=['C02', 'C16', 'C14', 'C17', 'C03', 'C12'],
    params={'self': FB, 'cache_filename': STR, 'func': callback(), 'args': PYV, 'kwargs': PYV},
    returns=PYV,
    requires=lambda c: executor_coherent(c) + [
        ('root-builder', Not(OPT_OP.is_some(op_of(c)))),
        ('func-callable', c.args['func'].is_callable)],
    ensures=lambda c: eff_grows(c) + [('finished', c.new('FileBuilder._is_finished_build', c.self),
                                       ['C17'])],
    raises=[
        # C02.R1: any Exception from the directory set-up, the root function, the bookkeeping or
        # the cache write: the builder is closed, _roll_back has run (backups consumed), and the
        # exception that propagates is the one that was raised (same object: `raise` re-raises)
        ExcSpec('Exception', ensures=lambda c: eff_grows(c) + [
            ('finished', c.new('FileBuilder._is_finished_build', c.self), ['C17', 'C02']),
            ('rolled-back', z3.Length(BACKUPS_OF(c)) == 0, ['C02', 'C14']),
        ]),
        # KeyboardInterrupt & co. pass through `except Exception`: no roll-back, flag not set
        ExcSpec('KeyboardInterrupt', ensures=eff_grows)],
    modifies=lambda c: BUILD_MODS + BUILD_GHOSTS + ['g:wopen_attempts'],
), **{'cache.Cache.write': build_write_guard,
      'file_builder.FileBuilder._roll_back': build_rollback_guard,
      'file_builder.FileBuilder._commit': build_commit_guard,
      'file_backups.FileBackups.back_up_and_remove': build_backup_guard})
BUILD.guards = {'remove': build_remove_guard}
BUILD.callback_havoc = cb_havoc_root
CONTRACTS.append(BUILD)


# ---------------------------------------------------------------------------------------------------
# _apply_cached_suboperations (C01.L5, C14.F4)
APPLY_MODS = ['BuildDirs._build_dir_counts', 'BuildDirs._created_dirs_map',
              'BuildDirs._error_created_dirs', 'BuildDirs._removed_dirs', 'BuildDirs._exists_dirs',
              'BuildDirs._maybe_removed_dirs', 'BuildDirs._removed_files', 'FileBackups._backups',
              'FileBackups._next_backup_index', 'SimpleOperationExecutor._hash_cache',
              'g:eff', 'g:fs_kind', 'g:fs_epoch', 'g:rm_attempts', 'g:vstate', 'g:bd_res']
APPLY = Contract(
    M + '_apply_cached_suboperations', props=['C01', 'C14', 'C03', 'C02', 'C12', 'C04', 'C05', 'C06'],
    params={'self': FB, 'operation': OBJ('ComplexOperation')},
    requires=lambda c: record_axioms(c) + nbf_axioms(c) + [
        ('record-wf', RWF(c.operation)), ('is-complex', is_complex(c.operation))],
    ensures=lambda c: [('no-callback', c.gnew('ncalls') == c.gold('ncalls')),
                       ('every-recorded-output-is-reserved-again',
                        c.gnew('bd_res') == c.gold('bd_res') + NBF(c.operation),
                        ['C01', 'C12', 'C04'])]
    + eff_grows(c) + append_only(c),
    raises=[ExcSpec('Exception', ensures=lambda c: [
        ('no-callback', c.gnew('ncalls') == c.gold('ncalls')),
        ('failed-reuse-releases-its-reservations', c.gnew('bd_res') == c.gold('bd_res'),
         ['C14', 'C01']),
    ] + eff_grows(c) + append_only(c))],
    modifies=lambda c: APPLY_MODS,
    local_types={'applied_count': INT},
    loops={0: LoopSpec(inv=lambda c: [
        ('no-callback', c.gnew('ncalls') == c.gentry('ncalls')),
        ('effects-appended', log_prefix(c.gentry('eff'), c.gnew('eff'))),
        ('count-is-the-cursor', c.v('applied_count') == c.loop['i'])
        if c.has('applied_count') else ('shape', z3.BoolVal(True)),
        ('reservations-so-far', c.gnew('bd_res') == c.gentry('bd_res')
         + NBFP(c.operation, c.loop['i'])),
        ('same-list', c.loop['seq'] == c.entry(SUBOPS, c.operation))])},
)
CONTRACTS.append(APPLY)

UNAPPLY = Contract(
    M + '_unapply_cached_suboperations', props=['C14', 'C01', 'C05', 'C04'],
    params={'self': FB, 'operation': OBJ('ComplexOperation'), 'count': INT},
    requires=lambda c: record_axioms(c) + nbf_axioms(c) + [
        ('record-wf', RWF(c.operation)), ('is-complex', is_complex(c.operation)),
        ('count-in-range', And(0 <= c.count,
                               c.count <= z3.Length(c.old(SUBOPS, c.operation))))],
    # never raises (raises=[]): undoing must not fail
    ensures=lambda c: no_effect(c) + [
        ('releases-exactly-what-was-reserved',
         c.gnew('bd_res') == c.gold('bd_res') - NBFP(c.operation, c.count))] + append_only(c),
    modifies=lambda c: [f for f in APPLY_MODS if f.startswith('BuildDirs.')] + ['g:vstate',
                                                                                'g:bd_res'],
    loops={0: LoopSpec(inv=lambda c: no_effect_loop(c) + [
        ('released-so-far', c.gnew('bd_res') == c.gentry('bd_res')
         - NBFP(c.operation, c.loop['i'])),
        ('same-list', c.loop['seq'] == c.entry(SUBOPS, c.operation))])},
)
CONTRACTS.append(UNAPPLY)


# ---------------------------------------------------------------------------------------------------
# case fixing is a no-op on POSIX (FileBuilder._IS_WINDOWS is False in the model)
for _nm, _ps in (('_ensure_dir_case', {'self': FB, 'dir_': STR}),
                 ('_ensure_dirs_case', {'self': FB, 'dirs': LIST(STR)})):
    CONTRACTS.append(Contract(
        M + _nm, props=['C10', 'C14', 'C01'], params=_ps,
        ensures=lambda c: no_effect(c) + [
            ('fs-bookkeeping-unchanged', And(c.gnew('rm_attempts') == c.gold('rm_attempts'),
                                             c.gnew('fs_epoch') == c.gold('fs_epoch')))],
        modifies=NOTHING,
        loops={0: LoopSpec(inv=lambda c: no_effect_loop(c))}))


# ---------------------------------------------------------------------------------------------------
# remaining destructive call sites (C03: one guard per site)
def rebuild_remove_guard(eng, st, args):
    me = env_t(st, 'self')
    op = OPT_OP.val(eng.hread(st, 'FileBuilder._operation', me))
    return [('removes-only-its-own-failed-target',
             args[0] == eng.hread(st, 'BuildFileOperation.filename', op), ['C03', 'C10'])]


REBUILD.guards = {'remove': rebuild_remove_guard}


def make_dirs_rmdir_guard(eng, st, args):
    made = local_sym(eng, st, 'made_dirs')
    return [('removes-only-directories-this-call-created',
             in_list(made.t, args[0]) if isinstance(made, Sym) else z3.BoolVal(False),
             ['C03', 'C10'])]


MAKE_DIRS.guards = {'rmdir': make_dirs_rmdir_guard}


def bv_rmtree_guard(eng, st, args):
    return [('removes-only-its-own-temporary-directory', IS_TEMP(args[0]), ['C03', 'C15'])]


for _c in CONTRACTS:
    if _c.target == M + 'build_versioned':
        _c.guards['rmtree'] = bv_rmtree_guard


# ---------------------------------------------------------------------------------------------------
# the two public wrappers: they forward what they were given, with the documented defaults
def build_forward_guard(eng, st, cargs):
    """build(c, n, f, *a, **k) is build_versioned(c, n, {}, f, *a, **k)"""
    a = eng.cur_args
    conds = [eng.intr.to_pyv(cargs['cache_filename']) == eng.intr.to_pyv(a['cache_filename']),
             eng.intr.to_pyv(cargs['build_name']) == eng.intr.to_pyv(a['build_name']),
             eng.intr.to_pyv(cargs['versions']) == PyV.PDict(KVs.knil),
             z3.BoolVal(cargs['func'] is a['func']),
             eng.intr.to_pyv(cargs['args']) == eng.intr.to_pyv(a['args']),
             eng.intr.to_pyv(cargs['kwargs']) == eng.intr.to_pyv(a['kwargs'])]
    return [('forwards-its-arguments-with-empty-versions', And(conds),
             ['C06', 'C01', 'C15', 'C02', 'C16'])]


_bw = Contract(
    M + 'build', props=['C06', 'C01', 'C15', 'C02', 'C16'],
    params={'cache_filename': PYV, 'build_name': PYV, 'func': callback(), 'args': VARARGS,
            'kwargs': KWARGS},
    returns=PYV,
    requires=lambda c: [('wf1', J.wf(c.cache_filename)), ('wf2', J.wf(c.build_name))],
    raises=[ExcSpec('BaseException', exact=False)],
    modifies=lambda c: list(SH.keys()) + BUILD_GHOSTS + ['g:mkdtemp_at', 'g:wopen_attempts'],
    notes='public wrapper of build_versioned')
_bw.call_guards = {'file_builder.FileBuilder.build_versioned': build_forward_guard}
CONTRACTS.append(_bw)


def build_file_forward_guard(eng, st, cargs):
    """build_file(f, n, fn, *a, **k) is build_file_with_comparison(f, METADATA, n, fn, *a, **k)"""
    a = eng.cur_args
    fc = cargs['file_comparison']
    conds = [eng.intr.to_pyv(cargs['filename']) == eng.intr.to_pyv(a['filename']),
             eng.hread(st, 'FileComparison.name', fc.t) == str_lit('METADATA'),
             eng.intr.to_pyv(cargs['func_name']) == eng.intr.to_pyv(a['func_name']),
             z3.BoolVal(cargs['func'] is a['func']),
             eng.intr.to_pyv(cargs['args']) == eng.intr.to_pyv(a['args']),
             eng.intr.to_pyv(cargs['kwargs']) == eng.intr.to_pyv(a['kwargs']),
             cargs['self'].t == a['self'].t]
    return [('forwards-its-arguments-with-METADATA', And(conds), ['C13', 'C10', 'C01', 'C08'])]


_bf = Contract(
    M + 'build_file', props=['C13', 'C10', 'C01', 'C08'],
    params={'self': FB, 'filename': PYV, 'func_name': PYV, 'func': callback(), 'args': VARARGS,
            'kwargs': KWARGS},
    returns=PYV,
    requires=lambda c: PUBLIC_RUN_REQ(c) + [('wf-name', J.wf(c.func_name)),
                                            ('wf-filename', J.wf(c.filename))],
    raises=[ExcSpec('BaseException', exact=False)],
    modifies=builder_mods,
    notes='public wrapper of build_file_with_comparison')
_bf.call_guards = {'file_builder.FileBuilder.build_file_with_comparison': build_file_forward_guard}
CONTRACTS.append(_bf)

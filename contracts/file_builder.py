"""Contracts for file_builder/file_builder.py (class FileBuilder)."""
import z3
from pyvc.engine import Contract, ExcSpec, LoopSpec
from pyvc.sorts import (STR, BOOL, INT, PYV, OBJ, SET, MAP, LIST, OPT, StrS, ObjS, PyV, PyVs, KVs,
                        cls_isinstance, cls_of, CLS, abspath, dirname, K_FILE, K_DIR, K_ABSENT, EXC,
                        exc_issub)
from pyvc.values import CallbackV, Sym
from spec import json_spec as J
from contracts.shapes import FIELDS as SH, Effect

M = 'file_builder.file_builder.FileBuilder.'
And, Or, Not, Implies, If, ForAll = z3.And, z3.Or, z3.Not, z3.Implies, z3.If, z3.ForAll

OPT_OP = SH['FileBuilder._operation'].sort()
FB = OBJ('FileBuilder')
ANY = OBJ('FileComparison?')      # any object; may or may not be a FileComparison


def op_of(c, st='old'):
    return getattr(c, st)('FileBuilder._operation', c.self)


def finished(c, st='old'):
    """the builder's function has returned or raised"""
    rd = getattr(c, st)
    op = rd('FileBuilder._operation', c.self)
    return If(OPT_OP.is_some(op), rd('Operation.is_finished', OPT_OP.val(op)),
              rd('FileBuilder._is_finished_build', c.self))


def wf_builder(c):
    """type invariant of a FileBuilder: its operation, if any, is a build-file or subbuild record"""
    op = op_of(c)
    return [('operation-kind', Implies(OPT_OP.is_some(op),
                                       Or(cls_of(OPT_OP.val(op)) == CLS['BuildFileOperation'],
                                          cls_of(OPT_OP.val(op)) == CLS['SubbuildOperation'])))]


def no_effect(c):
    return [('no-fs-effect', c.gnew('eff') == c.gold('eff')),
            ('no-callback', c.gnew('ncalls') == c.gold('ncalls')),
            ('fs-unchanged', c.gnew('fs_kind') == c.gold('fs_kind'))]


def callback(name='func'):
    cb = CallbackV(name)
    cb.is_callable = z3.Bool('callable!' + name)
    return cb


NOTHING = lambda c: []
CONTRACTS = []
VARIANTS = []

# ---------------------------------------------------------------------------------------------------
CONTRACTS.append(Contract(
    M + '_assert_not_finished', props=['C17'],
    params={'self': FB},
    requires=wf_builder,
    raises=[ExcSpec('RuntimeError', when=lambda c: finished(c), modifies=NOTHING)],
    modifies=NOTHING,
))

SUBOPS = 'ComplexOperation.suboperations'
CONTRACTS.append(Contract(
    M + '_append_suboperation', props=['C17'],
    params={'self': FB, 'suboperation': OBJ('Operation')},
    requires=wf_builder,
    ensures=lambda c: [
        ('appended-to-owner', Implies(
            OPT_OP.is_some(op_of(c)),
            c.new(SUBOPS, OPT_OP.val(op_of(c)))
            == z3.Concat(c.old(SUBOPS, OPT_OP.val(op_of(c))), z3.Unit(c.suboperation)))),
    ],
    raises=[ExcSpec('RuntimeError', when=lambda c: finished(c), modifies=NOTHING)],
    modifies=lambda c: [(SUBOPS, OPT_OP.val(op_of(c)))],
))
CONTRACTS[-1].lock_guards = {SUBOPS: '_lock'}

CONTRACTS.append(Contract(
    M + '_sanitize_filename', props=['C07', 'C15', 'C17'],
    params={'filename': PYV}, returns=STR,
    requires=lambda c: [('wf', J.wf(c.filename))],
    ensures=lambda c: [
        ('is-abspath-of-str', Implies(J.is_str(J.base_of(c.filename)),
                                      c.res == abspath(PyV.ps(J.base_of(c.filename)))))],
    raises=[ExcSpec('TypeError', when=lambda c: Not(J.is_str(J.base_of(c.filename))), exact=False,
                    modifies=NOTHING)],
    modifies=NOTHING,
))

# ---------------------------------------------------------------------------------------------------
# C17.Z1: every public method of a finished builder raises RuntimeError (or TypeError for an
# ill-typed argument, which is checked first) and changes nothing.
FENCE_EXC = [
    ExcSpec('RuntimeError', ensures=no_effect, modifies=NOTHING),
    ExcSpec('TypeError', ensures=no_effect, modifies=NOTHING),
]


def fence(name, params, vararg=None, kwarg=None):
    ps = {'self': FB}
    ps.update(params)
    con = Contract(M + name, props=['C17'], params=ps, variant='finished',
                   requires=lambda c: wf_builder(c) + [('finished', finished(c))] + [
                       ('wf-' + k, J.wf(c.a(k))) for k, t in params.items()
                       if t is PYV],
                   may_return=False, raises=FENCE_EXC, modifies=NOTHING)
    VARIANTS.append(con)


VARARGS = Sym(PyV.PTuple(z3.Const('p!args', PyVs)), PYV)
KWARGS = Sym(PyV.PDict(z3.Const('p!kwargs', KVs)), PYV)
for nm, ps in [
    ('build_file', {'filename': PYV, 'func_name': PYV, 'func': callback(), 'args': VARARGS,
                    'kwargs': KWARGS}),
    ('build_file_with_comparison', {'filename': PYV, 'file_comparison': ANY, 'func_name': PYV,
                                    'func': callback(), 'args': VARARGS, 'kwargs': KWARGS}),
    ('subbuild', {'func_name': PYV, 'func': callback(), 'args': VARARGS, 'kwargs': KWARGS}),
    ('read_text', {'filename': PYV, 'file_comparison': ANY}),
    ('read_binary', {'filename': PYV, 'file_comparison': ANY}),
    ('declare_read', {'filename': PYV, 'file_comparison': ANY}),
    ('list_dir', {'dir_': PYV}),
    ('walk', {'dir_': PYV, 'top_down': PYV}),
    ('is_file', {'filename': PYV}),
    ('is_dir', {'filename': PYV}),
    ('exists', {'filename': PYV}),
    ('get_size', {'filename': PYV}),
]:
    fence(nm, ps)


# ===================================================================================================
# guards: ghost preconditions of destructive primitives, stated from C03/C15 ("never touch a regular
# file other than the cache file, the targets of this build and the outputs recorded by the previous
# committed build; never remove a directory unless a build created it")
from contracts import cache as CA      # noqa: E402


def root_env(st):
    """locals of the function under verification (guards may fire inside inlined helpers)"""
    e = st.env
    while '$outer' in e:
        e = e['$outer']
    return e


def env_t(st, name):
    v = root_env(st)[name]
    return v.t if isinstance(v, Sym) else v


def guard_set(con, **guards):
    con.guards = guards
    return con


# ---------------------------------------------------------------------------------------------------
# clean (C12, C15, C03)
class _StView:
    """contract-style reader over one interpreter state (for guards)"""
    def __init__(self, eng, st):
        self.eng, self.st = eng, st

    def old(self, field, obj):
        return self.eng.hread(self.st, field, obj)
    new = old


def clean_remove_guard(eng, st, args):
    p = args[0]
    v = _StView(eng, st)
    cache = env_t(st, 'cache')
    name_ok = clean_name_ok(eng, st)
    return [
        ('only-recorded-outputs-or-cache-file',
         Or(p == env_t(st, 'cache_filename'), CA.created(v, 'old', cache, p)), ['C03', 'C12']),
        ('validated-before-first-effect', name_ok, ['C15', 'C12']),
    ]


def clean_name_ok(eng, st):
    bn = root_env(st)['build_name']
    cache = env_t(st, 'cache')
    stored = eng.hread(st, 'Cache._build_name', cache)
    return Or(J.is_none(bn.t), And(J.is_str(J.base_of(bn.t)),
                                   PyV.ps(J.base_of(bn.t)) == stored))


def clean_rmdir_guard(eng, st, args):
    p = args[0]
    cache = env_t(st, 'cache')
    return [('only-recorded-created-dirs', eng.hread(st, 'Cache._created_dirs', cache)[p],
             ['C03', 'C12']),
            ('validated-before-first-effect', clean_name_ok(eng, st), ['C15', 'C12'])]


xs_ = z3.Const('fb!x', StrS)
CONTRACTS.append(guard_set(Contract(
    M + 'clean', props=['C12', 'C15', 'C03'],
    params={'cache_filename': PYV, 'build_name': PYV},
    requires=lambda c: [('wf1', J.wf(c.cache_filename)), ('wf2', J.wf(c.build_name))],
    ensures=lambda c: [
        ('no-callback', c.gnew('ncalls') == c.gold('ncalls')),
    ],
    # any exception = refusal: nothing was touched
    raises=[ExcSpec('Exception', ensures=no_effect, modifies=NOTHING)],
    modifies=lambda c: ['g:eff', 'g:fs_kind', 'g:fs_epoch'],
    loops={
        0: LoopSpec(inv=lambda c: [('no-callback', c.gnew('ncalls') == c.gentry('ncalls'))]),
        1: LoopSpec(inv=lambda c: [('no-callback', c.gnew('ncalls') == c.gentry('ncalls'))]),
    },
    lemmas=['lookup_sanitized', 'sanitized_eqdom'],
), remove=clean_remove_guard, rmdir=clean_rmdir_guard))
CONTRACTS[-1].inlined_loops = {
    'file_builder.FileBuilder._remove_empty_dirs': {
        0: LoopSpec(inv=lambda c: [('no-callback', c.gnew('ncalls') == c.gentry('ncalls'))])},
}


# ---------------------------------------------------------------------------------------------------
# _build: for now only the frame facts its callers need (the body is verified under C02 below)
def eff_grows(c):
    return [('effects-only-appended', z3.PrefixOf(c.gold('eff'), c.gnew('eff')))]


# heap fields a running build may change (everything else is fixed at construction)
BUILD_MODS = [
    'Operation.return_value', 'Operation.is_finished', 'ComplexOperation.suboperations',
    'ComplexOperation.raised', 'ComplexOperation.setup_failed',
    'BuildFileOperation.file_comparison_result', 'SimpleOperation.exception_type_str',
    'Cache._files', 'Cache._norm_cased_files', 'Cache._subbuilds', 'Cache._created_dirs',
    'BuildDirs._build_dir_counts', 'BuildDirs._created_dirs_map', 'BuildDirs._error_created_dirs',
    'BuildDirs._removed_dirs', 'BuildDirs._exists_dirs', 'BuildDirs._maybe_removed_dirs',
    'BuildDirs._removed_files', 'FileBackups._backups', 'FileBackups._next_backup_index',
    'SimpleOperationExecutor._hash_cache', 'FileBuilder._is_finished_build',
]
BUILD_GHOSTS = ['g:eff', 'g:fs_kind', 'g:fs_epoch', 'g:ncalls']

BUILD_WEAK = Contract(
    M + '_build', props=['C02'], trusted=True,
    params={'self': FB, 'cache_filename': STR, 'func': callback(), 'args': PYV, 'kwargs': PYV},
    returns=PYV,
    ensures=lambda c: eff_grows(c) + [('finished', c.new('FileBuilder._is_finished_build', c.self))],
    raises=[ExcSpec('Exception', ensures=lambda c: eff_grows(c) + [
        ('finished', c.new('FileBuilder._is_finished_build', c.self))])],
    modifies=lambda c: BUILD_MODS + BUILD_GHOSTS,
)
CONTRACTS.append(BUILD_WEAK)


def bv_mkdtemp_guard(eng, st, args):
    """C15: the temporary directory (first effect of a build) is made only after every check"""
    env = root_env(st)
    bn = env['build_name']
    kind0 = eng.gread(eng.entry_state, 'fs_kind')
    cf = env_t(st, 'cache_filename')
    oc = env.get('old_cache')
    name_ok = z3.BoolVal(True)
    if oc is not None:
        name_ok = Implies(kind0[cf] == K_FILE,
                          eng.hread(st, 'Cache._build_name', oc.t) == PyV.ps(J.base_of(bn.t)))
    func = eng.cur_args['func']
    vers = eng.cur_args['versions']
    return [
        ('name-is-str', J.is_str(J.base_of(bn.t)), ['C15']),
        ('func-callable', func.is_callable, ['C15']),
        ('versions-is-json-dict', And(J.is_dict(J.base_of(vers.t)), J.jsonable(vers.t)), ['C15']),
        ('cache-path-not-a-directory', kind0[cf] != K_DIR, ['C15']),
        ('stored-build-name-matches', name_ok, ['C15']),
        ('nothing-happened-before', And(eng.gread(st, 'eff') == eng.gread(eng.entry_state, 'eff'),
                                        eng.gread(st, 'ncalls')
                                        == eng.gread(eng.entry_state, 'ncalls'),
                                        eng.gread(st, 'fs_kind') == kind0), ['C15']),
    ]


def first_effect_is_mkdtemp(c):
    e0, e1 = c.gold('eff'), c.gnew('eff')
    n = z3.Length(e0)
    return Or(And(e1 == e0, c.gnew('ncalls') == c.gold('ncalls'),
                  c.gnew('fs_kind') == c.gold('fs_kind')),
              And(z3.PrefixOf(e0, e1), z3.Length(e1) > n, Effect.is_Mkdtemp(e1[n])))


CONTRACTS.append(guard_set(Contract(
    M + 'build_versioned', props=['C15', 'C17'],
    params={'cache_filename': PYV, 'build_name': PYV, 'versions': PYV, 'func': callback(),
            'args': VARARGS, 'kwargs': KWARGS},
    returns=PYV,
    requires=lambda c: [('wf1', J.wf(c.cache_filename)), ('wf2', J.wf(c.build_name)),
                        ('wf3', J.wf(c.versions))],
    ensures=lambda c: [('first-effect-is-the-backup-directory', first_effect_is_mkdtemp(c))],
    raises=[ExcSpec('Exception', ensures=lambda c: [
        ('refused-or-first-effect-is-the-backup-directory', first_effect_is_mkdtemp(c))])],
    modifies=lambda c: list(SH.keys()) + ['g:eff', 'g:fs_kind', 'g:fs_epoch', 'g:ncalls'],
    lemmas=['lookup_sanitized', 'sanitized_eqdom', 'rt_sanitized'],
), mkdtemp=bv_mkdtemp_guard))

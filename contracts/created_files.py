"""Contracts for file_builder/created_files.py: class CreatedFiles (C01, C04, C05).

Representation invariant over the four fields (files F, dirs D, subfiles S, started count N):
  I1  d in dom N  =>  d in D  and  N[d] >= 1
  I2  d in dom S  =>  d in D  and  S[d] is not empty
  I3  d in D, d not a root  =>  dirname(d) in D  and  basename(d) in dom S[dirname(d)]
  I4  d in D  =>  d in dom N  or  d in dom S          (every created directory has a created child)
I1-I4 together say: D is exactly the set of directories that have a started-and-not-failed file
below them (I3: closed upwards, I4+I2+I1: every member has a live child, inductively down to a
started file), which is what `has_norm_cased_dir` must answer for the overlay of C01/C04/C05.
"""
import z3
from pyvc.engine import Contract, ExcSpec, LoopSpec
from pyvc.sorts import (STR, BOOL, INT, OBJ, SET, MAP, LIST, StrS, dirname, basename, anc, OptSort,
                        IntS)

M = 'file_builder.created_files.CreatedFiles.'
And, Or, Not, Implies, If, ForAll = z3.And, z3.Or, z3.Not, z3.Implies, z3.If, z3.ForAll

INNER = MAP(STR, STR)
FIELDS = {
    'CreatedFiles._norm_cased_files': SET(STR),
    'CreatedFiles._norm_cased_dirs': SET(STR),
    'CreatedFiles._norm_cased_dir_to_subfiles': MAP(STR, INNER),
    'CreatedFiles._norm_cased_dir_to_started_count': MAP(STR, INT),
}
F_, D_, S_, N_ = ('CreatedFiles._norm_cased_files', 'CreatedFiles._norm_cased_dirs',
                  'CreatedFiles._norm_cased_dir_to_subfiles',
                  'CreatedFiles._norm_cased_dir_to_started_count')

OS = FIELDS[S_].osort()        # Option(inner map)
ON = FIELDS[N_].osort()        # Option(Int)
OI = INNER.osort()             # Option(Str)
EMPTY_INNER = z3.K(StrS, OI.none)

d = z3.Const('cf!d', StrS)


def isroot(p):
    return dirname(p) == p


def cnt(N, p):
    return If(ON.is_some(N[p]), ON.val(N[p]), 0)


def inv(get, except_i4_for=None):
    """get(field) -> z3 term of that field of `self`"""
    F, D, S, N = get(F_), get(D_), get(S_), get(N_)
    i4 = Or(ON.is_some(N[d]), OS.is_some(S[d]))
    if except_i4_for is not None:
        i4 = Or(i4, d == except_i4_for)
    return [
        ('I1', ForAll([d], Implies(ON.is_some(N[d]), And(D[d], ON.val(N[d]) >= 1)))),
        ('I2', ForAll([d], Implies(OS.is_some(S[d]), And(D[d], OS.val(S[d]) != EMPTY_INNER)))),
        ('I3', ForAll([d], Implies(And(D[d], Not(isroot(d))),
                                   And(D[dirname(d)], OS.is_some(S[dirname(d)]),
                                       OI.is_some(OS.val(S[dirname(d)])[basename(d)]))))),
        ('I4', ForAll([d], Implies(D[d], i4))),
    ]


def old_get(c):
    return lambda f: c.old(f, c.self)


def new_get(c):
    return lambda f: c.new(f, c.self)


def frame_count_except(c, p, delta):
    """N' agrees with N except at p where the count changes by delta (absent = 0)"""
    N0, N1 = c.old(N_, c.self), c.new(N_, c.self)
    return And(cnt(N1, p) == cnt(N0, p) + delta,
               ForAll([d], Implies(d != p, N1[d] == N0[d])))


ALL = [F_, D_, S_, N_]
CONTRACTS = []
P = ['C01', 'C04', 'C05']

CONTRACTS.append(Contract(
    M + 'started_building_file', props=P,
    params={'self': OBJ('CreatedFiles'), 'filename': STR},
    requires=lambda c: inv(old_get(c)),
    ensures=lambda c: inv(new_get(c)) + [
        ('files-unchanged', c.new(F_, c.self) == c.old(F_, c.self)),
        ('count', frame_count_except(c, dirname(c.filename), 1)),
        ('parent-created', c.new(D_, c.self)[dirname(c.filename)]),
        ('dirs-grow', ForAll([d], Implies(c.old(D_, c.self)[d], c.new(D_, c.self)[d]))),
        ('only-ancestors-added', ForAll([d], Implies(And(c.new(D_, c.self)[d],
                                                         Not(c.old(D_, c.self)[d])),
                                                     anc(d, dirname(c.filename))))),
    ],
    modifies=lambda c: [(D_, c.self), (S_, c.self), (N_, c.self)],
    loops={0: LoopSpec(inv=lambda c: started_loop_inv(c), decreases=None)},
    lemmas=['PATHS', 'ANC'],
))


def started_loop_inv(c):
    """`parent` is the directory about to be added: it already has a created child (the started
    file on the first iteration, the directory added last afterwards) but is not in D yet, so I1,
    I2 and I3 hold with `parent` excused; I4 holds as is"""
    self_ = c.self
    get = lambda f: c.new(f, self_)
    F, D, S, N = get(F_), get(D_), get(S_), get(N_)
    par = c.v('parent')
    fpar = dirname(c.filename)
    N0, D0 = c.entry(N_, self_), c.entry(D_, self_)
    return [
        ('I1-but-current', ForAll([d], Implies(ON.is_some(N[d]),
                                               And(Or(D[d], d == par), ON.val(N[d]) >= 1)))),
        ('I2-but-current', ForAll([d], Implies(OS.is_some(S[d]),
                                               And(Or(D[d], d == par),
                                                   OS.val(S[d]) != EMPTY_INNER)))),
        ('I3-but-current', ForAll([d], Implies(
            And(D[d], Not(isroot(d))),
            And(Or(D[dirname(d)], dirname(d) == par), OS.is_some(S[dirname(d)]),
                OI.is_some(OS.val(S[dirname(d)])[basename(d)]))))),
        ('I4', ForAll([d], Implies(D[d], Or(ON.is_some(N[d]), OS.is_some(S[d]))))),
        ('alias', c.v('norm_cased_parent') == par),
        ('pending-has-child', Or(D[par], OS.is_some(S[par]), ON.is_some(N[par]))),
        ('files-unchanged', F == c.entry(F_, self_)),
        ('count', And(cnt(N, fpar) == cnt(N0, fpar) + 1,
                      ForAll([d], Implies(d != fpar, N[d] == N0[d])))),
        ('dirs-grow', ForAll([d], Implies(D0[d], D[d]))),
        ('only-ancestors-added', ForAll([d], Implies(And(D[d], Not(D0[d])), anc(d, fpar)))),
        ('cursor-is-ancestor', anc(par, fpar)),
        ('parent-pending-or-created', Or(D[fpar], par == fpar)),
    ]


CONTRACTS.append(Contract(
    M + 'finished_building_file', props=P,
    params={'self': OBJ('CreatedFiles'), 'filename': STR},
    requires=lambda c: inv(old_get(c)) + [
        ('started', ON.is_some(c.old(N_, c.self)[dirname(c.filename)])),
        ('not-root', Not(isroot(c.filename)))],
    ensures=lambda c: inv(new_get(c)) + [
        ('file-added', c.new(F_, c.self) == z3.Store(c.old(F_, c.self), c.filename, True)),
        ('dirs-unchanged', c.new(D_, c.self) == c.old(D_, c.self)),
        ('count-unchanged', c.new(N_, c.self) == c.old(N_, c.self)),
    ],
    modifies=lambda c: [(F_, c.self), (S_, c.self)],
    lemmas=['PATHS'],
))

CONTRACTS.append(Contract(
    M + 'error_building_file', props=P,
    params={'self': OBJ('CreatedFiles'), 'filename': STR},
    requires=lambda c: inv(old_get(c)) + [
        ('started', ON.is_some(c.old(N_, c.self)[dirname(c.filename)]))],
    ensures=lambda c: inv(new_get(c)) + [
        ('files-unchanged', c.new(F_, c.self) == c.old(F_, c.self)),
        ('count', frame_count_except(c, dirname(c.filename), -1)),
        ('dirs-shrink', ForAll([d], Implies(c.new(D_, c.self)[d], c.old(D_, c.self)[d]))),
    ],
    modifies=lambda c: [(D_, c.self), (S_, c.self), (N_, c.self)],
    loops={0: LoopSpec(inv=lambda c: error_loop_inv(c))},
    lemmas=['PATHS'],
))


def error_loop_inv(c):
    self_ = c.self
    get = lambda f: c.new(f, self_)
    F, D, S, N = get(F_), get(D_), get(S_), get(N_)
    par = c.v('parent')
    out = inv(get, except_i4_for=par)
    out = [(('I4-but-current' if l == 'I4' else l), f) for (l, f) in out]
    out.append(('current-is-dir', D[par]))
    out.append(('files-unchanged', F == c.entry(F_, self_)))
    out.append(('count', And(cnt(N, dirname(c.filename)) == cnt(c.entry(N_, self_),
                                                              dirname(c.filename)) - 1,
                             ForAll([d], Implies(d != dirname(c.filename),
                                                 N[d] == c.entry(N_, self_)[d])))))
    out.append(('dirs-shrink', ForAll([d], Implies(D[d], c.entry(D_, self_)[d]))))
    return out


CONTRACTS.append(Contract(
    M + 'has_norm_cased_file', props=P,
    params={'self': OBJ('CreatedFiles'), 'norm_cased_filename': STR}, returns=BOOL,
    ensures=lambda c: [('is-membership', c.res == c.old(F_, c.self)[c.norm_cased_filename])],
))
CONTRACTS.append(Contract(
    M + 'has_norm_cased_dir', props=P,
    params={'self': OBJ('CreatedFiles'), 'norm_cased_dir': STR}, returns=BOOL,
    ensures=lambda c: [('is-membership', c.res == c.old(D_, c.self)[c.norm_cased_dir])],
))

x = z3.Const('cf!x', StrS)
k = z3.Const('cf!k', StrS)
CONTRACTS.append(Contract(
    M + 'list_dir', props=P,
    params={'self': OBJ('CreatedFiles'), 'dir_': STR}, returns=LIST(STR), ret_fresh=True,
    ensures=lambda c: [
        ('empty-if-unknown', Implies(OS.is_none(c.old(S_, c.self)[c.dir_]),
                                     z3.Length(c.res) == 0)),
        ('every-entry-listed', ForAll([k], Implies(
            And(OS.is_some(c.old(S_, c.self)[c.dir_]),
                OI.is_some(OS.val(c.old(S_, c.self)[c.dir_])[k])),
            z3.Contains(c.res, z3.Unit(OI.val(OS.val(c.old(S_, c.self)[c.dir_])[k])))))),
    ],
))

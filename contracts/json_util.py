"""Contracts for file_builder/json_util.py (properties C18, C07; used by C06, C16, C01, C05)."""
import z3
from pyvc.engine import Contract, ExcSpec, LoopSpec
from pyvc.lemmas import Lemma, Part
from pyvc.sorts import PYV, STR, BOOL, PyV, PyVs, KVs, StrS, IntS, str_lt
from spec import json_spec as J

M = 'file_builder.json_util.JsonUtil.'
And, Or, Not, Implies, If = z3.And, z3.Or, z3.Not, z3.Implies, z3.If

a, b, c = z3.Consts('la lb lc', PyV)
xs, ys, zs = z3.Consts('lxs lys lzs', PyVs)
ks, ls, ms = z3.Consts('lks lls lms', KVs)
k = z3.Const('lk', PyV)
s, s2 = z3.Consts('ls1 ls2', StrS)

LEMMAS = []


def lemma(name, parts, **kw):
    l = Lemma(name, parts, **kw)
    LEMMAS.append(l)
    return l


P18 = ['C18', 'C07']

# ---------------------------------------------------------------------------------------------
# arithmetic / list basics
lemma('plen_nonneg', [Part(xs, [], J.plen(xs) >= 0)], props=P18)
lemma('klen_nonneg', [Part(ks, [], J.klen(ks) >= 0)], props=P18)
lemma('app_nil', [Part(xs, [], J.app(xs, PyVs.nil) == xs)], props=P18)
lemma('app_assoc', [Part(xs, [ys, zs], J.app(J.app(xs, ys), zs) == J.app(xs, J.app(ys, zs)),
                         patterns=[J.app(J.app(xs, ys), zs)])],
      props=P18)
lemma('app_snoc', [Part(xs, [a, ys], J.app(J.app(xs, PyVs.cons(a, PyVs.nil)), ys)
                        == J.app(xs, PyVs.cons(a, ys)),
                        patterns=[J.app(J.app(xs, PyVs.cons(a, PyVs.nil)), ys)])], props=P18)

# ---------------------------------------------------------------------------------------------
# sorted association lists
lemma('all_gt_trans', [Part(ks, [s, s2], Implies(And(str_lt(s2, s), J.all_gt(s, ks)),
                                                   J.all_gt(s2, ks)))],
      props=P18, uses=['STR_ORDER'])
lemma('all_gt_notmem', [Part(ks, [s], Implies(J.all_gt(s, ks), Not(J.kmem(PyV.PStr(s), ks))))],
      props=P18, uses=['STR_ORDER'])
lemma('all_gt_mem', [Part(ks, [s, k], Implies(And(J.all_gt(s, ks), J.kmem(k, ks)),
                                              And(J.is_str(k), str_lt(s, PyV.ps(k)))))],
      props=P18, uses=['STR_ORDER'])
lemma('kput_all_gt', [Part(ks, [s, s2, a], Implies(And(J.all_gt(s2, ks), str_lt(s2, s)),
                                                   J.all_gt(s2, J.kput(s, a, ks))))],
      props=P18, uses=['STR_ORDER'])
lemma('kput_sorted', [Part(ks, [s, a], Implies(J.ksorted(ks), J.ksorted(J.kput(s, a, ks))))],
      props=P18, uses=['STR_ORDER', 'all_gt_trans', 'kput_all_gt'])
lemma('ksorted_nil', [Part(ks, [], Implies(KVs.is_knil(ks), J.ksorted(ks)))], props=P18 + ['C16'])
lemma('kmem_nil', [Part(ks, [k], Implies(KVs.is_knil(ks), Not(J.kmem(k, ks))))], props=P18 + ['C16'])
lemma('kmem_kput', [Part(ks, [s, a, k], Implies(J.ksorted(ks), J.kmem(k, J.kput(s, a, ks))
                                                == Or(k == PyV.PStr(s), J.kmem(k, ks))),
                         patterns=[J.kmem(k, J.kput(s, a, ks))])],
      props=P18 + ['C16'], uses=['STR_ORDER'])
lemma('klookup_kput', [Part(ks, [s, a, k], Implies(J.ksorted(ks), J.klookup(k, J.kput(s, a, ks))
                                                   == If(k == PyV.PStr(s), a, J.klookup(k, ks))),
                            patterns=[J.klookup(k, J.kput(s, a, ks))])],
      props=P18 + ['C16'], uses=['STR_ORDER'])
lemma('kput_sanitized', [Part(ks, [s, a], Implies(And(J.sanitized_k(ks), J.sanitized(a)),
                                                  J.sanitized_k(J.kput(s, a, ks))))], props=P18)
lemma('lookup_sanitized', [Part(ks, [k], Implies(And(J.sanitized_k(ks), J.kmem(k, ks)),
                                                 J.sanitized(J.klookup(k, ks))))], props=P18)
lemma('sanitized_eqdom',
      [Part(a, [], Implies(J.sanitized(a), J.eqdom(a))),
       Part(xs, [], Implies(J.sanitized_l(xs), J.eqdom_l(xs))),
       Part(ks, [], Implies(J.sanitized_k(ks), J.eqdom_k(ks)))], props=P18)
lemma('lookup_eqdom', [Part(ks, [k], Implies(And(J.eqdom_k(ks), J.kmem(k, ks)),
                                             J.eqdom(J.klookup(k, ks))))], props=P18)

# ---------------------------------------------------------------------------------------------
# the JSON round trip produces sanitized values, and is the identity on them
lemma('rt_sanitized',
      [Part(a, [], Implies(And(J.wf(a), J.jsonable(a)), J.sanitized(J.rt(a)))),
       Part(xs, [], Implies(And(J.wfl(xs), J.jsonable_l(xs)), J.sanitized_l(J.rt_l(xs)))),
       Part(ks, [ls], Implies(And(J.wfk(ks), J.jsonable_k(ks), J.ksorted(ls), J.sanitized_k(ls)),
                              And(J.ksorted(J.rtk_acc(ls, ks)),
                                  J.sanitized_k(J.rtk_acc(ls, ks)))),
            hints=lambda cs: [(J.kput(J.key_str(cs['k']), J.rt(cs['v']), ls),)]
            if 'k' in cs else [])],
      props=P18, uses=['kput_sorted', 'kput_sanitized'])

# ---------------------------------------------------------------------------------------------
# JSON equality is an equivalence relation on NaN-free values
lemma('jeq_refl',
      [Part(a, [], Implies(And(J.eqdom(a), J.nanfree(a)), J.jeq(a, a))),
       Part(xs, [], Implies(And(J.eqdom_l(xs), J.nanfree_l(xs)), J.jeq_l(xs, xs))),
       Part(ks, [], Implies(And(J.eqdom_k(ks), J.nanfree_k(ks)), J.jeq_k(ks, ks)))], props=P18)
lemma('jeq_sym',
      [Part(a, [b], J.jeq(a, b) == J.jeq(b, a)),
       Part(xs, [ys], J.jeq_l(xs, ys) == J.jeq_l(ys, xs)),
       Part(ks, [ls], J.jeq_k(ks, ls) == J.jeq_k(ls, ks))], props=P18)
lemma('jeq_trans',
      [Part(a, [b, c], Implies(And(J.jeq(a, b), J.jeq(b, c)), J.jeq(a, c))),
       Part(xs, [ys, zs], Implies(And(J.jeq_l(xs, ys), J.jeq_l(ys, zs)), J.jeq_l(xs, zs))),
       Part(ks, [ls, ms], Implies(And(J.jeq_k(ks, ls), J.jeq_k(ls, ms)), J.jeq_k(ks, ms)))],
      props=P18)
lemma('jeql_len', [Part(xs, [ys], Implies(J.jeq_l(xs, ys), J.plen(xs) == J.plen(ys)))], props=P18)
lemma('jeqk_len', [Part(ks, [ls], Implies(J.jeq_k(ks, ls), J.klen(ks) == J.klen(ls)))], props=P18)
i1 = z3.Const('li1', IntS)
r1 = z3.Const('lr1', z3.RealSort())
b1, b2 = z3.Consts('lb1 lb2', z3.BoolSort())
lemma('jeq_facts', [Part(a, [b, xs, i1, r1, b1], And(
    # 1 == 1.0
    Implies(z3.ToReal(i1) == r1, J.jeq(PyV.PInt(i1), PyV.PFloat(r1))),
    # booleans never equal numbers
    Not(J.jeq(PyV.PBool(b1), PyV.PInt(i1))), Not(J.jeq(PyV.PInt(i1), PyV.PBool(b1))),
    Not(J.jeq(PyV.PBool(b1), PyV.PFloat(r1))), Not(J.jeq(PyV.PFloat(r1), PyV.PBool(b1))),
    # lists equal tuples
    J.jeq(PyV.PList(xs), PyV.PTuple(xs)) == J.jeq(PyV.PList(xs), PyV.PList(xs)),
    J.jeq(PyV.PTuple(xs), PyV.PList(xs)) == J.jeq(PyV.PList(xs), PyV.PList(xs))))],
      props=P18, induct=False)

# ---------------------------------------------------------------------------------------------
# the key lemma: equal hashable forms <=> JSON equal (on sanitized values)
lemma('key_lemma',
      [Part(a, [b], Implies(And(J.sanitized(a), J.sanitized(b)),
                            J.pyeq(J.hsh(a), J.hsh(b)) == J.jeq(a, b))),
       Part(xs, [ys], Implies(And(J.sanitized_l(xs), J.sanitized_l(ys)),
                              J.pyeq_l(J.hsh_l(xs), J.hsh_l(ys)) == J.jeq_l(xs, ys))),
       Part(ks, [ls], Implies(And(J.sanitized_k(ks), J.sanitized_k(ls), J.ksorted(ks),
                                  J.ksorted(ls)),
                              J.pyeq_l(J.flat(ks), J.flat(ls)) == J.jeq_k(ks, ls)))],
      props=P18)

# C07: two subbuild calls select the same cache slot iff same name and JSON-equal arguments
from pyvc.sorts import hkey      # noqa: E402
n1, n2 = z3.Consts('ln1 ln2', StrS)
a2, b2 = z3.Consts('la2 lb2', PyV)


def _key3(n, x, y):
    return PyV.PList(PyVs.cons(PyV.PStr(n), PyVs.cons(x, PyVs.cons(y, PyVs.nil))))


def _tup4(n, x, y):
    return PyV.PTuple(PyVs.cons(PyV.PInt(0), PyVs.cons(PyV.PStr(n), PyVs.cons(
        x, PyVs.cons(y, PyVs.nil)))))


lemma('key3_shape', [Part(a, [b, n1], J.hsh(_key3(n1, a, b)) == _tup4(n1, J.hsh(a), J.hsh(b)))],
      props=['C07', 'C08'], induct=False)
h1, h2, h3, h4 = z3.Consts('lh1 lh2 lh3 lh4', PyV)
lemma('tup4_eq', [Part(h1, [h2, h3, h4, n1, n2],
                       J.pyeq(_tup4(n1, h1, h2), _tup4(n2, h3, h4))
                       == And(n1 == n2, J.pyeq(h1, h3), J.pyeq(h2, h4)))],
      props=['C07', 'C08'], induct=False)
lemma('subbuild_key_identity', [Part(a, [b, a2, b2, n1, n2], Implies(
    And(J.sanitized(a), J.sanitized(b), J.sanitized(a2), J.sanitized(b2)),
    (hkey(J.hsh(_key3(n1, a, b))) == hkey(J.hsh(_key3(n2, a2, b2))))
    == And(n1 == n2, J.jeq(a, a2), J.jeq(b, b2))))],
      props=['C07', 'C08'], uses=['key_lemma', 'DICT_KEYS', 'key3_shape', 'tup4_eq'], induct=False)

# hashable forms of sanitized values are tuples/atoms only (what dict lookup compares with ==)
# ---------------------------------------------------------------------------------------------
# to_hashable's loop: looking the sorted keys up again gives the items back

notin = J.rec('notin', PyV, PyVs, z3.BoolSort())
J.define(notin, [k, xs], Or(PyVs.is_nil(xs), And(PyVs.hd(xs) != k, notin(k, PyVs.tl(xs)))))
lemma('flatk_skip', [Part(xs, [ks, k, a], Implies(notin(k, xs),
                                                  J.flatk(xs, KVs.kcons(k, a, ks))
                                                  == J.flatk(xs, ks)))], props=P18)
lemma('all_gt_notin_keys', [Part(ks, [s], Implies(J.all_gt(s, ks),
                                                  notin(PyV.PStr(s), J.kkeys(ks))))],
      props=P18, uses=['STR_ORDER'])
lemma('flatk_flat', [Part(ks, [], Implies(J.ksorted(ks), J.flatk(J.kkeys(ks), ks) == J.flat(ks)))],
      props=P18, uses=['flatk_skip', 'all_gt_notin_keys'])
allmem = J.rec('allmem', PyVs, KVs, z3.BoolSort())
J.define(allmem, [xs, ks], Or(PyVs.is_nil(xs), And(J.kmem(PyVs.hd(xs), ks),
                                                    allmem(PyVs.tl(xs), ks))))
lemma('allmem_weaken', [Part(xs, [ks, k, a], Implies(allmem(xs, ks),
                                                     allmem(xs, KVs.kcons(k, a, ks))))], props=P18)
lemma('allmem_keys', [Part(ks, [], allmem(J.kkeys(ks), ks))], props=P18, uses=['allmem_weaken'])

# ---------------------------------------------------------------------------------------------
# is_equal's dict loop against pointwise equality of sorted association lists.
# (<=) is a plain induction; (=>) is the finite pigeonhole principle.
lemma('jeqk_sub_ok_weaken',
      [Part(ks, [ls, s, a], Implies(And(J.all_gt(s, ks), J.sub_ok(ks, ls)),
                                    J.sub_ok(ks, KVs.kcons(PyV.PStr(s), a, ls))))],
      props=P18, uses=['STR_ORDER', 'all_gt_notmem'])
lemma('jeqk_implies_sub_ok',
      [Part(ks, [ls], Implies(And(J.ksorted(ks), J.ksorted(ls), J.jeq_k(ks, ls)),
                              J.sub_ok(ks, ls)))],
      props=P18, uses=['jeqk_sub_ok_weaken', 'STR_ORDER'])
# the finite pigeonhole principle on strictly sorted association lists, by three inductions
# S1: keys all greater than s are looked up past an entry with key s
lemma('sub_ok_skip_smaller_head',
      [Part(ks, [ls, s, a], Implies(And(J.all_gt(s, ks), J.sub_ok(ks, KVs.kcons(PyV.PStr(s), a, ls))),
                                    J.sub_ok(ks, ls)))],
      props=P18, uses=['STR_ORDER'])
# PH': a sorted list all of whose keys occur in another sorted list is not longer
lemma('sub_ok_len_le',
      [Part(ls, [ks], Implies(And(J.ksorted(ks), J.ksorted(ls), J.sub_ok(ks, ls)),
                              J.klen(ks) <= J.klen(ls)))],
      props=P18, uses=['STR_ORDER', 'sub_ok_skip_smaller_head', 'all_gt_trans', 'all_gt_mem',
                       'klen_nonneg'])
lemma('pigeonhole',
      [Part(ks, [ls], Implies(And(J.ksorted(ks), J.ksorted(ls), J.klen(ks) == J.klen(ls),
                                  J.sub_ok(ks, ls)), J.jeq_k(ks, ls)))],
      props=P18, uses=['STR_ORDER', 'sub_ok_skip_smaller_head', 'sub_ok_len_le', 'all_gt_trans',
                       'all_gt_mem', 'klen_nonneg'])

CONTRACTS = []

# ---------------------------------------------------------------------------------------------
CONTRACTS.append(Contract(
    M + 'is_equal', props=['C18', 'C07', 'C06'],
    params={'value1': PYV, 'value2': PYV}, returns=BOOL,
    requires=lambda c: [('eqdom1', J.eqdom(c.value1)), ('eqdom2', J.eqdom(c.value2))],
    ensures=lambda c: [('is-jeq', c.res == J.jeq(c.value1, c.value2))],
    loops={
        0: LoopSpec(inv=lambda c: [
            ('no-mismatch-so-far', J.jeq_l(c.loop['all1'], c.loop['all2'])
             == J.jeq_l(c.loop['rest1'], c.loop['rest2'])),
            ('same-length', J.plen(c.loop['rest1']) == J.plen(c.loop['rest2'])),
            ('dom1', J.eqdom_l(c.loop['rest1'])), ('dom2', J.eqdom_l(c.loop['rest2']))]),
        1: LoopSpec(inv=lambda c: [
            ('no-mismatch-so-far', J.sub_ok(c.loop['all'], PyV.kvs(c.value2))
             == J.sub_ok(c.loop['rest'], PyV.kvs(c.value2))),
            ('dom', J.eqdom_k(c.loop['rest']))]),
    },
    lemmas=['plen_nonneg', 'klen_nonneg', 'lookup_eqdom', 'jeqk_implies_sub_ok', 'pigeonhole',
            'jeql_len', 'jeqk_len'],
))

# ---------------------------------------------------------------------------------------------
to_hashable = Contract(
    M + 'to_hashable', props=['C18', 'C07'],
    params={'value': PYV}, returns=PYV,
    requires=lambda c: [('sanitized', J.sanitized(c.value))],
    ensures=lambda c: [('is-hsh', c.res == J.hsh(c.value))],
    local_types={'result': PYV},
    loops={
        0: LoopSpec(inv=lambda c: [
            ('is-list', J.is_list(c.v('result'))),
            ('prefix', J.app(PyV.litems(c.v('result')), J.flatk(c.loop['rest'], PyV.kvs(c.value)))
             == J.flatk(c.loop['all'], PyV.kvs(c.value))),
            ('keys-present', allmem(c.loop['rest'], PyV.kvs(c.value)))]),
    },
    lemmas=['app_snoc', 'app_nil', 'flatk_flat', 'allmem_keys', 'lookup_sanitized'],
)
to_hashable.listmap = dict(pre=J.sanitized_l, result=J.hsh_l, fresh=True)
CONTRACTS.append(to_hashable)

# ---------------------------------------------------------------------------------------------
sanitize = Contract(
    M + 'sanitize', props=['C18', 'C07', 'C11', 'C15', 'C06'],
    params={'value': PYV}, returns=PYV, ret_fresh=True,
    requires=lambda c: [('wf', J.wf(c.value))],
    ensures=lambda c: [('is-round-trip', c.res == J.rt(c.value))],
    raises=[ExcSpec('TypeError', when=lambda c: Not(J.jsonable(c.value)))],
    local_types={'result': PYV},
    loops={
        0: LoopSpec(inv=lambda c: [
            ('is-dict', J.is_dict(c.v('result'))),
            ('fold', J.rtk_acc(PyV.kvs(c.v('result')), c.loop['rest'])
             == J.rtk_acc(KVs.knil, c.loop['all'])),
            ('jsonable-so-far', J.jsonable_k(c.loop['all']) == J.jsonable_k(c.loop['rest'])),
            ('wf', J.wfk(c.loop['rest']))]),
    },
)
sanitize.listmap = dict(pre=J.wfl, result=J.rt_l, fresh=True,
                        raises=[('TypeError', lambda items: Not(J.jsonable_l(items)))])
CONTRACTS.append(sanitize)

# ---------------------------------------------------------------------------------------------
CONTRACTS.append(Contract(
    M + '_key_to_str', props=['C18', 'C07'],
    params={'key': PYV}, returns=STR,
    requires=lambda c: [('wf', J.wf(c.key))],
    ensures=lambda c: [('is-json-key', c.res == J.key_str(c.key))],
    raises=[ExcSpec('TypeError', when=lambda c: Not(J.keyable(c.key)))],
))

# ---------------------------------------------------------------------------------------------
# _normalize_str (round 2, fix for the surrogate-pair defect): TRUSTED.  In the proofs strings are
# uninterpreted and `json.loads(json.dumps(s)) == s` is an axiom of the string model, so the
# normalisation is the identity there; what it does on strings that hold surrogate pairs is checked
# by the bounded stand-in json_laws against the real json module.
CONTRACTS.append(Contract(
    M + '_normalize_str', props=['C18', 'C07', 'C16'], trusted=True,
    # PYV -> PYV: the function returns its ARGUMENT when there is nothing to combine, so an
    # instance of a str subclass comes back as that instance (callers must pass the contents)
    params={'value': PYV}, returns=PYV,
    requires=lambda c: [('is-a-str', J.is_str(J.base_of(c.value)))],
    ensures=lambda c: [('identity-on-the-modelled-strings', c.res == c.value)],
    notes='combines surrogate pairs like json does; identity on every other string (the string '
          'model of the proofs has no surrogate pairs): bounded stand-in json_laws'))

"""Contracts for file_builder/cache.py: class Cache (C08, C16, C07, C06, C01, C12).

Abstract view of a cache: files F : path -> absent | claimed (None) | finished record,
norm-cased twin NCF (equal to F on POSIX), subbuilds SB : key slot -> absent | claimed | record,
created directories CD, function versions FV.
"""
import z3
from pyvc.engine import Contract, ExcSpec, LoopSpec
from pyvc.sorts import (STR, BOOL, INT, PYV, HKEY, OBJ, SET, MAP, LIST, OPT, StrS, ObjS, PyV, PyVs,
                        KVs, hkey, cls_of, CLS, HKeyS)
from spec import json_spec as J
from contracts.shapes import FIELDS as SH
from pyvc.libfs import K_FILE as _K_FILE

M = 'file_builder.cache.Cache.'
And, Or, Not, Implies, If, ForAll = z3.And, z3.Or, z3.Not, z3.Implies, z3.If, z3.ForAll
CACHE = OBJ('Cache')
F_, NCF_, SB_, CD_ = 'Cache._files', 'Cache._norm_cased_files', 'Cache._subbuilds', \
    'Cache._created_dirs'
FV_, OV_, BN_ = 'Cache._func_versions', 'Cache._operation_versions', 'Cache._build_name'
BF_ = 'Cache._built_files'
RAISED, SETUPF = 'ComplexOperation.raised', 'ComplexOperation.setup_failed'
FILENAME = 'BuildFileOperation.filename'

OO = SH[F_].osort()            # Option(Option(Obj)): absent / claimed / record
OI = SH[F_].args[1].sort()     # Option(Obj)
OSB = SH[SB_].osort()

x = z3.Const('ca!x', StrS)
NOTHING = lambda c: []


def entry_record(e):
    """the finished record stored in a map entry (absent and claimed have none)"""
    return And(OO.is_some(e), OI.is_some(OO.val(e)))


def rec_of(e):
    return OI.val(OO.val(e))


def created(c, st, cache, p, field=F_):
    rd = getattr(c, st)
    e = rd(field, cache)[p]
    return And(entry_record(e), Not(rd(RAISED, rec_of(e))))


def flat_get(e):
    return If(OO.is_some(e), OO.val(e), OI.none)


CONTRACTS = []
PALL = ['C08', 'C01', 'C04', 'C05']

CONTRACTS.append(Contract(
    M + 'get_file', props=PALL, params={'self': CACHE, 'filename': STR},
    returns=OPT(OBJ('BuildFileOperation')),
    ensures=lambda c: [('is-entry', c.res == flat_get(c.old(F_, c.self)[c.filename]))],
    modifies=NOTHING))
CONTRACTS.append(Contract(
    M + 'get_norm_cased_file', props=PALL, params={'self': CACHE, 'norm_cased_filename': STR},
    returns=OPT(OBJ('BuildFileOperation')),
    ensures=lambda c: [('is-entry', c.res == flat_get(c.old(NCF_, c.self)[c.norm_cased_filename]))],
    modifies=NOTHING))
CONTRACTS.append(Contract(
    M + 'has_norm_cased_file', props=PALL, params={'self': CACHE, 'norm_cased_filename': STR},
    returns=BOOL,
    ensures=lambda c: [('is-claimed-or-finished',
                        c.res == OO.is_some(c.old(NCF_, c.self)[c.norm_cased_filename]))],
    modifies=NOTHING))
CONTRACTS.append(Contract(
    M + 'created_file', props=PALL + ['C03', 'C02'], params={'self': CACHE, 'filename': STR},
    returns=BOOL,
    ensures=lambda c: [('is-created', c.res == created(c, 'old', c.self, c.filename))],
    modifies=NOTHING))
CONTRACTS.append(Contract(
    M + 'created_norm_cased_file', props=PALL + ['C03', 'C02'],
    params={'self': CACHE, 'norm_cased_filename': STR}, returns=BOOL,
    ensures=lambda c: [('is-created',
                        c.res == created(c, 'old', c.self, c.norm_cased_filename, NCF_))],
    modifies=NOTHING))

CLAIM_LOCKS = {F_: '_files_lock', NCF_: '_files_lock', BF_: '_files_lock', SB_: '_subbuilds_lock',
               CD_: '_created_dirs_lock'}


def with_locks(con):
    con.lock_guards = CLAIM_LOCKS
    return con


CONTRACTS.append(with_locks(Contract(
    M + 'start_building_file', props=['C08', 'C04', 'C10'],
    params={'self': CACHE, 'filename': STR},
    ensures=lambda c: [
        ('claimed', c.new(F_, c.self) == z3.Store(c.old(F_, c.self), c.filename, OO.some(OI.none))),
        ('claimed-nc', c.new(NCF_, c.self)
         == z3.Store(c.old(NCF_, c.self), c.filename, OO.some(OI.none))),
        # C02.R4: the cache remembers which files this build (re)built, as opposed to results it
        # reused -- rollback must remove exactly those
        ('recorded-as-built', c.new(BF_, c.self) == z3.Store(c.old(BF_, c.self), c.filename, True),
         ['C02', 'C03'])],
    raises=[ExcSpec('RuntimeError', when=lambda c: OO.is_some(c.old(NCF_, c.self)[c.filename]),
                    modifies=NOTHING),
            # rely condition, as for start_subbuild: another thread may have claimed the path
            # since the caller's unlocked early check
            ExcSpec('RuntimeError', when=None, exact=False, modifies=NOTHING)],
    modifies=lambda c: [(F_, c.self), (NCF_, c.self), (BF_, c.self)])))

CONTRACTS.append(with_locks(Contract(
    M + 'built_file', props=['C02', 'C03'], params={'self': CACHE, 'filename': STR}, returns=BOOL,
    ensures=lambda c: [('is-membership', c.res == c.old(BF_, c.self)[c.filename])],
    modifies=NOTHING)))

CONTRACTS.append(with_locks(Contract(
    M + 'finish_building_file', props=['C08', 'C04', 'C10'],
    params={'self': CACHE, 'operation': OBJ('BuildFileOperation')},
    ensures=lambda c: [
        ('recorded', c.new(F_, c.self) == z3.Store(
            c.old(F_, c.self), c.old(FILENAME, c.operation), OO.some(OI.some(c.operation)))),
        ('recorded-nc', c.new(NCF_, c.self) == z3.Store(
            c.old(NCF_, c.self), c.old(FILENAME, c.operation), OO.some(OI.some(c.operation))))],
    modifies=lambda c: [(F_, c.self), (NCF_, c.self)])))

CONTRACTS.append(with_locks(Contract(
    M + 'assert_doesnt_have_norm_cased_file', props=['C08'],
    params={'self': CACHE, 'norm_cased_filename': STR, 'filename': STR},
    raises=[ExcSpec('RuntimeError',
                    when=lambda c: OO.is_some(c.old(NCF_, c.self)[c.norm_cased_filename]),
                    modifies=NOTHING)],
    modifies=NOTHING)))

CONTRACTS.append(Contract(
    M + 'created_files', props=PALL + ['C03', 'C12', 'C02'], params={'self': CACHE},
    returns=LIST(STR), ret_fresh=True,
    ensures=lambda c: [('exactly-the-created-files', ForAll([x], z3.Contains(c.res, z3.Unit(x))
                                                           == created(c, 'old', c.self, x)))],
    local_types={'created_files': LIST(STR)},
    loops={0: LoopSpec(inv=lambda c: [
        ('collected', ForAll([x], z3.Contains(c.v('created_files'), z3.Unit(x))
                             == And(c.loop['done'][x], created(c, 'new', c.self, x))))])},
    modifies=NOTHING))

# ---- subbuilds ---------------------------------------------------------------------------------------
CONTRACTS.append(Contract(
    M + 'subbuild_key', props=['C07', 'C08'],
    params={'operation': OBJ('ComplexOperation')}, returns=PYV,
    requires=lambda c: [('args-sanitized', J.sanitized(c.old('Operation.args', c.operation))),
                        ('kwargs-sanitized', J.sanitized(c.old('ComplexOperation.kwargs',
                                                               c.operation)))],
    ensures=lambda c: [('is-hashable-form-of-name-args-kwargs', c.res == J.hsh(PyV.PList(
        PyVs.cons(PyV.PStr(c.old('ComplexOperation.func_name', c.operation)),
                  PyVs.cons(c.old('Operation.args', c.operation),
                            PyVs.cons(c.old('ComplexOperation.kwargs', c.operation),
                                      PyVs.nil))))))],
    modifies=NOTHING))

CONTRACTS.append(Contract(
    M + 'get_subbuild', props=['C08', 'C01'], params={'self': CACHE, 'subbuild_key': PYV},
    returns=OPT(OBJ('SubbuildOperation')),
    ensures=lambda c: [('is-entry', c.res == If(
        OSB.is_some(c.old(SB_, c.self)[hkey(c.subbuild_key)]),
        OSB.val(c.old(SB_, c.self)[hkey(c.subbuild_key)]), SH[SB_].args[1].sort().none))],
    modifies=NOTHING))
CONTRACTS.append(Contract(
    M + 'has_subbuild', props=['C08', 'C01'], params={'self': CACHE, 'subbuild_key': PYV},
    returns=BOOL,
    ensures=lambda c: [('is-claimed-or-finished',
                        c.res == OSB.is_some(c.old(SB_, c.self)[hkey(c.subbuild_key)]))],
    modifies=NOTHING))
OSI = SH[SB_].args[1].sort()
CONTRACTS.append(with_locks(Contract(
    M + 'start_subbuild', props=['C08'],
    params={'self': CACHE, 'subbuild_key': PYV, 'operation': OBJ('SubbuildOperation')},
    ensures=lambda c: [('claimed', c.new(SB_, c.self) == z3.Store(
        c.old(SB_, c.self), hkey(c.subbuild_key), OSB.some(OSI.none)))],
    raises=[ExcSpec('RuntimeError',
                    when=lambda c: OSB.is_some(c.old(SB_, c.self)[hkey(c.subbuild_key)]),
                    modifies=NOTHING),
            # rely condition (the one point where the sequential model admits another thread):
            # the claim is taken under the lock, the caller's early check was not -- a second
            # thread may have claimed the key in between, so a caller must cope with a refusal
            # here even though its own check passed (C08: "also under concurrent calls")
            ExcSpec('RuntimeError', when=None, exact=False, modifies=NOTHING)],
    modifies=lambda c: [(SB_, c.self)])))
CONTRACTS.append(with_locks(Contract(
    M + 'finish_subbuild', props=['C08'],
    params={'self': CACHE, 'subbuild_key': PYV, 'operation': OBJ('SubbuildOperation')},
    ensures=lambda c: [('recorded', c.new(SB_, c.self) == z3.Store(
        c.old(SB_, c.self), hkey(c.subbuild_key), OSB.some(OSI.some(c.operation))))],
    modifies=lambda c: [(SB_, c.self)])))
CONTRACTS.append(with_locks(Contract(
    M + 'assert_doesnt_have_subbuild', props=['C08'],
    params={'self': CACHE, 'subbuild_key': PYV, 'operation': OBJ('SubbuildOperation')},
    raises=[ExcSpec('RuntimeError',
                    when=lambda c: OSB.is_some(c.old(SB_, c.self)[hkey(c.subbuild_key)]),
                    modifies=NOTHING)],
    modifies=NOTHING)))

# ---- created dirs, versions --------------------------------------------------------------------------
CONTRACTS.append(with_locks(Contract(
    M + 'add_created_dirs', props=['C12'], params={'self': CACHE, 'created_dirs': LIST(STR)},
    ensures=lambda c: [('union', ForAll([x], c.new(CD_, c.self)[x]
                                        == Or(c.old(CD_, c.self)[x],
                                              z3.Contains(c.created_dirs, z3.Unit(x)))))],
    modifies=lambda c: [(CD_, c.self)])))
CONTRACTS.append(Contract(
    M + 'created_dirs', props=['C12', 'C03', 'C02'], params={'self': CACHE}, returns=LIST(STR),
    ret_fresh=True,
    ensures=lambda c: [('exactly-the-set', ForAll([x], z3.Contains(c.res, z3.Unit(x))
                                                 == c.old(CD_, c.self)[x]))],
    modifies=NOTHING))
CONTRACTS.append(Contract(
    M + 'get_func_version', props=['C06'], params={'self': CACHE, 'func_name': STR}, returns=PYV,
    requires=lambda c: [('versions-is-dict', J.is_dict(c.old(FV_, c.self)))],
    ensures=lambda c: [('value-or-None', c.res == If(
        J.kmem(PyV.PStr(c.func_name), PyV.kvs(c.old(FV_, c.self))),
        J.klookup(PyV.PStr(c.func_name), PyV.kvs(c.old(FV_, c.self))), PyV.PNone))],
    modifies=NOTHING))
CONTRACTS.append(Contract(
    M + 'get_operation_version', props=['C06'], params={'self': CACHE, 'operation_name': STR},
    returns=PYV,
    requires=lambda c: [('versions-is-dict', J.is_dict(c.old(OV_, c.self)))],
    ensures=lambda c: [('value-or-None', c.res == If(
        J.kmem(PyV.PStr(c.operation_name), PyV.kvs(c.old(OV_, c.self))),
        J.klookup(PyV.PStr(c.operation_name), PyV.kvs(c.old(OV_, c.self))), PyV.PNone))],
    modifies=NOTHING))


# ---- construction / reading ------------------------------------------------------------------------
ALLF = [BN_, F_, NCF_, SB_, CD_, FV_, OV_, BF_, 'Cache._files_lock', 'Cache._subbuilds_lock',
        'Cache._created_dirs_lock']
FILES_T = SH[F_]
k = z3.Const('ca!k', StrS)
CONTRACTS.append(Contract(
    M + '__init__', props=['C15', 'C16', 'C08'],
    params={'self': CACHE, 'build_name': STR, 'files': FILES_T, 'subbuilds': SH[SB_],
            'created_dirs': SH[CD_], 'func_versions': PYV, 'operation_versions': PYV,
            'is_mutable': BOOL},
    ensures=lambda c: [
        ('name', c.new(BN_, c.self) == c.build_name),
        ('files', c.new(F_, c.self) == c.files),
        ('norm-cased-files-equal-files', c.new(NCF_, c.self) == c.files),
        ('subbuilds', c.new(SB_, c.self) == c.subbuilds),
        ('created-dirs', c.new(CD_, c.self) == c.created_dirs),
        ('versions', And(c.new(FV_, c.self) == c.func_versions,
                         c.new(OV_, c.self) == c.operation_versions)),
        ('nothing-built-yet', c.new(BF_, c.self) == z3.K(StrS, z3.BoolVal(False)), ['C02'])],
    loops={0: LoopSpec(inv=lambda c: [
        ('copied-so-far', ForAll([k], c.new(NCF_, c.self)[k]
                                 == If(c.loop['done'][k], c.files[k], OO.none))),
        ('other-fields', And(c.new(F_, c.self) == c.files, c.new(BN_, c.self) == c.build_name,
                             c.new(SB_, c.self) == c.subbuilds,
                             c.new(CD_, c.self) == c.created_dirs,
                             c.new(FV_, c.self) == c.func_versions,
                             c.new(OV_, c.self) == c.operation_versions,
                             c.new(BF_, c.self) == z3.K(StrS, z3.BoolVal(False))))])},
    modifies=lambda c: [(f, c.self) for f in ALLF]))


def no_effect(c):
    return [('no-fs-effect', c.gnew('eff') == c.gold('eff')),
            ('no-callback', c.gnew('ncalls') == c.gold('ncalls')),
            ('fs-unchanged', c.gnew('fs_kind') == c.gold('fs_kind'))]


# deserialisation of the operation forest: proved separately (bounded stand-in for the recursion,
# see bounded/registry.json); here only its frame is used
CONTRACTS.append(Contract(
    M + '_operations_from_json', props=['C16'], trusted=True,
    params={'operations_json': PYV, 'files': FILES_T, 'subbuilds': SH[SB_]},
    returns=lambda eng, st, args: None,
    raises=[ExcSpec('Exception', modifies=NOTHING)],
    modifies=NOTHING,
    notes='frame only: creates new records, touches no existing object, no file-system effect'))

CONTRACTS.append(Contract(
    M + 'read_immutable', props=['C15', 'C16'],
    params={'filename': STR}, returns=CACHE,
    ensures=lambda c: no_effect(c) + [
        # gzip.open of a directory raises IsADirectoryError, of a missing path FileNotFoundError
        ('was-a-regular-file', c.gold('fs_kind')[c.filename] == _K_FILE, ['C15', 'C16', 'C12'])],
    raises=[ExcSpec('Exception', ensures=no_effect, modifies=NOTHING)],
    modifies=NOTHING,
    lemmas=['lookup_sanitized', 'sanitized_eqdom'],
))
# marker ghost: "this file was parsed as a cache file without error" (set on normal return only)
CONTRACTS[-1].ghost_updates = lambda c: {
    'cache_read': z3.Store(c.gold('cache_read'), c.filename, True)}
CONTRACTS[-1].ghost_updates_on = 'ret'

"""Registry of sidecar contracts, object shapes, lemmas and assumed axioms."""
import importlib

MODULES = ['shapes', 'json_util', 'created_files', 'cache', 'build_dirs', 'file_backups', 'executor', 'file_builder']

CONTRACTS = {}      # qualname -> Contract (used at call sites and verified)
VERIFY = {}         # verification task key -> Contract (main contracts + variants)
LEMMAS = {}         # name -> Lemma (registration order preserved)
ASSUMED = {}        # name -> (formula, note)   axioms that are NOT proved (listed in evidence)
FIELDS = {}         # 'Class.attr' -> Ty
GHOSTS = {}         # ghost variable -> z3 sort
SCRATCH_GHOSTS = []  # ghosts that are never part of a frame


def load():
    if CONTRACTS:
        return
    for m in MODULES:
        mod = importlib.import_module('contracts.' + m)
        for c in getattr(mod, 'CONTRACTS', []):
            CONTRACTS[c.target] = c
            VERIFY[c.target] = c
        for c in getattr(mod, 'VARIANTS', []):
            VERIFY[c.target + '#' + c.variant] = c
        for l in getattr(mod, 'LEMMAS', []):
            if l.name in LEMMAS:
                raise ValueError('duplicate lemma ' + l.name)
            LEMMAS[l.name] = l
        for name, val in getattr(mod, 'ASSUMED', {}).items():
            ASSUMED[name] = val
        FIELDS.update(getattr(mod, 'FIELDS', {}))
        GHOSTS.update(getattr(mod, 'GHOSTS', {}))
        SCRATCH_GHOSTS.extend(getattr(mod, 'SCRATCH_GHOSTS', ()))

"""Registry of sidecar contracts, object shapes, lemmas and assumed axioms."""
import importlib

MODULES = ['json_util', 'created_files']

CONTRACTS = {}      # qualname -> Contract
LEMMAS = {}         # name -> Lemma (registration order preserved)
ASSUMED = {}        # name -> (formula, note)   axioms that are NOT proved (listed in evidence)
FIELDS = {}         # 'Class.attr' -> Ty
GHOSTS = {}         # ghost variable -> z3 sort


def load():
    if CONTRACTS:
        return
    for m in MODULES:
        mod = importlib.import_module('contracts.' + m)
        for c in getattr(mod, 'CONTRACTS', []):
            CONTRACTS[c.target] = c
        for l in getattr(mod, 'LEMMAS', []):
            if l.name in LEMMAS:
                raise ValueError('duplicate lemma ' + l.name)
            LEMMAS[l.name] = l
        for name, val in getattr(mod, 'ASSUMED', {}).items():
            ASSUMED[name] = val
        FIELDS.update(getattr(mod, 'FIELDS', {}))
        GHOSTS.update(getattr(mod, 'GHOSTS', {}))

"""Contracts for file_builder/simple_operation_executor.py (C04, C05, C13).

The virtual view is written from the statement of C04, not from the code:
  VFile(p)  <=>  p is not the cache file, and
                 if p was passed to build_file in this build: its function has returned and the file exists
                 else: p is not an output of the previous build and is a regular file on disk
with the CreatedFiles overlay (used while replaying a cached record) taking precedence.
"""
import z3
from pyvc.engine import Contract, ExcSpec, LoopSpec
from pyvc.sorts import (STR, BOOL, INT, PYV, OBJ, SET, MAP, LIST, OPT, StrS, K_FILE, K_DIR,
                        K_ABSENT, dirname, PyV)
from spec import json_spec as J
from contracts.shapes import FIELDS as SH
from contracts import cache as CA
from contracts import created_files as CF

M = 'file_builder.simple_operation_executor.SimpleOperationExecutor.'
And, Or, Not, Implies, If, ForAll = z3.And, z3.Or, z3.Not, z3.Implies, z3.If, z3.ForAll
EX = OBJ('SimpleOperationExecutor')
CFO = OPT(OBJ('CreatedFiles'))
OCF = CFO.sort()
NOTHING = lambda c: []
BD_MEMO = ['BuildDirs._removed_dirs', 'BuildDirs._exists_dirs', 'BuildDirs._maybe_removed_dirs',
           'BuildDirs._removed_files']


def no_effect(c):
    return [('no-fs-effect', c.gnew('eff') == c.gold('eff')),
            ('no-callback', c.gnew('ncalls') == c.gold('ncalls')),
            ('fs-unchanged', c.gnew('fs_kind') == c.gold('fs_kind'))]


def vfile(c, p, cf, st='old'):
    """the statement's virtual "is a regular file" """
    rd = getattr(c, st)
    g = c.gold if st == 'old' else c.gnew
    kind = g('fs_kind')
    oc, nc = rd('SimpleOperationExecutor._old_cache', c.self), \
        rd('SimpleOperationExecutor._new_cache', c.self)
    cfn = rd('SimpleOperationExecutor._norm_cased_cache_filename', c.self)
    e = rd(CA.NCF_, nc)[p]
    base = And(p != cfn, If(CA.OO.is_some(e),
                            And(CA.OI.is_some(CA.OO.val(e)), kind[p] == K_FILE),
                            And(Not(CA.created(c, st, oc, p, CA.NCF_)), kind[p] == K_FILE)))
    if cf is None:
        return base
    o = OCF.val(cf)
    return If(And(OCF.is_some(cf), rd(CF.F_, o)[p]), True,
              If(And(OCF.is_some(cf), rd(CF.D_, o)[p]), False, base))


CONTRACTS = []
OB = OPT(BOOL)
CONTRACTS.append(Contract(
    M + '_is_file_no_read', props=['C04', 'C05', 'C03'],
    params={'self': EX, 'norm_cased_filename': STR, 'created_files': CFO}, returns=OB,
    ensures=lambda c: [
        ('definite-answers-are-the-virtual-view', Implies(
            OB.sort().is_some(c.res),
            OB.sort().val(c.res) == vfile(c, c.norm_cased_filename, c.created_files))),
        ('otherwise-the-real-file-system-decides', Implies(
            OB.sort().is_none(c.res),
            vfile(c, c.norm_cased_filename, c.created_files)
            == (c.gold('fs_kind')[c.norm_cased_filename] == K_FILE)))],
    modifies=NOTHING))

CONTRACTS.append(Contract(
    'file_builder.build_dirs.BuildDirs.handle_norm_cased_dir_exists', props=['C04'], trusted=True,
    params={'self': OBJ('BuildDirs'), 'norm_cased_dir': STR},
    modifies=lambda c: [(f, c.self) for f in BD_MEMO],
    notes='memoises that a directory exists in the virtual view; never raises'))
CONTRACTS.append(Contract(
    'file_builder.build_dirs.BuildDirs.is_removed_norm_case', props=['C04'], trusted=True,
    params={'self': OBJ('BuildDirs'), 'norm_cased_dir': STR}, returns=BOOL,
    ensures=lambda c: no_effect(c) + [
        ('only-dirs-of-a-build-can-be-gone', Implies(c.res, And(
            Not(SH['BuildDirs._build_dir_counts'].osort().is_some(
                c.old('BuildDirs._build_dir_counts', c.self)[c.norm_cased_dir])),
            Or(c.old('BuildDirs._maybe_removed_dirs', c.self)[c.norm_cased_dir],
               c.old('BuildDirs._removed_dirs', c.self)[c.norm_cased_dir]))))],
    modifies=lambda c: [(f, c.self) for f in BD_MEMO],
    notes='directory scan (recursive over the real tree): bounded stand-in'))

CONTRACTS.append(Contract(
    M + 'is_file', props=['C04', 'C05', 'C03'],
    params={'self': EX, 'filename': STR, 'created_files': CFO}, returns=BOOL,
    ensures=lambda c: no_effect(c) + [
        ('is-the-virtual-view', c.res == vfile(c, c.filename, c.created_files))],
    modifies=lambda c: BD_MEMO))

# "d is a directory recorded as created by the previous build, or created by this build": ghost
# predicate; BuildDirs' memo sets only ever hold such directories (trusted invariant of BuildDirs,
# bounded stand-in)
BUILD_MADE = z3.Function('build_made_dir', StrS, z3.BoolSort())
# patch the trusted scan contract with that fact
for _c in CONTRACTS:
    if _c.target.endswith('BuildDirs.is_removed_norm_case'):
        _old = _c.ensures
        _c.ensures = (lambda old: (lambda c: old(c) + [
            ('gone-dirs-were-made-by-a-build', Implies(c.res, BUILD_MADE(c.norm_cased_dir)))]))(_old)


def cf_says_dir(c, p, cf):
    o = OCF.val(cf)
    return And(OCF.is_some(cf), c.old(CF.D_, o)[p])


def cf_says_file(c, p, cf):
    o = OCF.val(cf)
    return And(OCF.is_some(cf), c.old(CF.F_, o)[p])


CONTRACTS.append(Contract(
    M + 'is_dir', props=['C04', 'C05', 'C03'],
    params={'self': EX, 'filename': STR, 'created_files': CFO}, returns=BOOL,
    ensures=lambda c: no_effect(c) + [
        ('overlay-directories-are-directories',
         Implies(cf_says_dir(c, c.filename, c.created_files), c.res)),
        ('overlay-files-are-not-directories',
         Implies(And(Not(cf_says_dir(c, c.filename, c.created_files)),
                     cf_says_file(c, c.filename, c.created_files)), Not(c.res))),
        ('a-directory-exists-on-disk-or-in-the-overlay',
         Implies(c.res, Or(cf_says_dir(c, c.filename, c.created_files),
                           c.gold('fs_kind')[c.filename] == K_DIR))),
        ('a-real-directory-is-hidden-only-if-a-build-made-it',
         Implies(And(Not(c.res), c.gold('fs_kind')[c.filename] == K_DIR,
                     Not(cf_says_file(c, c.filename, c.created_files))),
                 BUILD_MADE(c.filename)), ['C03', 'C04']),
    ],
    modifies=lambda c: BD_MEMO))

CONTRACTS.append(Contract(
    M + 'exists', props=['C04', 'C05'],
    params={'self': EX, 'filename': STR, 'created_files': CFO}, returns=BOOL,
    ensures=lambda c: no_effect(c) + [
        ('a-virtual-file-exists', Implies(vfile(c, c.filename, c.created_files), c.res))],
    modifies=lambda c: BD_MEMO))

"""Contracts for file_builder/simple_operation_executor.py (C04, C05, C13).

The virtual view is written from the statement of C04, not from the code:
  VFile(p)  <=>  p is not the cache file, and
                 if p was passed to build_file in this build: its function has returned and the file exists
                 else: p is not an output of the previous build and is a regular file on disk
with the CreatedFiles overlay (used while replaying a cached record) taking precedence.
"""
import z3
from pyvc.engine import Contract, ExcSpec, LoopSpec
from pyvc.sorts import (STR, BOOL, INT, PYV, OBJ, SET, MAP, LIST, OPT, StrS, K_FILE, K_DIR,
                        K_ABSENT, dirname, PyV)
from spec import json_spec as J
from contracts.shapes import FIELDS as SH
from contracts import cache as CA
from contracts import created_files as CF

M = 'file_builder.simple_operation_executor.SimpleOperationExecutor.'
And, Or, Not, Implies, If, ForAll = z3.And, z3.Or, z3.Not, z3.Implies, z3.If, z3.ForAll
EX = OBJ('SimpleOperationExecutor')
CFO = OPT(OBJ('CreatedFiles'))
OCF = CFO.sort()
NOTHING = lambda c: []
BD_MEMO = ['BuildDirs._removed_dirs', 'BuildDirs._exists_dirs', 'BuildDirs._maybe_removed_dirs',
           'BuildDirs._removed_files']


def no_effect(c):
    return [('no-fs-effect', c.gnew('eff') == c.gold('eff')),
            ('no-callback', c.gnew('ncalls') == c.gold('ncalls')),
            ('fs-unchanged', c.gnew('fs_kind') == c.gold('fs_kind'))]


def vfile(c, p, cf, st='old'):
    """the statement's virtual "is a regular file" """
    rd = getattr(c, st)
    g = c.gold if st == 'old' else c.gnew
    kind = g('fs_kind')
    oc, nc = rd('SimpleOperationExecutor._old_cache', c.self), \
        rd('SimpleOperationExecutor._new_cache', c.self)
    cfn = rd('SimpleOperationExecutor._norm_cased_cache_filename', c.self)
    e = rd(CA.NCF_, nc)[p]
    base = And(p != cfn, If(CA.OO.is_some(e),
                            And(CA.OI.is_some(CA.OO.val(e)), kind[p] == K_FILE),
                            And(Not(CA.created(c, st, oc, p, CA.NCF_)), kind[p] == K_FILE)))
    if cf is None:
        return base
    o = OCF.val(cf)
    return If(And(OCF.is_some(cf), rd(CF.F_, o)[p]), True,
              If(And(OCF.is_some(cf), rd(CF.D_, o)[p]), False, base))


CONTRACTS = []
OB = OPT(BOOL)
CONTRACTS.append(Contract(
    M + '_is_file_no_read', props=['C04', 'C05', 'C03'],
    params={'self': EX, 'norm_cased_filename': STR, 'created_files': CFO}, returns=OB,
    ensures=lambda c: [
        ('definite-answers-are-the-virtual-view', Implies(
            OB.sort().is_some(c.res),
            OB.sort().val(c.res) == vfile(c, c.norm_cased_filename, c.created_files))),
        ('otherwise-the-real-file-system-decides', Implies(
            OB.sort().is_none(c.res),
            vfile(c, c.norm_cased_filename, c.created_files)
            == (c.gold('fs_kind')[c.norm_cased_filename] == K_FILE)))],
    modifies=NOTHING))

CONTRACTS.append(Contract(
    'file_builder.build_dirs.BuildDirs.handle_norm_cased_dir_exists', props=['C04'], trusted=True,
    params={'self': OBJ('BuildDirs'), 'norm_cased_dir': STR},
    modifies=lambda c: [(f, c.self) for f in BD_MEMO],
    notes='memoises that a directory exists in the virtual view; never raises'))
CONTRACTS.append(Contract(
    'file_builder.build_dirs.BuildDirs.is_removed_norm_case', props=['C04'], trusted=True,
    params={'self': OBJ('BuildDirs'), 'norm_cased_dir': STR}, returns=BOOL,
    ensures=lambda c: no_effect(c) + [
        ('only-dirs-of-a-build-can-be-gone', Implies(c.res, And(
            Not(SH['BuildDirs._build_dir_counts'].osort().is_some(
                c.old('BuildDirs._build_dir_counts', c.self)[c.norm_cased_dir])),
            Or(c.old('BuildDirs._maybe_removed_dirs', c.self)[c.norm_cased_dir],
               c.old('BuildDirs._removed_dirs', c.self)[c.norm_cased_dir]))))],
    modifies=lambda c: [(f, c.self) for f in BD_MEMO],
    notes='directory scan (recursive over the real tree): bounded stand-in'))

CONTRACTS.append(Contract(
    M + 'is_file', props=['C04', 'C05', 'C03'],
    params={'self': EX, 'filename': STR, 'created_files': CFO}, returns=BOOL,
    ensures=lambda c: no_effect(c) + [
        ('is-the-virtual-view', c.res == vfile(c, c.filename, c.created_files))],
    modifies=lambda c: BD_MEMO))

# gone(d, v): "directory d was made by a build and is absent from the virtual view in virtual
# state v" - the answer of BuildDirs' scan (trusted, bounded stand-in); a function of the virtual
# state only, so two queries without an intervening change agree
GONE = z3.Function('virtually_gone', StrS, z3.IntSort(), z3.BoolSort())


def vdir(c, p, cf, st='old'):
    """the statement's virtual "is a directory" """
    g = c.gold if st == 'old' else c.gnew
    rd = getattr(c, st)
    base = And(g('fs_kind')[p] == K_DIR, Not(GONE(p, g('vstate'))))
    if cf is None:
        return base
    o = OCF.val(cf)
    return If(And(OCF.is_some(cf), rd(CF.D_, o)[p]), True,
              If(And(OCF.is_some(cf), rd(CF.F_, o)[p]), False, base))


def vexists(c, p, cf):
    return Or(vfile(c, p, cf), vdir(c, p, cf))


# "d is a directory recorded as created by the previous build, or created by this build": ghost
# predicate; BuildDirs' memo sets only ever hold such directories (trusted invariant of BuildDirs,
# bounded stand-in)
BUILD_MADE = z3.Function('build_made_dir', StrS, z3.BoolSort())
# patch the trusted scan contract with that fact
for _c in CONTRACTS:
    if _c.target.endswith('BuildDirs.is_removed_norm_case'):
        _old = _c.ensures
        _c.ensures = (lambda old: (lambda c: old(c) + [
            ('gone-dirs-were-made-by-a-build', Implies(c.res, BUILD_MADE(c.norm_cased_dir))),
            ('is-the-scan-result', c.res == GONE(c.norm_cased_dir, c.gold('vstate')))]))(_old)


def cf_says_dir(c, p, cf):
    o = OCF.val(cf)
    return And(OCF.is_some(cf), c.old(CF.D_, o)[p])


def cf_says_file(c, p, cf):
    o = OCF.val(cf)
    return And(OCF.is_some(cf), c.old(CF.F_, o)[p])


CONTRACTS.append(Contract(
    M + 'is_dir', props=['C04', 'C05', 'C03'],
    params={'self': EX, 'filename': STR, 'created_files': CFO}, returns=BOOL,
    ensures=lambda c: no_effect(c) + [
        ('overlay-directories-are-directories',
         Implies(cf_says_dir(c, c.filename, c.created_files), c.res)),
        ('overlay-files-are-not-directories',
         Implies(And(Not(cf_says_dir(c, c.filename, c.created_files)),
                     cf_says_file(c, c.filename, c.created_files)), Not(c.res))),
        ('a-directory-exists-on-disk-or-in-the-overlay',
         Implies(c.res, Or(cf_says_dir(c, c.filename, c.created_files),
                           c.gold('fs_kind')[c.filename] == K_DIR))),
        ('a-real-directory-is-hidden-only-if-a-build-made-it',
         Implies(And(Not(c.res), c.gold('fs_kind')[c.filename] == K_DIR,
                     Not(cf_says_file(c, c.filename, c.created_files))),
                 BUILD_MADE(c.filename)), ['C03', 'C04']),
        ('is-the-virtual-view', c.res == vdir(c, c.filename, c.created_files), ['C04', 'C05']),
    ],
    modifies=lambda c: BD_MEMO))

CONTRACTS.append(Contract(
    M + 'exists', props=['C04', 'C05'],
    params={'self': EX, 'filename': STR, 'created_files': CFO}, returns=BOOL,
    ensures=lambda c: no_effect(c) + [
        ('is-file-or-dir-in-the-virtual-view', c.res == vexists(c, c.filename, c.created_files))],
    modifies=lambda c: BD_MEMO))


# ===================================================================================================
# comparison results (C13)
fs_size = z3.Function('fs_size', StrS, z3.IntSort(), z3.IntSort())
fs_mtime = z3.Function('fs_mtime', StrS, z3.IntSort(), z3.IntSort())
HC = 'SimpleOperationExecutor._hash_cache'
OHC = SH[HC].osort()
HCT = SH[HC].args[1].sort()
from pyvc.sorts import str_lit, KVs      # noqa: E402


def metadata_value(c, p):
    """{'size': st_size, 'timeNs': st_mtime_ns} of the file as it is now (sanitized: keys sorted)"""
    ep = c.gold('fs_epoch')
    return PyV.PDict(J.kput(str_lit('timeNs'), PyV.PInt(fs_mtime(p, ep)),
                            J.kput(str_lit('size'), PyV.PInt(fs_size(p, ep)), KVs.knil)))


CONTRACTS.append(Contract(
    M + '_file_metadata', props=['C13'],
    params={'self': EX, 'filename': STR}, returns=PYV, ret_fresh=True,
    ensures=lambda c: no_effect(c) + [
        ('size-and-mtime-of-the-file', c.res == metadata_value(c, c.filename)),
        ('was-a-regular-file', c.gold('fs_kind')[c.filename] == K_FILE)],
    raises=[ExcSpec('IsADirectoryError', ensures=lambda c: no_effect(c) + [
        ('was-a-directory', c.gold('fs_kind')[c.filename] == K_DIR)]),
            ExcSpec('FileNotFoundError', ensures=lambda c: no_effect(c) + [
                ('was-absent', c.gold('fs_kind')[c.filename] == K_ABSENT)]),
            ExcSpec('NotADirectoryError', ensures=lambda c: no_effect(c) + [
                ('was-absent-below-a-regular-file', c.gold('fs_kind')[c.filename] == K_ABSENT)]),
            ExcSpec('OtherOSError', ensures=no_effect)],
    modifies=NOTHING))

CONTRACTS.append(Contract(
    M + '_file_hash', props=['C13'],
    params={'self': EX, 'filename': STR}, returns=STR,
    ensures=lambda c: no_effect(c) + [
        ('was-a-regular-file', c.gold('fs_kind')[c.filename] == K_FILE),
        ('memo-served-only-for-the-same-build-state', Or(
            # freshly hashed: the memo now holds this value with the current built-flag
            And(OHC.is_some(c.new(HC, c.self)[c.filename]),
                HCT.t0(OHC.val(c.new(HC, c.self)[c.filename])) == c.res,
                HCT.t1(OHC.val(c.new(HC, c.self)[c.filename])) == CA.OO.is_some(c.old(
                    CA.NCF_, c.old('SimpleOperationExecutor._new_cache', c.self))[c.filename])),
            # served from the memo: entry present, same built-flag, unchanged
            And(OHC.is_some(c.old(HC, c.self)[c.filename]),
                HCT.t0(OHC.val(c.old(HC, c.self)[c.filename])) == c.res,
                HCT.t1(OHC.val(c.old(HC, c.self)[c.filename])) == CA.OO.is_some(c.old(
                    CA.NCF_, c.old('SimpleOperationExecutor._new_cache', c.self))[c.filename]),
                c.new(HC, c.self) == c.old(HC, c.self))))],
    raises=[ExcSpec('IsADirectoryError', ensures=lambda c: no_effect(c) + [
        ('was-a-directory', c.gold('fs_kind')[c.filename] == K_DIR)]),
            ExcSpec('FileNotFoundError', ensures=lambda c: no_effect(c) + [
                ('was-absent', c.gold('fs_kind')[c.filename] == K_ABSENT)]),
            ExcSpec('NotADirectoryError', ensures=lambda c: no_effect(c) + [
                ('was-absent-below-a-regular-file', c.gold('fs_kind')[c.filename] == K_ABSENT)]),
            ExcSpec('OtherOSError', ensures=no_effect)],
    modifies=lambda c: [(HC, c.self)],
    loops={0: LoopSpec(modifies=NOTHING,
                       inv=lambda c: [('no-fs-effect', c.gnew('eff') == c.gentry('eff')),
                                      ('no-callback', c.gnew('ncalls') == c.gentry('ncalls')),
                                      ('fs-unchanged', c.gnew('fs_kind') == c.gentry('fs_kind')),
                                      ('memo-unchanged', c.new(HC, c.self) == c.entry(HC, c.self))
                                      ])},
))

CONTRACTS.append(Contract(
    M + 'file_comparison_result', props=['C13'],
    params={'self': EX, 'filename': STR, 'file_comparison_name': STR}, returns=PYV,
    ensures=lambda c: no_effect(c) + [
        ('not-None', Not(J.is_none(c.res))), ('json', J.sanitized(c.res)),
        ('was-a-file', c.gold('fs_kind')[c.filename] == K_FILE),
        ('metadata-mode-is-size-and-mtime', Implies(
            c.file_comparison_name == str_lit('METADATA'),
            c.res == metadata_value(c, c.filename))),
        ('hash-mode-is-a-string', Implies(c.file_comparison_name == str_lit('HASH'),
                                          J.is_str(c.res)))],
    raises=[ExcSpec('FileNotFoundError', ensures=lambda c: no_effect(c) + [
        ('was-absent', c.gold('fs_kind')[c.filename] == K_ABSENT)]),
            ExcSpec('IsADirectoryError', ensures=lambda c: no_effect(c) + [
                ('was-a-directory', c.gold('fs_kind')[c.filename] == K_DIR)]),
            ExcSpec('NotADirectoryError', ensures=lambda c: no_effect(c) + [
                ('was-absent-below-a-regular-file', c.gold('fs_kind')[c.filename] == K_ABSENT)]),
            ExcSpec('OtherOSError', ensures=no_effect),
            ExcSpec('ValueError', when=lambda c: And(
                c.file_comparison_name != str_lit('METADATA'),
                c.file_comparison_name != str_lit('HASH')), ensures=no_effect)],
    modifies=lambda c: [(HC, c.self)],
    lemmas=['kput_sorted', 'kput_sanitized', 'STR_ORDER']))


# ===================================================================================================
# the remaining queries (C04.V5-V8, C05.E5)
def unchanged_view(c):
    return [('virtual-state-unchanged', c.gnew('vstate') == c.gold('vstate'))]


CONTRACTS.append(Contract(
    M + '_assert_exists', props=['C04'],
    params={'self': EX, 'filename': STR, 'created_files': CFO},
    ensures=lambda c: no_effect(c) + unchanged_view(c),
    raises=[ExcSpec('FileNotFoundError',
                    when=lambda c: Not(vexists(c, c.filename, c.created_files)),
                    ensures=lambda c: no_effect(c) + unchanged_view(c))],
    modifies=lambda c: BD_MEMO))
CONTRACTS.append(Contract(
    M + '_assert_is_dir', props=['C04'],
    params={'self': EX, 'filename': STR, 'created_files': CFO},
    ensures=lambda c: no_effect(c) + unchanged_view(c),
    raises=[ExcSpec('NotADirectoryError',
                    when=lambda c: And(Not(vdir(c, c.filename, c.created_files)),
                                       vfile(c, c.filename, c.created_files)),
                    ensures=lambda c: no_effect(c) + unchanged_view(c)),
            ExcSpec('FileNotFoundError',
                    when=lambda c: Not(vexists(c, c.filename, c.created_files)),
                    ensures=lambda c: no_effect(c) + unchanged_view(c))],
    modifies=lambda c: BD_MEMO))

CONTRACTS.append(Contract(
    M + 'read', props=['C04', 'C13', 'C05'],
    params={'self': EX, 'filename': STR, 'file_comparison_name': STR, 'created_files': CFO},
    returns=PYV,
    ensures=lambda c: no_effect(c) + [
        ('only-virtual-files-can-be-read', vfile(c, c.filename, c.created_files), ['C04']),
        ('comparison-result', And(Not(J.is_none(c.res)), J.sanitized(c.res)), ['C13'])],
    raises=[
        ExcSpec('IsADirectoryError', ensures=lambda c: no_effect(c) + [
            ('only-for-virtual-directories', Implies(
                OCF.is_none(c.created_files), vdir(c, c.filename, c.created_files)), ['C04'])]),
        ExcSpec('FileNotFoundError', ensures=lambda c: no_effect(c) + [
            ('only-for-paths-absent-from-the-virtual-view', Implies(
                OCF.is_none(c.created_files),
                Not(vexists(c, c.filename, c.created_files))), ['C04'])]),
        ExcSpec('OtherOSError', ensures=no_effect),
        ExcSpec('ValueError', when=lambda c: And(
            c.file_comparison_name != str_lit('METADATA'),
            c.file_comparison_name != str_lit('HASH')), exact=False, ensures=no_effect)],
    modifies=lambda c: BD_MEMO + [(HC, c.self)]))

CONTRACTS.append(Contract(
    M + 'get_size', props=['C04', 'C05'],
    params={'self': EX, 'filename': STR, 'created_files': CFO}, returns=INT,
    ensures=lambda c: no_effect(c) + [
        ('only-existing-paths-have-a-size', vexists(c, c.filename, c.created_files))],
    raises=[ExcSpec('FileNotFoundError', ensures=lambda c: no_effect(c) + [
        ('only-for-paths-absent-from-the-virtual-view', Implies(
            OCF.is_none(c.created_files),
            Not(vexists(c, c.filename, c.created_files))), ['C04']),
        # C05.E5: a path that exists only in the overlay of a replay must not need the real path
        ('overlay-paths-do-not-need-the-real-file-system',
         Not(Or(cf_says_dir(c, c.filename, c.created_files),
                cf_says_file(c, c.filename, c.created_files))), ['C05'])]),
        ExcSpec('OSError', ensures=no_effect)],
    modifies=lambda c: BD_MEMO))

# ---------------------------------------------------------------------------------------------------
from pyvc.sorts import pjoin, basename, str_lt, TUP      # noqa: E402
n_ = z3.Const('ex!n', StrS)
ch_ = z3.Const('ex!c', StrS)
i_, j_ = z3.Consts('ex!i ex!j', z3.IntSort())


def sorted_list(l):
    return ForAll([i_, j_], Implies(And(0 <= i_, i_ < j_, j_ < z3.Length(l)),
                                    Or(str_lt(l[i_], l[j_]), l[i_] == l[j_])))


CONTRACTS.append(Contract(
    M + '_list_dir_superset', props=['C05', 'C04'],
    params={'self': EX, 'dir_': STR, 'created_files': CFO}, returns=LIST(STR), ret_fresh=True,
    ensures=lambda c: no_effect(c) + [
        ('sorted', sorted_list(c.res), ['C05']),
        ('contains-every-real-child', ForAll([ch_], Implies(
            And(c.gold('fs_kind')[c.dir_] == K_DIR, dirname(ch_) == c.dir_, ch_ != c.dir_,
                c.gold('fs_kind')[ch_] != K_ABSENT),
            z3.Contains(c.res, z3.Unit(basename(ch_))))), ['C04'])],
    raises=[
        ExcSpec('FileNotFoundError', ensures=lambda c: no_effect(c) + [
            ('was-absent', c.gold('fs_kind')[c.dir_] == K_ABSENT),
            ('overlay-directories-do-not-need-the-real-file-system',
             Not(cf_says_dir(c, c.dir_, c.created_files)), ['C05'])]),
        ExcSpec('NotADirectoryError', ensures=lambda c: no_effect(c) + [
            ('was-a-file', c.gold('fs_kind')[c.dir_] == K_FILE),
            ('overlay-directories-do-not-need-the-real-file-system',
             Not(cf_says_dir(c, c.dir_, c.created_files)), ['C05'])]),
        ExcSpec('OtherOSError', ensures=no_effect)],
    modifies=NOTHING,
    local_types={'subfiles': LIST(STR), 'norm_cased_subfiles': SET(STR)},
    loops={0: LoopSpec(modifies=NOTHING, inv=lambda c: [
        ('no-fs-effect', c.gnew('eff') == c.gentry('eff')),
        ('no-callback', c.gnew('ncalls') == c.gentry('ncalls')),
        ('fs-unchanged', c.gnew('fs_kind') == c.gentry('fs_kind')),
        ('real-children-kept', ForAll([ch_], Implies(
            And(c.gnew('fs_kind')[c.dir_] == K_DIR, dirname(ch_) == c.dir_, ch_ != c.dir_,
                c.gnew('fs_kind')[ch_] != K_ABSENT),
            z3.Contains(c.v('subfiles'), z3.Unit(basename(ch_))))))])},
    lemmas=['STR_ORDER']))

CONTRACTS.append(Contract(
    M + 'list_dir', props=['C04', 'C05'],
    params={'self': EX, 'dir_': STR, 'created_files': CFO}, returns=LIST(STR), ret_fresh=True,
    ensures=lambda c: no_effect(c) + unchanged_view(c) + [
        ('only-directories-can-be-listed', vdir(c, c.dir_, c.created_files), ['C04']),
        ('every-listed-name-exists', ForAll([n_], Implies(
            z3.Contains(c.res, z3.Unit(n_)),
            vexists(c, pjoin(c.dir_, n_), c.created_files))), ['C04']),
        # C04 ("list_dir(d) is the set of names n with exists(d/n)"), the other inclusion, for
        # queries made during the build (no replay overlay): every child that exists is listed
        ('every-existing-child-is-listed', Implies(OCF.is_none(c.created_files), ForAll(
            [ch_], Implies(And(dirname(ch_) == c.dir_, ch_ != c.dir_,
                               vexists(c, ch_, c.created_files)),
                           z3.Contains(c.res, z3.Unit(basename(ch_)))))), ['C04']),
    ],
    raises=[
        ExcSpec('NotADirectoryError', ensures=lambda c: no_effect(c) + [
            ('only-for-virtual-files', Implies(OCF.is_none(c.created_files), And(
                Not(vdir(c, c.dir_, c.created_files)), vfile(c, c.dir_, c.created_files))),
             ['C04'])]),
        ExcSpec('FileNotFoundError', ensures=lambda c: no_effect(c) + [
            ('only-for-paths-absent-from-the-virtual-view', Implies(
                OCF.is_none(c.created_files), Not(vexists(c, c.dir_, c.created_files))),
             ['C04'])]),
        ExcSpec('OtherOSError', ensures=no_effect)],
    modifies=lambda c: BD_MEMO,
    local_types={'subfiles': LIST(STR)},
    loops={0: LoopSpec(modifies=lambda c: BD_MEMO, inv=lambda c: [
        ('no-fs-effect', c.gnew('eff') == c.gentry('eff')),
        ('no-callback', c.gnew('ncalls') == c.gentry('ncalls')),
        ('fs-unchanged', c.gnew('fs_kind') == c.gentry('fs_kind')),
        ('virtual-state-unchanged', c.gnew('vstate') == c.gentry('vstate')),
        ('collected-exist', ForAll([n_], Implies(
            z3.Contains(c.v('subfiles'), z3.Unit(n_)),
            Or(vfile(c, pjoin(c.dir_, n_), c.created_files, 'new'),
               vdir(c, pjoin(c.dir_, n_), c.created_files, 'new'))))),
        ('visited-existing-names-are-collected', ForAll([n_], Implies(
            And(c.loop['seen'][n_],
                Or(vfile(c, pjoin(c.dir_, n_), c.created_files, 'new'),
                   vdir(c, pjoin(c.dir_, n_), c.created_files, 'new'))),
            z3.Contains(c.v('subfiles'), z3.Unit(n_)))))])},
    lemmas=['PATHS'],
))


# ===================================================================================================
# walk (C04: "walk agrees with list_dir/is_dir/is_file recursively")
WENT = TUP(STR, LIST(STR), LIST(STR))        # (directory, subdirectories, subfiles)
WS = WENT.sort()
wi_ = z3.Const('ex!wi', z3.IntSort())


def entry_ok(c, e, cf, st='old'):
    """every name listed under a directory is what the entry says it is, in the virtual view"""
    d, ds, fs = WS.t0(e), WS.t1(e), WS.t2(e)
    return And(
        ForAll([n_], Implies(z3.Contains(fs, z3.Unit(n_)), vfile(c, pjoin(d, n_), cf, st))),
        ForAll([n_], Implies(z3.Contains(ds, z3.Unit(n_)), vdir(c, pjoin(d, n_), cf, st))))


we_ = z3.Const('ex!we', WS)
# "entry e agrees with the virtual view", as a predicate symbol over (entry, executor, overlay,
# virtual state, real file system): its definition is the `def-` clause of the contracts below, so
# obligations about lists of entries do not drag the (large) view formula along
EOK = z3.Function('walk_entry_ok', WS, z3.DeclareSort('Obj') if False else EX.sort(), CFO.sort(),
                  z3.IntSort(), z3.ArraySort(StrS, K_FILE.sort()), z3.BoolSort())


def eok(c, e, st='old'):
    g = c.gold if st == 'old' else c.gnew
    return EOK(e, c.self, c.created_files, g('vstate'), g('fs_kind'))


def eok_def(c):
    return [('def-entry-ok', ForAll([we_], eok(c, we_) == entry_ok(c, we_, c.created_files)))]


def new_entries_ok(c, old_results, new_results, st='old'):
    """membership form (quantified facts over seq.nth are not instantiated reliably): every entry
    of the new list that is not an entry of the old one agrees with the view"""
    return ForAll([we_], Implies(
        And(z3.Contains(new_results, z3.Unit(we_)), Not(z3.Contains(old_results, z3.Unit(we_)))),
        eok(c, we_, st)))


def walk_growth(c):
    r0, r1 = c.results, c.out('results')
    return [
        ('results-only-grow', z3.PrefixOf(r0, r1), ['C04']),
        ('at-least-this-directory-is-reported', z3.Length(r1) > z3.Length(r0), ['C04']),
        # C04 ("walk agrees with list_dir/is_dir/is_file recursively"): in every entry added, each
        # listed file is a file and each listed subdirectory a directory of the virtual view
        ('new-entries-agree-with-the-view', new_entries_ok(c, r0, r1), ['C04', 'C05']),
        ('this-directory-first-or-last', If(
            c.top_down, WS.t0(r1[z3.Length(r0)]) == c.dir_,
            WS.t0(r1[z3.Length(r1) - 1]) == c.dir_), ['C04']),
    ]


APPEND_WALK = Contract(
    M + '_append_walk', props=['C04', 'C05'],
    params={'self': EX, 'dir_': STR, 'top_down': BOOL, 'created_files': CFO,
            'results': LIST(WENT)},
    requires=eok_def,
    ensures=lambda c: no_effect(c) + unchanged_view(c) + walk_growth(c),
    raises=[],                # OSErrors of the listing are swallowed: an unreadable directory is empty
    modifies=lambda c: BD_MEMO,
    local_types={'subdirs': LIST(STR), 'subfiles': LIST(STR), 'list_dir_superset': LIST(STR)},
    loops={
        0: LoopSpec(modifies=lambda c: BD_MEMO, inv=lambda c: [
            ('no-fs-effect', c.gnew('eff') == c.gentry('eff')),
            ('no-callback', c.gnew('ncalls') == c.gentry('ncalls')),
            ('fs-unchanged', c.gnew('fs_kind') == c.gentry('fs_kind')),
            ('virtual-state-unchanged', c.gnew('vstate') == c.gentry('vstate')),
            ('collected-files-are-files', ForAll([n_], Implies(
                z3.Contains(c.v('subfiles'), z3.Unit(n_)),
                vfile(c, pjoin(c.dir_, n_), c.created_files, 'new')))),
            ('collected-dirs-are-dirs', ForAll([n_], Implies(
                z3.Contains(c.v('subdirs'), z3.Unit(n_)),
                vdir(c, pjoin(c.dir_, n_), c.created_files, 'new'))))]),
        1: LoopSpec(modifies=lambda c: BD_MEMO, inv=lambda c: [
            ('no-fs-effect', c.gnew('eff') == c.gentry('eff')),
            ('no-callback', c.gnew('ncalls') == c.gentry('ncalls')),
            ('fs-unchanged', c.gnew('fs_kind') == c.gentry('fs_kind')),
            ('virtual-state-unchanged', c.gnew('vstate') == c.gentry('vstate')),
            ('results-only-grow', z3.PrefixOf(c.results, c.v('results'))),
            ('entries-so-far-agree-with-the-view', new_entries_ok(c, c.results, c.v('results'))),
            ('own-entry-first-when-top-down', Implies(c.top_down, And(
                z3.Length(c.v('results')) > z3.Length(c.results),
                WS.t0(c.v('results')[z3.Length(c.results)]) == c.dir_)))]),
    },
    notes='recursive; termination not verified')
APPEND_WALK.inout = {'results': LIST(WENT)}
CONTRACTS.append(APPEND_WALK)

CONTRACTS.append(Contract(
    M + 'walk', props=['C04', 'C05'],
    params={'self': EX, 'dir_': STR, 'top_down': BOOL, 'created_files': CFO},
    returns=LIST(WENT),
    requires=eok_def,
    ensures=lambda c: no_effect(c) + unchanged_view(c) + [
        ('empty-unless-a-directory-of-the-view', Implies(
            Not(vdir(c, c.dir_, c.created_files)), z3.Length(c.res) == 0), ['C04']),
        ('a-directory-is-reported', Implies(
            vdir(c, c.dir_, c.created_files), z3.Length(c.res) > 0), ['C04']),
        # C04 ("walk agrees with list_dir/is_dir/is_file recursively")
        ('every-entry-agrees-with-the-view', ForAll([we_], Implies(
            z3.Contains(c.res, z3.Unit(we_)), eok(c, we_))), ['C04', 'C05']),
        ('the-directory-itself-first-or-last', Implies(
            vdir(c, c.dir_, c.created_files), If(
                c.top_down, WS.t0(c.res[0]) == c.dir_,
                WS.t0(c.res[z3.Length(c.res) - 1]) == c.dir_)), ['C04']),
    ],
    raises=[],
    modifies=lambda c: BD_MEMO,
    local_types={'results': LIST(WENT)},
    notes='completeness (every directory of the view below dir_ is reported) is not proved'))

#!/bin/bash
# confirm_seed.sh <worktree> <seed dir>: tests pass with patch, demo fails with patch, passes without
wt=$1; sd=$2
cd $wt || exit 9
git checkout -q -- . ; git status --short | grep -v SEED
git apply $sd/patch.diff || { echo "APPLY-FAILED"; exit 1; }
t=$(/venv/bin/python -m pytest -q -p no:cacheprovider --timeout=900 2>&1 | tail -1)
(cd /tmp && PYTHONPATH=$wt timeout 300 /venv/bin/python $sd/demo.py >/dev/null 2>&1); with=$?
git checkout -q -- .
(cd /tmp && PYTHONPATH=$wt timeout 300 /venv/bin/python $sd/demo.py >/dev/null 2>&1); without=$?
echo "tests: $t | demo with patch exit=$with | without patch exit=$without"

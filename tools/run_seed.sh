#!/bin/bash
# run_seed.sh <patch.diff> <PID> [PID...]: apply to /repo, run the checks, undo
patch=$1; shift
cd /repo && git checkout -q -- . && git apply $patch || { echo APPLY-FAILED; exit 9; }
for pid in "$@"; do
  out=$(cd /verif && timeout 1200 ./check $pid 2>&1); rc=$?
  echo "$out" | grep -E "^VIOLATION|^KNOWN" | cut -c1-230 | head -4
  echo "$out" | grep -E "^$pid:" 
  echo "  -> $pid exit=$rc"
done
cd /repo && git checkout -q -- .

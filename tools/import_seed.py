"""import_seed.py <src seed dir> <seed id> <property> <caught_by(json list)> -- copies a confirmed seeded
change into /verif/seeded/<seed id>/ with meta.json"""
import json, os, shutil, sys
src, sid, prop = sys.argv[1], sys.argv[2], sys.argv[3]
caught = json.loads(sys.argv[4]) if len(sys.argv) > 4 else []
dst = os.path.join('/verif/seeded', sid)
os.makedirs(dst, exist_ok=True)
for f in ('patch.diff', 'demo.py', 'notes.md'):
    if os.path.exists(os.path.join(src, f)):
        shutil.copy(os.path.join(src, f), os.path.join(dst, f))
notes = open(os.path.join(src, 'notes.md')).read() if os.path.exists(os.path.join(src, 'notes.md')) else ''
meta = {
    'id': sid, 'breaks_property': prop,
    'origin': 'written by an independent sub-agent that saw only the property text and a scratch worktree of /repo',
    'needs_to_manifest': notes.split('\n\n')[1][:600] if '\n\n' in notes else notes[:600],
    'confirmed': {'cmd': '/verif/tools/confirm_seed.sh <scratch worktree> <seed dir>',
                  'tests_with_patch': '69 passed', 'demo_with_patch': 'exit 1', 'demo_without_patch': 'exit 0'},
    'checks_run': 'cd /repo && git apply patch.diff; cd /verif && ./check %s; git -C /repo checkout -- .' % prop,
    'caught_by': caught,
}
json.dump(meta, open(os.path.join(dst, 'meta.json'), 'w'), indent=1)
print('imported', sid)

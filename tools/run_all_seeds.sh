#!/bin/bash
# run_all_seeds.sh [seed-id-prefix]: every seeded change against the check of the property it was
# written for, on a scratch copy of /repo (PYVC_REPO override; /repo itself is not touched).
# Evidence files are saved and restored (a run on a changed tree is not evidence for /repo).
pre=${1:-}
work=$(mktemp -d /tmp/seedrun.XXXXXX)
cp -r /verif/evidence $work/evidence.save
fail=0
for d in /verif/seeded/${pre}*/; do
  sid=$(basename $d); pid=${sid%%-*}
  rm -rf $work/repo; mkdir -p $work/repo; cp -r /repo/file_builder $work/repo/
  (cd $work/repo && patch -p1 -s < $d/patch.diff) || { echo "$sid APPLY-FAILED"; fail=1; continue; }
  out=$(cd /verif && PYVC_REPO=$work/repo timeout 1800 ./check $pid 2>&1); rc=$?
  v=$(echo "$out" | grep -E "^VIOLATION" | head -1 | sed 's/.*obligation=//' | cut -c1-110)
  echo "$sid exit=$rc $v"
  [ $rc -eq 1 ] || fail=1
done
rm -rf /verif/evidence; cp -r $work/evidence.save /verif/evidence
rm -rf $work /verif/replays/C*
exit $fail

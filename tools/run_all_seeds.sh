#!/bin/bash
# run_all_seeds.sh [seed-id-prefix]: every seeded change against the check of the property it was
# written for, on a scratch copy of /repo (PYVC_REPO override; /repo itself is not touched).
# The checks run from a scratch copy of /verif as well, so the evidence files of /verif (which
# must describe /repo) are never overwritten by a run on a changed tree.
pre=${1:-}
work=$(mktemp -d /tmp/seedrun.XXXXXX)
mkdir -p $work/verif
(cd /verif && cp -r pyvc contracts spec replay bounded tools check known_findings.json \
   expected_obligations.json properties.jsonl $work/verif/)
mkdir -p $work/verif/evidence $work/verif/replays
# snapshot of /repo as it is now: later commits to /repo do not disturb a running sweep
mkdir -p $work/base; cp -r /repo/file_builder $work/base/
fail=0
for d in /verif/seeded/${pre}*/; do
  sid=$(basename $d); pid=${sid%%-*}
  rm -rf $work/repo; mkdir -p $work/repo; cp -r $work/base/file_builder $work/repo/
  (cd $work/repo && patch -p1 -s < $d/patch.diff) || { echo "$sid APPLY-FAILED"; fail=1; continue; }
  out=$(cd $work/verif && PYVC_REPO=$work/repo timeout 1800 ./check $pid 2>&1); rc=$?
  v=$(echo "$out" | grep -E "^VIOLATION" | head -1 | sed 's/.*obligation=//' | cut -c1-110)
  echo "$sid exit=$rc $v"
  [ $rc -eq 1 ] || fail=1
done
rm -rf $work
exit $fail

#!/bin/bash
# run_benign.sh: behaviour-preserving refactorings must never be reported as violations
work=$(mktemp -d /tmp/benignrun.XXXXXX)
mkdir -p $work/verif
(cd /verif && cp -r pyvc contracts spec replay bounded tools check known_findings.json \
   expected_obligations.json properties.jsonl $work/verif/)
mkdir -p $work/verif/evidence $work/verif/replays
# snapshot of /repo as it is now: later commits to /repo do not disturb a running sweep
mkdir -p $work/base; cp -r /repo/file_builder $work/base/
bad=0
for d in ${BENIGN_ONLY:-/verif/benign/b*.diff}; do
  n=$(basename $d .diff)
  rm -rf $work/repo; mkdir -p $work/repo; cp -r $work/base/file_builder $work/repo/
  (cd $work/repo && patch -p1 -s < $d) || { echo "$n APPLY-FAILED"; bad=1; continue; }
  res=""
  for pid in ${BENIGN_PIDS:-C01 C02 C03 C04 C05 C06 C07 C08 C10 C11 C12 C13 C14 C15 C16 C17 C18}; do
    out=$(cd $work/verif && PYVC_REPO=$work/repo timeout 1800 ./check $pid 2>&1); rc=$?
    [ $rc -eq 1 ] && { bad=1; echo "$n $pid FALSE ALARM: $(echo "$out" | grep ^VIOLATION | head -1 | cut -c1-200)"; }
    [ $rc -eq 3 ] && { bad=1; echo "$n $pid CHECKER ERROR"; }
    res="$res$rc"
  done
  echo "$n exits=$res"
done
rm -rf $work
exit $bad

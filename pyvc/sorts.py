"""z3 sorts, type descriptors and symbolic value classes used by pyvc.

Everything here is built once per process (z3 main context).
"""
import z3

# ---------------------------------------------------------------------------------------------
# basic sorts

StrS = z3.DeclareSort('Str')          # every Python str (paths, names, messages); content opaque
ObjS = z3.DeclareSort('Obj')          # heap references (instances of repo classes)
IntS = z3.IntSort()
BoolS = z3.BoolSort()
RealS = z3.RealSort()

KindS, (K_ABSENT, K_FILE, K_DIR) = z3.EnumSort('Kind', ['Absent', 'File', 'Dir'])

EXC_CLASSES = [
    'BaseException', 'KeyboardInterrupt',     # KeyboardInterrupt stands for every non-Exception
    'Exception', 'RuntimeError', 'TypeError', 'ValueError', 'KeyError', 'AttributeError',
    'IndexError', 'EOFError', 'ZlibError',
    'OSError', 'FileNotFoundError', 'IsADirectoryError', 'NotADirectoryError', 'FileExistsError',
    'PermissionError',
    'OtherOSError',     # any other OSError subclass (ENOSPC, ENAMETOOLONG, user defined, ...)
    'UserError',        # any Exception subclass that is none of the above
]
EXC_PARENT = {
    'BaseException': None, 'KeyboardInterrupt': 'BaseException',
    'Exception': 'BaseException', 'RuntimeError': 'Exception', 'TypeError': 'Exception',
    'ValueError': 'Exception', 'KeyError': 'Exception', 'AttributeError': 'Exception',
    'IndexError': 'Exception', 'EOFError': 'Exception', 'ZlibError': 'Exception',
    'OSError': 'Exception', 'FileNotFoundError': 'OSError', 'IsADirectoryError': 'OSError',
    'NotADirectoryError': 'OSError', 'FileExistsError': 'OSError', 'PermissionError': 'OSError',
    'OtherOSError': 'OSError', 'UserError': 'Exception',
}
ExcClsS, _exc_consts = z3.EnumSort('ExcCls', EXC_CLASSES)
EXC = dict(zip(EXC_CLASSES, _exc_consts))


def exc_subclasses(name):
    """All modelled classes that are `name` or inherit from it."""
    out = []
    for c in EXC_CLASSES:
        d = c
        while d is not None:
            if d == name:
                out.append(c)
                break
            d = EXC_PARENT[d]
    return out


def exc_issub(cls_term, name):
    return z3.Or([cls_term == EXC[c] for c in exc_subclasses(name)])


REPO_CLASSES = [
    'CreatedFiles', 'BuildDirs', 'Cache', 'FileBackups', 'FileBuilder',
    'SimpleOperationExecutor', 'SimpleOperation', 'BuildFileOperation', 'SubbuildOperation',
    'Lock', 'NullContext', 'FileComparison', 'FileObj', 'Digest', 'StatResult',
]
CLS_PARENT = {
    'SimpleOperation': 'Operation', 'BuildFileOperation': 'ComplexOperation',
    'SubbuildOperation': 'ComplexOperation', 'ComplexOperation': 'Operation', 'Operation': None,
}
ClsS, _cls_consts = z3.EnumSort('Cls', REPO_CLASSES)
CLS = dict(zip(REPO_CLASSES, _cls_consts))
cls_of = z3.Function('cls_of', ObjS, ClsS)


def cls_subclasses(name):
    out = []
    for c in REPO_CLASSES:
        d = c
        while d is not None:
            if d == name:
                out.append(c)
                break
            d = CLS_PARENT.get(d)
    return out


def cls_isinstance(obj_term, name):
    subs = cls_subclasses(name)
    if not subs:
        return z3.BoolVal(False)
    return z3.Or([cls_of(obj_term) == CLS[c] for c in subs])


# ---------------------------------------------------------------------------------------------
# JSON / Python value universe (cons lists: measured to be what z3 handles in ms)

PyV = z3.Datatype('PyV')
PyVs = z3.Datatype('PyVs')
KVs = z3.Datatype('KVs')
PyV.declare('PNone')
PyV.declare('PBool', ('pb', BoolS))
PyV.declare('PInt', ('pi', IntS))
PyV.declare('PFloat', ('pr', RealS))          # finite floats, as reals; -0.0 identified with 0.0
PyV.declare('PInf', ('pneg', BoolS))          # +inf / -inf
PyV.declare('PNaN')
PyV.declare('PStr', ('ps', StrS))
PyV.declare('PList', ('litems', PyVs))
PyV.declare('PTuple', ('titems', PyVs))
PyV.declare('PDict', ('kvs', KVs))
# instance of a proper subclass of str/int/float/list/tuple/dict: base value + identity of the class
PyV.declare('PSub', ('sbase', PyV), ('scls', IntS))
PyV.declare('POther', ('oid', IntS))          # anything json cannot encode
PyVs.declare('nil')
PyVs.declare('cons', ('hd', PyV), ('tl', PyVs))
KVs.declare('knil')
KVs.declare('kcons', ('kk', PyV), ('kv', PyV), ('krest', KVs))
PyV, PyVs, KVs = z3.CreateDatatypes(PyV, PyVs, KVs)

# dictionary keys built from hashable forms: Python looks keys up by ==/hash, so two PyV terms that
# are == (1, 1.0, True) must select the same slot; hkey maps a hashable PyV to its slot
HKeyS = z3.DeclareSort('HKey')
hkey = z3.Function('hkey', PyV, HKeyS)

# ---------------------------------------------------------------------------------------------
# option sorts (Python "x or None")

_opt_cache = {}


def OptSort(sort):
    key = str(sort) if sort.kind() in (z3.Z3_ARRAY_SORT, z3.Z3_SEQ_SORT) else sort.name()
    if key in _opt_cache:
        return _opt_cache[key]
    d = z3.Datatype('Opt_' + ''.join(ch if ch.isalnum() else '_' for ch in key))
    d.declare('none')
    d.declare('some', ('val', sort))
    d = d.create()
    _opt_cache[key] = d
    return d


_tup_cache = {}


def TupSort(sorts):
    key = '_'.join(''.join(ch if ch.isalnum() else '_' for ch in str(x)) for x in sorts)
    if key not in _tup_cache:
        d = z3.Datatype('Tup_' + key)
        d.declare('mk', *[('t%d' % i, x) for i, x in enumerate(sorts)])
        _tup_cache[key] = d.create()
    return _tup_cache[key]


# ---------------------------------------------------------------------------------------------
# type descriptors


class Ty:
    def __init__(self, kind, *args, cls=None):
        self.kind = kind
        self.args = args
        self.cls = cls           # static class name for 'obj'
        self._sort = None

    def __repr__(self):
        if self.kind == 'obj':
            return 'obj<%s>' % self.cls
        if self.args:
            return '%s[%s]' % (self.kind, ','.join(map(repr, self.args)))
        return self.kind

    def __eq__(self, o):
        return isinstance(o, Ty) and self.kind == o.kind and self.args == o.args

    def __hash__(self):
        return hash((self.kind, self.args))

    def osort(self):
        """Option sort of a map's values (the created datatype object, with accessors)"""
        return OptSort(self.args[1].sort())

    def sort(self):
        if self._sort is None:
            k = self.kind
            if k == 'int':
                s = IntS
            elif k == 'bool':
                s = BoolS
            elif k == 'real':
                s = RealS
            elif k == 'str':
                s = StrS
            elif k == 'obj':
                s = ObjS
            elif k == 'pyv':
                s = PyV
            elif k == 'hkey':
                s = HKeyS
            elif k == 'pyvs':
                s = PyVs
            elif k == 'kvs':
                s = KVs
            elif k == 'bytes':
                s = IntS          # a bytes object is represented by its length
            elif k == 'kind':
                s = KindS
            elif k == 'exccls':
                s = ExcClsS
            elif k == 'set':
                s = z3.ArraySort(self.args[0].sort(), BoolS)
            elif k == 'map':
                s = z3.ArraySort(self.args[0].sort(), OptSort(self.args[1].sort()))
            elif k == 'list':
                s = z3.SeqSort(self.args[0].sort())
            elif k == 'opt':
                s = OptSort(self.args[0].sort())
            elif k == 'tup':
                s = TupSort([a.sort() for a in self.args])
            else:
                raise ValueError('no sort for ' + k)
            self._sort = s
        return self._sort


INT = Ty('int')
BOOL = Ty('bool')
REAL = Ty('real')
STR = Ty('str')
PYV = Ty('pyv')
HKEY = Ty('hkey')
PYVS = Ty('pyvs')
KVS = Ty('kvs')
KIND = Ty('kind')
EXCCLS = Ty('exccls')


def OBJ(cls):
    return Ty('obj', cls=cls)


def SET(t):
    return Ty('set', t)


def MAP(k, v):
    return Ty('map', k, v)


def LIST(t):
    return Ty('list', t)


def OPT(t):
    return Ty('opt', t)


def TUP(*ts):
    return Ty('tup', *ts)


# ---------------------------------------------------------------------------------------------
# path vocabulary (uninterpreted, axioms in pyvc.axioms)

dirname = z3.Function('dirname', StrS, StrS)
basename = z3.Function('basename', StrS, StrS)
pjoin = z3.Function('pjoin', StrS, StrS, StrS)
slen = z3.Function('slen', StrS, IntS)
abspath = z3.Function('abspath', StrS, StrS)       # abspath(fsdecode(x)) on the str carrier
anc = z3.Function('anc', StrS, StrS, BoolS)        # reflexive ancestor order on paths
str_lt = z3.Function('str_lt', StrS, StrS, BoolS)  # strict total order used by sorted()

_lit_cache = {}


def str_lit(s):
    """z3 constant for a Python string literal; distinctness is asserted by the query builder."""
    if s not in _lit_cache:
        _lit_cache[s] = z3.Const('lit!%d!%s' % (len(_lit_cache), ''.join(
            ch if ch.isalnum() else '_' for ch in s)[:24]), StrS)
    return _lit_cache[s]


def all_str_lits():
    return dict(_lit_cache)


_fresh_counter = [0]


def fresh(prefix, sort):
    _fresh_counter[0] += 1
    return z3.Const('%s!%d' % (prefix, _fresh_counter[0]), sort)


# allocation: every object has a fixed birth time; the ghost clock `alloc` advances with each
# allocation, an object exists iff birth(o) < clock.  (No quantifier is needed to say that the set of
# allocated objects only grows; a new object differs from every existing one by its birth time.)
birth = z3.Function('birth', ObjS, IntS)


def is_alloc(clock, o):
    return birth(o) < clock

"""Turns task results into verdict, evidence file, replay files and exit code."""
import json
from . import solve as SOLVE
import os
import subprocess
import sys
import time

from . import cli as CLI
from . import run as RUN
from . import program as PROGRAM
from .lib import MODEL_ASSUMPTIONS

ROOT = CLI.ROOT

TRUSTED_BASE = [
    'z3 5.1.0 (python3-vt) and cvc5 1.0.3 as SMT back ends',
    'pyvc itself: AST interpreter /verif/pyvc/engine.py and the library models /verif/pyvc/lib*.py '
    '(mitigated by the seeded-change tests under /verif/seeded and the mutant runs recorded in DESIGN.md)',
    'Python semantics outside the modelled subset are rejected as unsupported, never guessed',
    'spec functions over the PyV universe are total structurally recursive definitions; their '
    'defining equations are instantiated with bounded fuel (sound: instances of true equations)',
]


def check_property(pid, tier, seed, args, t0):
    # thorough: every function under contract is verified in the same run, so that each callee
    # contract the property's functions rely on is itself discharged here (closure)
    funcs, lemmas = CLI.select_tasks(pid, all_funcs=args.record_expected or tier == 'thorough')
    C = RUN._STATE['contracts']
    tasks = [('lemma', n, seed, tier) for n in lemmas] + [('func', q, seed, tier) for q in funcs]
    results = CLI.run_pool(tasks, args.jobs)
    ok_canary = CLI.canary()

    lemma_ok = {}
    errors, unsupported = [], []
    obls = []
    functions = []
    assumed = set()
    inlined = set()
    unverified_termination = set()
    for r in results:
        kind, name = r['task']
        if r['error']:
            errors.append('%s %s: %s' % (kind, name, r['error']))
        if r['unsupported']:
            unsupported.append('%s: %s' % (name, r['unsupported']))
        for a in r['assumed']:
            assumed.add(a)
        if kind == 'lemma':
            lemma_ok[name] = (not r['error'] and r['obligations'] and
                              all(o['status'] == 'discharged' for o in r['obligations']))
        else:
            info = dict(r['info'])
            info['obligations'] = len(r['obligations'])
            functions.append(info)
            inlined.update(info.get('inlined', []))
            for ap in info.get('assumed_preconditions', []):
                assumed.add('assumed precondition (protocol): ' + ap)
            unverified_termination.update(info.get('unverified_termination', []))
        for o in r['obligations']:
            o['task'] = name
            o['lemmas_used'] = r['lemmas_used']
            obls.append(o)

    # Loop invariants are attached by loop ordinal.  If a function has another number of loops
    # than when the baseline was recorded (a comprehension turned into a loop, a loop extracted),
    # the invariants may sit on the wrong loops: what fails in that function is decided by replay
    # (weak, 10.3), never reported on the solver's word alone.
    base_loops = CLI.load_json(CLI.EXPECTED, {}).get('__loops__', {})
    loops_now = {}
    for r in results:
        kind, name = r['task']
        if kind != 'lemma' and r.get('info') and 'n_loops' in r['info']:
            loops_now[name] = r['info']['n_loops']
            if not args.record_expected and name in base_loops \
                    and base_loops[name] != r['info']['n_loops']:
                for o in r['obligations']:
                    o['weak_path'] = True
                    o['loop_count_changed'] = [base_loops[name], r['info']['n_loops']]

    # A contract may state one half of a pair whose *composition* is the property (the writers of
    # the cache-file format: C16 is about write o read).  A changed format that both halves agree
    # on breaks the half's clauses but not the property, so what fails there is decided by the
    # replay of the pair (weak, 10.3), never reported on the solver's word alone.
    if not args.record_expected:
        for r in results:
            kind, name = r['task']
            con = C.CONTRACTS.get(name) if kind != 'lemma' else None
            if con is not None and getattr(con, 'replay_decided', False):
                for o in r['obligations']:
                    o['weak_path'] = True
                    o['replay_decided'] = True

    # an obligation that relied on an unproved lemma is undecided
    def lemma_closure_ok(names):
        for n in names:
            if n in C.LEMMAS:
                if not lemma_ok.get(n, False):
                    return False
                if not lemma_closure_ok(RUN.lemma_deps(n)):
                    return False
        return True
    for o in obls:
        if o['status'] == 'discharged' and not lemma_closure_ok(o['lemmas_used']):
            o['status'] = 'undecided'
            o['reason'] = 'depends on a lemma that was not proved in this run'

    trusted_callees = set()
    short2q = {RUN._STATE['prog'].short(q): q for q in C.CONTRACTS}
    for f_ in functions:
        for cal in f_.get('callees', []):
            q = short2q.get(cal)
            if q and C.CONTRACTS[q].trusted:
                trusted_callees.add(cal + (': ' + C.CONTRACTS[q].notes if C.CONTRACTS[q].notes
                                           else ''))
    mine = [o for o in obls if CLI.relevant(pid, o['props'])]
    by_label = {}
    for o in mine:
        by_label.setdefault(CLI.agg_label(o), []).append(o)

    def label_status(os_):
        sts = set(o['status'] for o in os_)
        if 'refuted' in sts:
            return 'refuted'
        if sts == {'discharged'}:
            return 'discharged'
        return 'undecided'
    status = {l: label_status(v) for l, v in by_label.items()}

    expected_all = CLI.load_json(CLI.EXPECTED, {})
    if args.record_expected:
        # labels that exist only below a path kept because the feasibility solver gave up are
        # not expected of later runs
        expected_all[pid] = sorted(l for l, s in status.items() if s == 'discharged'
                                   and not all(o.get('uncertain_path') for o in by_label[l]))
        # baseline of the code that is NOT re-analysed on every run (see program.context_hashes);
        # --record-expected runs every function, so `inlined` is the complete set
        prog = RUN._STATE['prog']
        verified_short = set(prog.short(q) for q, c_ in C.CONTRACTS.items() if not c_.trusted)
        lp = dict(expected_all.get('__loops__', {}))
        lp.update(loops_now)
        expected_all['__loops__'] = lp
        expected_all['__context__'] = {
            'inlined': sorted(inlined),
            'modules': PROGRAM.context_hashes(verified_short | set(inlined))}
        with open(CLI.EXPECTED, 'w') as f:
            json.dump(expected_all, f, indent=1, sort_keys=True)
        print('recorded %d expected obligations for %s' % (len(expected_all[pid]), pid))
    expected = set(expected_all.get(pid, []))

    # code outside the verified bodies (class/module-level statements, signatures, defaults,
    # decorators, bodies of trusted or unanalysed functions) must be what it was when the
    # baseline was recorded: the proofs assume it
    context_changed = []
    base_ctx = expected_all.get('__context__')
    if base_ctx:
        prog = RUN._STATE['prog']
        verified_short = set(prog.short(q) for q, c_ in C.CONTRACTS.items() if not c_.trusted)
        cur_ctx = PROGRAM.context_hashes(verified_short | set(base_ctx.get('inlined', [])))
        for m in sorted(set(cur_ctx) | set(base_ctx['modules'])):
            if cur_ctx.get(m) != base_ctx['modules'].get(m):
                context_changed.append(m)

    # a known finding of a property that supports this one (cli.SUPPORTS) is the same finding here
    known = [k for k in CLI.load_json(CLI.KNOWN, {'findings': []}).get('findings', [])
             if k.get('property') == pid or k.get('property') in CLI.SUPPORTS.get(pid, ())]
    open_known = {k['obligation']: k for k in known if k.get('status') == 'open'}

    # functions that could not be analysed: their expected labels are missing -> undecided
    missing = sorted(l for l in expected if l not in status)

    replay_cache = {}

    def rkey(func, label):
        # one replay per function, except where a template orders its cases by the obligation
        for hint in ('removed-first', 'restore_all', 'cache-file-written', 'json-value-is'):
            if hint in label:
                return (func, hint)
        return func
    violations = []      # (label, representative obligation, reason)
    known_hits = []
    undecided = []
    for l, s in sorted(status.items()):
        rep = next((o for o in by_label[l] if o['status'] == 'refuted'), None) or \
            next((o for o in by_label[l] if o['status'] != 'discharged'), None)
        if s == 'discharged':
            continue
        if l in open_known:
            known_hits.append((l, open_known[l]))
            continue
        weak = all(o.get('weak_path') or o.get('uncertain_path') for o in by_label[l]
                   if o['status'] != 'discharged')
        if s == 'refuted' and not weak:
            violations.append((l, rep, 'refuted: counter-model found'))
        elif l in expected and not weak:
            violations.append((l, rep, 'regression: obligation was discharged on the baseline tree '
                               'and is no longer provable (%s)' % rep.get('reason', '?')))
        else:
            # never discharged before and no counter-model: a violation only if the replay
            # template finds a failing input on the real code, otherwise undecided
            key = rkey(rep['func'], l)
            if key not in replay_cache:
                replay_cache[key] = CLI.run_replay(pid, l, rep, tier, seed)
            if replay_cache[key].get('reproduced'):
                violations.append((l, rep, 'not provable, and the replay template found a failing '
                                   'input on the real code'))
            else:
                undecided.append((l, rep))

    # functions the interpreter could not analyse any more (construct outside the subset) and whose
    # obligations were discharged on the baseline: undecided, unless the replay template of the
    # function finds a failing input on the real code
    missing_by_func = {}
    for l in missing:
        missing_by_func.setdefault(l.split('/')[0], []).append(l)
    still_missing = []
    for fn, labels in sorted(missing_by_func.items()):
        rep = {'func': fn, 'kind': 'missing', 'label': 'analysable', 'name': labels[0],
               'status': 'undecided', 'model': None,
               'reason': 'function no longer within the verified subset: '
                         + '; '.join(u for u in unsupported if fn.split('#')[0] in u)[:300]}
        if fn not in replay_cache:
            replay_cache[fn] = CLI.run_replay(pid, labels[0], rep, tier, seed)
        if replay_cache[fn].get('reproduced'):
            violations.append((labels[0], rep, 'obligations of %s can no longer be generated, and '
                               'the replay template found a failing input on the real code' % fn))
        else:
            still_missing.extend(labels)
    missing = still_missing

    context_undecided = []
    for m in context_changed:
        lab = 'context/%s.code-outside-the-verified-bodies-unchanged' % m
        rep = {'func': 'context:' + m, 'kind': 'context', 'label': lab, 'name': lab,
               'status': 'undecided', 'model': None,
               'reason': 'module %s changed outside the function bodies that are re-verified on '
                         'every run (class/module-level code, a signature or default, a decorator, '
                         'or the body of a trusted / unanalysed function)' % m}
        if ('context', pid) not in replay_cache:
            replay_cache[('context', pid)] = CLI.run_replay(pid, lab, rep, tier, seed)
        if replay_cache[('context', pid)].get('reproduced'):
            violations.append((lab, rep, 'code outside the verified bodies changed, and the replay '
                               'template of the property found a failing input on the real code'))
        else:
            context_undecided.append(lab)

    # bounded stand-ins (never counted as proved)
    bounded = run_bounded(pid, tier, seed)
    closure_open = []
    if tier == 'thorough':
        # (an open known finding of another property is reported by that property's check)
        all_open = set(k['obligation'] for k in CLI.load_json(
            CLI.KNOWN, {'findings': []}).get('findings', []) if k.get('status') == 'open')
        closure_open = sorted(set(CLI.agg_label(o) for o in obls
                                  if o['status'] != 'discharged'
                                  and not CLI.relevant(pid, o['props']))
                              - all_open)
        t1 = time.time()
        rp_all = CLI.run_replay(pid, 'thorough', {'func': '', 'mode': 'all', 'model': None}, tier,
                                seed, mode='all')
        b = {'name': 'replay_templates', 'label': 'bounded (not counted as proved)',
             'bound': 'every native replay template that bears on the property, on the tree as it '
                      'is: ' + ', '.join('%s (%s cases)' % kv for kv in sorted(
                          (rp_all.get('templates_run') or {}).items())),
             'why_not_proved': 'differential / scenario tests of the real code; they exist to '
                               'attach failing inputs to failed obligations',
             'evaluations': rp_all.get('evaluations', 0), 'wall_s': round(time.time() - t1, 2),
             'failures': [rp_all] if rp_all.get('reproduced') else []}
        if rp_all.get('note') and not rp_all.get('templates_run'):
            b['error'] = rp_all.get('note')
        bounded.append(b)
    for b in bounded:
        if b.get('error') is not None and not b.get('failures'):
            # a stand-in that crashed has checked nothing: checker error, never a silent pass
            errors.append('bounded %s: %s' % (b['name'], str(b['error'])[-300:]))
        if b.get('failures'):
            lab = 'bounded/' + b['name']
            if lab in open_known:
                known_hits.append((lab, open_known[lab]))
            else:
                violations.append((lab, {'func': b['name'], 'kind': 'bounded', 'label': b['name'],
                                         'name': lab, 'model': None,
                                         'bounded_failure': b['failures'][0]},
                                   'bounded stand-in found a failing input'))

    out_lines = []
    vcount = 0
    for (l, rep, reason) in violations:
        vcount += 1
        safe = l.replace('/', '_').replace('@', '_').replace(' ', '_')[:120]
        path = os.path.join(ROOT, 'replays', pid, safe + '.json')
        if rep.get('bounded_failure') is not None:
            rp = {'reproduced': True, 'input': rep['bounded_failure']}
        else:
            if rkey(rep['func'], l) not in replay_cache:
                replay_cache[rkey(rep['func'], l)] = CLI.run_replay(pid, l, rep, tier, seed)
            rp = replay_cache[rkey(rep['func'], l)]
        doc = {'property': pid, 'obligation': l, 'obligation_instance': rep.get('name'),
               'reason': reason, 'verifier_output': {k: rep.get(k) for k in
                                                     ('status', 'backend', 'time', 'reason', 'goal',
                                                      'model', 'candidate_model', 'path', 'line',
                                                      'fuel')},
               'replay': rp,
               'replay_cmd': 'cd /verif && ./check %s --replay %s' % (pid, os.path.relpath(path, ROOT))}
        os.makedirs(os.path.dirname(path), exist_ok=True)
        with open(path, 'w') as f:
            json.dump(doc, f, indent=1, default=str)
        tail = '' if rp.get('reproduced') else ' no-failing-input-found'
        out_lines.append('VIOLATION property=%s replay=%s obligation=%s%s' % (pid, path, l, tail))
    for (l, k) in known_hits:
        out_lines.append('KNOWN-FINDING: property=%s %s [%s]' % (pid, k.get('what_fails', l), l))

    n_obl = len([o for o in mine if CLI.agg_label(o) not in open_known])
    n_dis = len([o for o in mine if o['status'] == 'discharged'
                 and CLI.agg_label(o) not in open_known])
    rc = 0
    if errors or not ok_canary:
        rc = 3
    elif violations:
        rc = 1
    elif unsupported or undecided or missing or context_undecided or closure_open or n_obl == 0:
        rc = 2
    if violations and rc == 3:
        rc = 1 if not errors else 3

    backends = {}
    for o in mine:
        backends[o['backend']] = backends.get(o['backend'], 0) + 1
    solver_time = round(sum(o['time'] for o in mine), 3)
    samples = []
    for o in mine[:3] + [x for x in mine if x['status'] != 'discharged'][:3]:
        samples.append({'obligation': o['name'], 'status': o['status'], 'path': o.get('path'),
                        'backend': o['backend'], 'time_s': o['time']})
    not_decided = load_not_decided(pid)
    ev = {
        'property_id': pid, 'tier': tier, 'seed': seed, 'level': 'proof',
        'coverage': {
            'obligations': n_obl, 'discharged': n_dis,
            'checker_cmd': 'cd /verif && ./check %s --tier %s' % (pid, tier),
            'trusted_base': TRUSTED_BASE + MODEL_ASSUMPTIONS,
            'samples': samples or [{'note': 'no obligations generated'}],
            'functions_under_contract': functions,
            'lemmas': {n: bool(v) for n, v in lemma_ok.items()},
            'obligation_labels': {l: s for l, s in sorted(status.items())},
            'backends': backends, 'solver_time_s': solver_time,
            'slowest_obligations': [
                {'obligation': o['name'], 'time_s': o.get('time'), 'backend': o.get('backend')}
                for o in sorted(mine, key=lambda o: -(o.get('time') or 0))[:8]],
            'solver_budget': 'z3 %d ms wall per attempt (fuel ladder), cvc5 %d ms on z3 unknowns; '
                             'path feasibility: z3 rlimit (deterministic), not wall clock' % (
                                 SOLVE.Z3_TIMEOUT_MS, SOLVE.CVC5_TIMEOUT_MS),
            'bounded_standins': bounded,
            'undecided': [l for l, _ in undecided], 'missing_expected': missing,
            'context_changed': context_undecided,
            'closure_not_discharged': closure_open,
            'unsupported': unsupported, 'errors': errors,
            'refuted_or_regressed': [l for l, _, _ in violations],
            'known_findings': [l for l, _ in known_hits],
            'assumed_contracts_of_callees': sorted(trusted_callees),
            'inlined_without_contract': sorted(inlined),
            'termination_unverified': sorted(unverified_termination),
            'canary_ok': ok_canary,
            'explanation': 'obligations = verification conditions generated from /repo\'s current '
                           'source for the functions under contract that carry a clause of this '
                           'property, plus the spec lemmas it needs; obligations matching an open '
                           'known finding are excluded from both counts and listed under '
                           'known_findings; bounded stand-ins are listed separately and never '
                           'counted as discharged',
        },
        'assumptions': sorted(assumed) + ['assumed (trusted) contract: ' + t for t in
                                          sorted(trusted_callees)] + not_decided,
        'wall_s': round(time.time() - t0, 2),
        'violations': vcount,
    }
    with open(os.path.join(ROOT, 'evidence', pid + '.json'), 'w') as f:
        json.dump(ev, f, indent=1, default=str)
    for line in out_lines:
        print(line)
    print('%s: %d/%d obligations discharged, %d violations, %d known findings, %d undecided, '
          '%d unsupported, %d errors, exit %d, %.1fs' % (
              pid, n_dis, n_obl, vcount, len(known_hits), len(undecided) + len(missing),
              len(unsupported), len(errors), rc, time.time() - t0))
    for u in unsupported:
        print('  UNSUPPORTED', u)
    for e in errors:
        print('  ERROR', e[:600])
    for (l, rep) in undecided:
        print('  UNDECIDED', l, rep.get('reason'))
    for l in missing:
        print('  MISSING expected obligation', l)
    for l in context_undecided:
        print('  CONTEXT changed (undecided): %s' % l)
    for l in closure_open:
        print('  CLOSURE: obligation of a function outside this property not discharged: %s' % l)
    return rc


def load_not_decided(pid):
    d = CLI.load_json(os.path.join(ROOT, 'contracts', 'not_decided.json'), {})
    return ['not decided: ' + x for x in d.get(pid, [])] + \
        ['not decided: ' + x for x in d.get('*', [])]


def run_bounded(pid, tier, seed):
    reg = CLI.load_json(os.path.join(ROOT, 'bounded', 'registry.json'), {})
    out = []
    for b in reg.get(pid, []):
        cmd = b['cmd_thorough'] if tier == 'thorough' and b.get('cmd_thorough') else b['cmd']
        t0 = time.time()
        try:
            p = subprocess.run(cmd, shell=True, cwd=ROOT, capture_output=True, text=True,
                               timeout=b.get('timeout', 7200),      # generous: exhaustive, and the machine may be busy
                               env=dict(os.environ, VERIF_SEED=str(seed)))
            lines = [l for l in p.stdout.strip().split('\n') if l.startswith('{')]
            res = json.loads(lines[-1]) if lines else {'error': p.stderr[-500:]}
        except Exception as e:
            res = {'error': str(e)}
        res.update(name=b['name'], bound=b['bound'], why_not_proved=b.get('why', ''),
                   wall_s=round(time.time() - t0, 2), label='bounded (not counted as proved)')
        out.append(res)
    return out

"""/verif/check <property> [--tier quick|thorough] [--record-expected] [--replay FILE]

Exit codes: 0 every obligation of the property discharged (bounded stand-ins clean, known findings
only) / 1 violation (VIOLATION line) / 2 undecided / 3 checker error.
"""
import argparse
import json
import multiprocessing as mp
import os
import subprocess
import sys
import time

ROOT = os.path.dirname(os.path.dirname(os.path.abspath(__file__)))
sys.path.insert(0, ROOT)

from pyvc import run as RUN          # noqa: E402

EXPECTED = os.path.join(ROOT, 'expected_obligations.json')
KNOWN = os.path.join(ROOT, 'known_findings.json')
VENV_PY = '/venv/bin/python'
CVC5_BIN = '/usr/bin/cvc5'


import re as _re


def agg_label(o):
    """stable name of an obligation: function / kind . clause, without line numbers (so that an
    edit that only moves code does not rename obligations)"""
    return '%s/%s.%s' % (o['func'], o['kind'], _re.sub(r'@L\d+', '', o['label']))


def load_json(path, default):
    try:
        with open(path) as f:
            return json.load(f)
    except (OSError, ValueError):
        return default


# Necessary conditions shared between properties: the statement of the property on the left cannot
# hold unless the obligations stated for the properties on the right hold (C01 "incremental equals
# from scratch" and C05 "nothing is re-run without cause" need the virtual view (C04), version
# comparison (C06), cache identity (C07), comparison modes (C13), the JSON laws (C18); C01 also the
# copy semantics (C11); C10 "the function receives the normalised path / JSON arguments, its return
# value is normalised" needs C07, C11 and C18).  An obligation tagged for a supporting property is
# also an obligation of the supported one.
SUPPORTS = {
    'C01': ['C04', 'C06', 'C07', 'C13', 'C18', 'C11'],
    'C05': ['C04', 'C06', 'C07', 'C13', 'C18'],
    'C10': ['C07', 'C11', 'C18'],
    # C14: "if it propagates out of build the pre-build state is restored as in C02"
    'C14': ['C02'],
    # C06: "versions persisted with the cache", "previous committed build"
    'C06': ['C16'],
}


def relevant(pid, props):
    return pid in props or any(s in props for s in SUPPORTS.get(pid, ()))


def select_tasks(pid, all_funcs=False):
    RUN.setup()
    C = RUN._STATE['contracts']
    expected = load_json(EXPECTED, {}).get(pid, [])
    prog = RUN._STATE['prog']
    exp_funcs = set(l.split('/')[0] for l in expected)
    funcs = [q for q, c in C.VERIFY.items() if c.verify and not c.trusted and (
        all_funcs or relevant(pid, c.props)
        or (prog.short(c.target) + ('#' + c.variant if c.variant else '')) in exp_funcs)]
    lemmas = []

    def need(name):
        if name in C.LEMMAS and name not in lemmas:
            for d in RUN.lemma_deps(name):
                if d not in lemmas:
                    lemmas.append(d)
            lemmas.append(name)
    for q in funcs:
        for n in C.VERIFY[q].lemmas:
            need(n)
    for n, l in C.LEMMAS.items():
        if relevant(pid, l.props):
            need(n)
    return funcs, lemmas


def run_pool(tasks, jobs):
    if not tasks:
        return []
    if jobs <= 1 or len(tasks) == 1:
        return [RUN.run_task(t) for t in tasks]
    from concurrent.futures import ProcessPoolExecutor
    ctx = mp.get_context('fork')
    with ProcessPoolExecutor(max_workers=min(jobs, len(tasks)), mp_context=ctx) as ex:
        return list(ex.map(RUN.run_task, tasks))


def canary():
    """a query that must be sat and one that must be unsat (guards against a broken back end)"""
    import z3
    s = z3.Solver()
    x = z3.Int('canary')
    s.add(x > 0)
    a = s.check() == z3.sat
    s.add(x < 0)
    b = s.check() == z3.unsat
    return a and b


def run_replay(pid, label, oblig, tier, seed, mode=None):
    """-> dict(reproduced=bool, ...) from the scenario template of the obligation's function"""
    func = oblig['func']
    script = os.path.join(ROOT, 'replay', 'driver.py')
    if not os.path.exists(script) or not os.path.exists(VENV_PY):
        return {'reproduced': False, 'note': 'no replay driver'}
    req = {'property': pid, 'label': label, 'func': func, 'model': oblig.get('model'),
           'tier': tier, 'seed': seed}
    if mode:
        req['mode'] = mode
    try:
        p = subprocess.run([VENV_PY, script], input=json.dumps(req), capture_output=True, text=True,
                           timeout=3600, cwd=ROOT,
                           env=dict(os.environ, PYTHONPATH=os.environ.get('PYVC_REPO', '/repo')))
        lines = [l for l in p.stdout.strip().split('\n') if l.startswith('{')]
        if lines:
            return json.loads(lines[-1])
        return {'reproduced': False, 'note': 'replay driver gave no result', 'stderr': p.stderr[-800:]}
    except Exception as e:
        return {'reproduced': False, 'note': 'replay driver failed: %s' % e}


def main(argv=None):
    ap = argparse.ArgumentParser()
    ap.add_argument('pid', nargs='?')
    ap.add_argument('--selfcheck', action='store_true')
    ap.add_argument('--tier', default=os.environ.get('VERIF_TIER', 'quick'))
    ap.add_argument('--record-expected', action='store_true')
    ap.add_argument('--jobs', type=int, default=int(os.environ.get('PYVC_JOBS', '16')))
    ap.add_argument('--replay')
    args = ap.parse_args(argv)
    if args.selfcheck:
        ok = canary() and os.path.exists(CVC5_BIN) and os.path.exists(VENV_PY)
        RUN.setup()
        print('selfcheck', 'ok' if ok else 'FAILED')
        return 0 if ok else 3
    pid = args.pid
    tier = args.tier if args.tier in ('quick', 'thorough') else 'quick'
    try:
        seed = int(os.environ.get('VERIF_SEED', '0'))
    except ValueError:
        seed = 0
    t0 = time.time()
    os.makedirs(os.path.join(ROOT, 'evidence'), exist_ok=True)
    os.makedirs(os.path.join(ROOT, 'replays', pid), exist_ok=True)
    if args.replay:
        return replay_file(pid, args.replay)
    try:
        from pyvc import report
        rc = report.check_property(pid, tier, seed, args, t0)
    except SystemExit:
        raise
    except Exception as e:
        import traceback
        traceback.print_exc()
        print('CHECKER-ERROR property=%s %s' % (pid, e))
        rc = 3
    return rc


def replay_file(pid, path):
    data = load_json(path, None)
    if data is None:
        print('cannot read replay file', path)
        return 3
    print(json.dumps(data, indent=1)[:4000])
    if data.get('replay', {}).get('cmd'):
        p = subprocess.run(data['replay']['cmd'], shell=True, cwd=ROOT)
        return p.returncode
    return 0


if __name__ == '__main__':
    sys.exit(main())

"""Models of Python builtins, containers and library calls (the trusted base of DESIGN 2.10).

Everything the interpreter cannot read from /repo's source is given meaning here.  Each model is
small and states its assumption in MODEL_ASSUMPTIONS (copied into every evidence file).
"""
import ast
import z3

from .sorts import *          # noqa
from .values import *         # noqa
from . import sorts as S
from spec import json_spec as J

MODEL_ASSUMPTIONS = [
    'POSIX: os.path.normcase is the identity, FileBuilder._IS_WINDOWS is False',
    'logger.* calls have no effect and do not raise',
    'str.format() yields an opaque string; only exception classes are tracked, not messages',
    'threading.Lock/contextlib.nullcontext: `with lock:` has no effect on data (sequential semantics); '
    'lock-set is tracked for lockset obligations only',
    'containers stored in object fields are uniquely owned (value semantics) except inner dicts '
    'obtained through dict.setdefault/dict[...] which write through',
    'iteration over set/dict visits every element exactly once in an arbitrary order; '
    'iteration over a sanitized JSON dict visits items in key order (the loops concerned carry no '
    'state between iterations besides early exit)',
    'sanitized JSON dicts are finite maps in canonical key order: the insertion order of the keys of '
    'a dict argument / return value is abstracted away (order-preservation through the cache file is '
    'checked by the bounded stand-in cache_forest only)',
    'no MemoryError/RecursionError/KeyboardInterrupt; attribute lookup is static; no monkey patching',
]


class ClsTagV:
    """`value.__class__` of a PyV value."""
    def __init__(self, t):
        self.t = t


class EmptyDictV:
    pass


class EmptySetV:
    pass


BUILTIN_TYPES = ('list', 'tuple', 'dict', 'str', 'int', 'float', 'bool', 'set')


def pyv_cls_is(t, name):
    """exact class test of a PyV term"""
    return {
        'list': J.is_list(t), 'tuple': J.is_tuple(t), 'dict': J.is_dict(t), 'str': J.is_str(t),
        'int': J.is_int(t), 'float': J.is_floatish(t), 'bool': J.is_bool(t),
    }[name]


def pyv_isinstance(t, name):
    b = J.base_of(t)
    if name == 'bool':
        return J.is_bool(t)
    if name == 'int':
        return z3.Or(J.is_int(b), J.is_bool(t))
    if name == 'float':
        return J.is_floatish(b)
    if name == 'str':
        return J.is_str(b)
    if name == 'list':
        return J.is_list(b)
    if name == 'tuple':
        return J.is_tuple(b)
    if name == 'dict':
        return J.is_dict(b)
    raise Unsupported('isinstance(pyv, %s)' % name)


# -------------------------------------------------------------------------------------------------
# loop cursors

class Cursor:
    def info(self):
        return {}

    def at_end(self, eng, st):
        return None


class PyvListCursor(Cursor):
    def __init__(self, all_, rest):
        self.all, self.rest = all_, rest

    def info(self):
        return {'all': self.all, 'rest': self.rest}

    def more(self):
        return PyVs.is_cons(self.rest)

    def havoc(self, eng, st):
        return PyvListCursor(self.all, fresh('rest', PyVs))

    def next(self, eng, st):
        return Sym(PyVs.hd(self.rest), PYV), PyvListCursor(self.all, PyVs.tl(self.rest))


class ZipCursor(Cursor):
    def __init__(self, a1, a2, r1, r2):
        self.a1, self.a2, self.r1, self.r2 = a1, a2, r1, r2

    def info(self):
        return {'all1': self.a1, 'all2': self.a2, 'rest1': self.r1, 'rest2': self.r2}

    def more(self):
        return z3.And(PyVs.is_cons(self.r1), PyVs.is_cons(self.r2))

    def havoc(self, eng, st):
        return ZipCursor(self.a1, self.a2, fresh('rest1', PyVs), fresh('rest2', PyVs))

    def next(self, eng, st):
        return (TupleV([Sym(PyVs.hd(self.r1), PYV), Sym(PyVs.hd(self.r2), PYV)]),
                ZipCursor(self.a1, self.a2, PyVs.tl(self.r1), PyVs.tl(self.r2)))


class KvsCursor(Cursor):
    def __init__(self, all_, rest, mode):
        self.all, self.rest, self.mode = all_, rest, mode

    def info(self):
        return {'all': self.all, 'rest': self.rest}

    def more(self):
        return KVs.is_kcons(self.rest)

    def havoc(self, eng, st):
        return KvsCursor(self.all, fresh('krest', KVs), self.mode)

    def next(self, eng, st):
        k = Sym(KVs.kk(self.rest), PYV)
        v = Sym(KVs.kv(self.rest), PYV)
        item = k if self.mode == 'keys' else TupleV([k, v])
        return item, KvsCursor(self.all, KVs.krest(self.rest), self.mode)


# sequences known to be ordered by string length: ast id -> (ast kept alive, sign)
SEQ_ORDER = {}


class SeqCursor(Cursor):
    """index-based iteration over a z3 sequence.  Ghost `seen` = set of the elements visited so
    far ({seq[j] | j < i}); when the loop runs to completion it equals the set of all elements."""
    def __init__(self, seq, i, ety, seen=None, limit=None):
        self.seq, self.i, self.ety = seq, i, ety
        self.limit = limit if limit is not None else z3.Length(seq)
        self.seen = seen if seen is not None else z3.K(ety.sort(), z3.BoolVal(False))

    def info(self):
        return {'seq': self.seq, 'i': self.i, 'seen': self.seen}

    def more(self):
        return self.i < self.limit

    def havoc(self, eng, st):
        i = fresh('idx', IntS)
        st.assume(z3.And(i >= 0, i <= self.limit))
        seen = fresh('seen', z3.ArraySort(self.ety.sort(), BoolS))
        x = z3.Const('qx!seen', self.ety.sort())
        st.assume(z3.ForAll([x], z3.Implies(z3.Select(seen, x),
                                            z3.Contains(self.seq, z3.Unit(x)))))
        return SeqCursor(self.seq, i, self.ety, seen, self.limit)

    def at_end(self, eng, st):
        x = z3.Const('qx!seenall', self.ety.sort())
        st.assume(z3.ForAll([x], z3.Select(self.seen, x) == z3.Contains(self.seq, z3.Unit(x))))

    def next(self, eng, st):
        # (fact of sequence theory stated explicitly: the element at a valid index is contained)
        st.assume(z3.Contains(self.seq, z3.Unit(self.seq[self.i])))
        # a list produced by sorted(key=+-len): ground instance of its order for the neighbours
        # (i-1, i) -- quantified facts over seq.nth are not instantiated reliably by the solvers
        order = SEQ_ORDER.get(self.seq.get_id())
        if order is not None and order[0].eq(self.seq):
            a, b = slen(self.seq[self.i - 1]), slen(self.seq[self.i])
            st.assume(z3.Implies(self.i > 0, a >= b if order[1] < 0 else a <= b))
        return (Sym(self.seq[self.i], self.ety),
                SeqCursor(self.seq, self.i + 1, self.ety,
                          z3.Store(self.seen, self.seq[self.i], True), self.limit))


class SetCursor(Cursor):
    """arbitrary-order iteration over a finite set: `done` grows until it equals the set"""
    def __init__(self, S_, done, ety, proj=None):
        self.S, self.done, self.ety, self.proj = S_, done, ety, proj

    def info(self):
        return {'all': self.S, 'done': self.done}

    def more(self):
        return self.done != self.S

    def havoc(self, eng, st):
        d = fresh('done', self.S.sort())
        x = z3.Const('qx!done', self.ety.sort())
        st.assume(z3.ForAll([x], z3.Implies(z3.Select(d, x), z3.Select(self.S, x))))
        return SetCursor(self.S, d, self.ety, self.proj)

    def next(self, eng, st):
        x = fresh('elem', self.ety.sort())
        st.assume(z3.And(z3.Select(self.S, x), z3.Not(z3.Select(self.done, x))))
        item = self.proj(eng, st, x) if self.proj else Sym(x, self.ety)
        return item, SetCursor(self.S, z3.Store(self.done, x, True), self.ety, self.proj)


# -------------------------------------------------------------------------------------------------

class Intrinsics:
    def __init__(self):
        self.extra = {}
        self.notes = set()

    # ---- state ---------------------------------------------------------------------------------
    def init_state(self, eng, st, con):
        if 'cb_exc' in eng.GHOST_SORTS:
            st.g['cb_exc'] = z3.IntVal(-1)     # no user function has raised in this call yet

    def on_field_write(self, eng, st, field, obj, v, node):
        pass

    def modset(self, eng, nodes):
        """heap fields and ghost variables a piece of code may modify (syntactic, conservative)"""
        fields, ghosts = set(), set()
        seen = set()
        precise = {}          # field -> set of receiver names, or None when unknown
        self.last_imprecise = False

        def related(owner, cls):
            if cls is None:
                return True
            a = owner
            while a is not None:
                if a == cls:
                    return True
                a = CLS_PARENT.get(a)
            a = cls
            while a is not None:
                if a == owner:
                    return True
                a = CLS_PARENT.get(a)
            return False

        def note(field, recv, cls_hint=None):
            if isinstance(recv, ast.Name) and recv.id == 'self' and cls_hint is not None \
                    and not related(field.split('.')[0], cls_hint):
                return
            fields.add(field)
            if isinstance(recv, ast.Name):
                if precise.get(field, set()) is not None:
                    precise.setdefault(field, set()).add(recv.id)
            else:
                precise[field] = None

        # locals of the function under analysis that are assigned exactly once, from `self.<attr>`
        aliases = {}
        cur = getattr(getattr(eng, 'cur', None), 'node', None)
        if cur is not None and not eng.inline_class_stack[1:]:
            counts = {}
            for x in ast.walk(cur):
                if isinstance(x, (ast.Assign, ast.AugAssign, ast.AnnAssign, ast.For, ast.With,
                                  ast.NamedExpr)):
                    tg = (x.targets if isinstance(x, ast.Assign) else
                          [getattr(x, 'target', None)] if not isinstance(x, ast.With) else
                          [i.optional_vars for i in x.items])
                    for t in tg:
                        for nm in ast.walk(t) if t is not None else ():
                            if isinstance(nm, ast.Name):
                                counts[nm.id] = counts.get(nm.id, 0) + 1
                if isinstance(x, ast.Assign) and len(x.targets) == 1 \
                        and isinstance(x.targets[0], ast.Name) \
                        and isinstance(x.value, ast.Attribute) \
                        and isinstance(x.value.value, ast.Name) and x.value.value.id == 'self':
                    aliases[x.targets[0].id] = x.value.attr
            aliases = {k: v for k, v in aliases.items() if counts.get(k) == 1}

        def scan(ns, cls_hint, depth, self_ok=True):
            for n in ns:
                for x in ast.walk(n):
                    if isinstance(x, ast.Attribute) and isinstance(x.ctx, ast.Load):
                        # nested dicts are mutated through local aliases: any mention counts
                        for f, fty in eng.fields.items():
                            if f.endswith('.' + x.attr) and fty.kind == 'map' \
                                    and fty.args[1].kind == 'map':
                                note(f, x.value if depth == 0 or (isinstance(x.value, ast.Name)
                                     and x.value.id == 'self' and self_ok) else None, cls_hint)
                    if isinstance(x, ast.Attribute) and isinstance(x.ctx, ast.Store):
                        for f in eng.fields:
                            if f.endswith('.' + x.attr):
                                note(f, x.value if depth == 0 or (isinstance(x.value, ast.Name)
                                     and x.value.id == 'self' and self_ok) else None, cls_hint)
                    if isinstance(x, ast.AugAssign) and isinstance(x.target, ast.Attribute):
                        for f in eng.fields:
                            if f.endswith('.' + x.target.attr):
                                note(f, None)
                    if isinstance(x, ast.Subscript) and isinstance(x.ctx, (ast.Store, ast.Del)):
                        b = x.value
                        while isinstance(b, ast.Subscript):
                            b = b.value
                        if isinstance(b, ast.Attribute):
                            for f in eng.fields:
                                if f.endswith('.' + b.attr):
                                    note(f, b.value if depth == 0 or (isinstance(b.value, ast.Name)
                                         and b.value.id == 'self' and self_ok) else None, cls_hint)
                    if isinstance(x, ast.Call) and isinstance(x.func, ast.Attribute):
                        recv = x.func.value
                        meth = x.func.attr
                        if isinstance(recv, ast.Attribute) and meth in (
                                'append', 'add', 'discard', 'remove', 'pop', 'update', 'clear',
                                'extend', 'setdefault'):
                            for f in eng.fields:
                                if f.endswith('.' + recv.attr):
                                    note(f, recv.value if depth == 0 or (
                                        isinstance(recv.value, ast.Name)
                                        and recv.value.id == 'self' and self_ok) else None, cls_hint)
                        # repo methods: union of callee modifies (contract) or scan (inline);
                        # the receiver's class narrows the candidates when it is evident
                        rcls = None
                        if isinstance(recv, ast.Name) and depth == 0 and recv.id in aliases:
                            # a local that caches an attribute of self (`x = self._y`, assigned
                            # once): the call goes to the class of that attribute
                            recv = ast.Attribute(value=ast.Name(id='self', ctx=ast.Load()),
                                                 attr=aliases[recv.id], ctx=ast.Load())
                        if isinstance(recv, ast.Name):
                            if recv.id == 'self':
                                rcls = cls_hint
                            elif recv.id in eng.prog.classes:
                                rcls = recv.id
                        elif isinstance(recv, ast.Attribute) and isinstance(recv.value, ast.Name) \
                                and recv.value.id == 'self' and cls_hint is not None:
                            fq, _own = eng.resolve_field(cls_hint, recv.attr)
                            if fq is not None:
                                fty = eng.fields[fq]
                                if fty.kind == 'opt':
                                    fty = fty.args[0]
                                if fty.kind == 'obj':
                                    rcls = fty.cls.rstrip('?')
                        if rcls is None and not (isinstance(recv, ast.Name) and recv.id == 'self'):
                            owners = set(fi.cls for fi in eng.prog.funcs.values()
                                         if fi.node.name == meth and fi.cls is not None)
                            if len(owners) > 1:
                                # the receiver's class is not evident and several classes have a
                                # method of this name: the frame is the union -- an over-estimate
                                self.last_imprecise = True
                        for q, fi in eng.prog.funcs.items():
                            if fi.node.name == meth and (rcls is None or fi.cls is None
                                                         or related(fi.cls, rcls)):
                                con = eng.reg.get(q)
                                if con is not None and not getattr(con, 'force_inline', False):
                                    for m in getattr(con, 'modifies_static', None) or \
                                            self._static_mods(eng, con):
                                        if m.startswith('g:'):
                                            ghosts.add(m[2:])
                                        else:
                                            note(m, None)
                                elif q not in seen and depth < 4:
                                    seen.add(q)
                                    # an inlined method called on `self` writes our own `self`
                                    on_self = isinstance(recv, ast.Name) and recv.id == 'self'
                                    scan(fi.body(), fi.cls, depth + 1, self_ok and on_self)
                        # library effects
                        eff = self.lib_effects(x)
                        ghosts.update(eff)
                    elif isinstance(x, ast.Call) and isinstance(x.func, ast.Name):
                        eff = self.lib_effects(x)
                        ghosts.update(eff)
        scan(nodes, eng.inline_class_stack[-1] if eng.inline_class_stack else None, 0)
        self.last_precise = {f: r for f, r in precise.items() if r}
        return fields, ghosts

    def _static_mods(self, eng, con):
        out = getattr(con, '_static_mods_cache', None)
        if out is not None:
            return out
        out = set()
        try:
            class _Any:
                def __getattr__(self, n):
                    return z3.Const('any!' + n, ObjS)

                def a(self, n):
                    return z3.Const('any!' + n, ObjS)
            for m in con.modifies(_Any()):
                out.add(m if isinstance(m, str) else m[0])
        except Exception:
            out = set(eng.fields.keys())
        con._static_mods_cache = out
        return out

    def lib_effects(self, call):
        return set()

    # ---- names ---------------------------------------------------------------------------------
    def builtin(self, n):
        if n in BUILTIN_TYPES:
            return ClassV(n)
        if n in ('len', 'isinstance', 'zip', 'sorted', 'repr', 'reversed', 'callable', 'getattr',
                 'open', 'super', 'id', 'hash', 'min', 'max', 'any', 'all', 'enumerate', 'range'):
            return IntrinsicV(n)
        if n in ('True', 'False', 'None'):
            return {'True': True, 'False': False, 'None': None}[n]
        raise Unsupported('unknown name %s' % n)

    def module_attr(self, eng, mod, attr):
        d = mod.dotted + '.' + attr
        if mod.dotted.startswith('$global.'):
            return self.global_attr(eng, mod.dotted[8:], attr)
        return self.dotted(eng, d)

    def dotted(self, eng, d):
        if d in ('os.path', 'os', 'json', 'gzip', 'zlib', 'hashlib', 'stat', 'copy', 'threading',
                 'contextlib', 'tempfile', 'shutil', 'logging', 'pathlib'):
            return ModV(d)
        return IntrinsicV(d)

    def global_attr(self, eng, gname, attr):
        if gname == 'logger':
            return IntrinsicV('logger.' + attr)
        raise Unsupported('global %s.%s' % (gname, attr))

    def class_attr(self, eng, st, cls, attr, node):
        if isinstance(node, ast.Constant):
            return node.value
        raise Unsupported('class attribute %s.%s' % (cls, attr))

    def class_member(self, eng, st, v, attr):
        if v.name in BUILTIN_TYPES:
            return IntrinsicV('%s.%s' % (v.name, attr))
        raise Unsupported('class member %s.%s' % (v.name, attr))

    def obj_attr(self, eng, st, v, attr, node):
        raise Unsupported('attribute %s of object %r' % (attr, v.ty))

    def value_attr(self, eng, st, v, attr, node):
        if isinstance(v, Sym) and v.ty.kind == 'pyv':
            if attr == '__class__':
                return ClsTagV(v.t)
            if attr in ('items', 'keys', 'values', 'get'):
                return IntrinsicV('pyv.' + attr, v)
        if isinstance(v, ExcV) and attr == '__class__':
            return ('excclass', v)
        if isinstance(v, tuple) and v and v[0] == 'excclass' and attr == '__name__':
            return Sym(exc_name(v[1].cls), STR)
        if isinstance(v, str) and attr == 'format':
            return IntrinsicV('str.format', v)
        if isinstance(v, Sym) and v.ty.kind == 'str' and attr == 'format':
            return IntrinsicV('str.format', v)
        if isinstance(v, Sym) and v.ty.kind == 'opt' and v.ty.args[0].kind in ('map', 'set', 'list'):
            # Optional container (dict.get without default): reading through it is only done
            # after an `is not None` test; the path condition carries that fact
            eng.oblige(st, v.ty.sort().is_some(v.t), 'type', 'not-None@L%d' % node.lineno,
                       line=node.lineno)
            return IntrinsicV('method.' + attr, Sym(v.ty.sort().val(v.t), v.ty.args[0]))
        if isinstance(v, (Sym, ListV, ViewV, EmptyDictV, EmptySetV)):
            return IntrinsicV('method.' + attr, v)
        raise Unsupported('attribute %s of %r' % (attr, v))

    # ---- conversions ---------------------------------------------------------------------------
    def const_to_pyv(self, v):
        if v is None:
            return PyV.PNone
        if isinstance(v, bool):
            return PyV.PBool(z3.BoolVal(v))
        if isinstance(v, int):
            return PyV.PInt(z3.IntVal(v))
        if isinstance(v, str):
            return PyV.PStr(str_lit(v))
        if isinstance(v, float):
            if v == float('inf'):
                return PyV.PInf(z3.BoolVal(False))
            if v == -float('inf'):
                return PyV.PInf(z3.BoolVal(True))
        raise Unsupported('const to pyv %r' % (v,))

    def to_pyv(self, v):
        if isinstance(v, Sym):
            if v.ty.kind == 'pyv':
                return v.t
            if v.ty.kind == 'str':
                return PyV.PStr(v.t)
            if v.ty.kind == 'int':
                return PyV.PInt(v.t)
            if v.ty.kind == 'bool':
                return PyV.PBool(v.t)
            if v.ty.kind in ('list', 'set'):
                # a Python list/set of modelled values as a JSON list: content kept abstract
                t = fresh('aslist', PyV)
                return z3.If(PyV.is_PList(t), t, PyV.PList(PyVs.nil))
            if v.ty.kind == 'opt' and v.ty.args[0].kind in ('str', 'int', 'bool'):
                # Optional[str|int|bool] as a JSON value: None or the value
                o = v.ty.sort()
                inner = self.to_pyv(Sym(o.val(v.t), v.ty.args[0]))
                return z3.If(o.is_some(v.t), inner, PyV.PNone)
            raise Unsupported('to_pyv of %r' % v.ty)
        if isinstance(v, (ListV, TupleV)):
            l = PyVs.nil
            for it in reversed(v.items):
                l = PyVs.cons(self.to_pyv(it), l)
            return PyV.PList(l) if isinstance(v, ListV) else PyV.PTuple(l)
        return self.const_to_pyv(v)

    def listv_to_pyv(self, v):
        return self.to_pyv(v)

    def pyv_truth(self, t):
        return z3.If(J.is_none(t), False,
                     z3.If(J.is_bool(t), PyV.pb(t),
                           z3.If(J.is_int(t), PyV.pi(t) != 0,
                                 z3.If(J.is_float(t), PyV.pr(t) != 0,
                                       z3.If(J.is_str(t), PyV.ps(t) != str_lit(''),
                                             z3.If(J.is_listish(t), PyVs.is_cons(J.items(t)),
                                                   z3.If(J.is_dict(t), KVs.is_kcons(PyV.kvs(t)),
                                                         True)))))))

    def empty_dict(self, eng, st, node):
        return EmptyDictV()

    def dict_literal(self, eng, st, keys, vals, node):
        # {'a': x, 'b': y} with constant string keys -> sanitized pyv dict (keys sorted by kput)
        t = KVs.knil
        allfresh = True
        for k, v in zip(keys, vals):
            if not isinstance(k, str):
                raise Unsupported('dict literal with non-constant key')
            t = J.kput(str_lit(k), self.to_pyv(v), t)
        return Sym(PyV.PDict(t), PYV, fresh=True)

    def kwargs_value(self, kws, fi):
        if kws:
            raise Unsupported('explicit **kwargs contents')
        return Sym(PyV.PDict(KVs.knil), PYV)

    # ---- operators -----------------------------------------------------------------------------
    def binop(self, eng, st, op, a, b, node):
        if isinstance(op, ast.Add):
            if isinstance(a, TupleV) and isinstance(b, Sym) and b.ty.kind == 'pyv' and any(
                    isinstance(it, Sym) and it.ty.kind == 'obj' for it in a.items):
                return ArgsV(a.items, b)       # (builder,) + args: positional arguments of a call
            if isinstance(a, TupleV) and isinstance(b, Sym) and b.ty.kind == 'pyv':
                l = PyV.titems(b.t)
                for it in reversed(a.items):
                    l = PyVs.cons(self.to_pyv(it), l)
                return Sym(PyV.PTuple(l), PYV, fresh=True)
            if isinstance(a, TupleV) and isinstance(b, TupleV):
                return TupleV(a.items + b.items)
            if isinstance(a, ListV) and isinstance(b, ListV):
                return ListV(a.items + b.items)
            if isinstance(a, ListV) and isinstance(b, Sym) and b.ty.kind == 'pyv':
                return ArgsV(a.items, b)
            if isinstance(a, Sym) and a.ty.kind == 'list' and isinstance(b, (Sym, ListV)):
                bb = eng.to_seq(b, a.ty)
                return Sym(z3.Concat(a.t, bb.t), a.ty, fresh=True)
            if isinstance(a, ListV) and isinstance(b, Sym) and b.ty.kind == 'list':
                aa = eng.to_seq(a, b.ty)
                return Sym(z3.Concat(aa.t, b.t), b.ty, fresh=True)
        if isinstance(op, ast.Add) and (isinstance(a, str) or (isinstance(a, Sym)
                                                                and a.ty.kind == 'str')) \
                and (isinstance(b, str) or (isinstance(b, Sym) and b.ty.kind == 'str')):
            if isinstance(a, str) and isinstance(b, str):
                return a + b
            strcat = z3.Function('strcat', StrS, StrS, StrS)
            r = strcat(lift(a), lift(b))
            if isinstance(b, str) and b:
                st.assume(r != lift(a))          # appending a non-empty suffix changes the string
            if isinstance(a, str) and a:
                st.assume(r != lift(b))
            return Sym(r, STR, fresh=True)
        if self._is_int(a) and self._is_int(b):
            x, y = self._int(a), self._int(b)
            if isinstance(x, int) and isinstance(y, int):
                return {ast.Add: lambda: x + y, ast.Sub: lambda: x - y, ast.Mult: lambda: x * y,
                        ast.FloorDiv: lambda: x // y, ast.Mod: lambda: x % y}[type(op)]()
            x, y = lift(x), lift(y)
            if isinstance(op, ast.Add):
                return Sym(x + y, INT)
            if isinstance(op, ast.Sub):
                return Sym(x - y, INT)
            if isinstance(op, ast.Mult):
                return Sym(x * y, INT)
            if isinstance(op, (ast.FloorDiv, ast.Mod)):
                if isinstance(b, int) and b > 0:
                    # Python floor division/modulo with a positive constant divisor = SMT div/mod
                    return Sym(x / y if isinstance(op, ast.FloorDiv) else x % y, INT)
                raise Unsupported('division by non-constant')
        raise Unsupported('binop %s on %r, %r' % (type(op).__name__, a, b))

    def _is_int(self, v):
        return (isinstance(v, int) and not isinstance(v, bool)) or \
            (isinstance(v, Sym) and v.ty.kind == 'int')

    def _int(self, v):
        return v

    def eq(self, eng, st, a, b):
        """Python == ; returns Python bool or z3 Bool"""
        if isinstance(a, ClsTagV) or isinstance(b, ClsTagV):
            if isinstance(b, ClsTagV):
                a, b = b, a
            if isinstance(b, ClassV) and b.name in BUILTIN_TYPES:
                return pyv_cls_is(a.t, b.name)
            raise Unsupported('class tag comparison')
        if isinstance(a, Sym) and isinstance(b, Sym):
            if a.ty.kind == 'pyv' and b.ty.kind == 'pyv':
                # instances of subclasses compare like their base value (__eq__ not overridden)
                return J.pyeq(J.base_of(a.t), J.base_of(b.t))
            if a.ty.kind == 'pyv' or b.ty.kind == 'pyv':
                if b.ty.kind == 'pyv':
                    a, b = b, a
                return J.pyeq(a.t, self.to_pyv(b))
            if a.t.sort() == b.t.sort():
                return a.t == b.t
            if a.ty.kind == 'opt' and a.ty.args[0].sort() == b.t.sort():
                return a.t == a.ty.sort().some(b.t)
            if b.ty.kind == 'opt' and b.ty.args[0].sort() == a.t.sort():
                return b.t == b.ty.sort().some(a.t)
            raise Unsupported('== between %r and %r' % (a.ty, b.ty))
        if isinstance(a, Sym) or isinstance(b, Sym):
            if isinstance(b, Sym):
                a, b = b, a
            if a.ty.kind == 'pyv':
                return J.pyeq(a.t, self.to_pyv(b))
            if b is None:
                if a.ty.kind == 'opt':
                    return a.ty.sort().is_none(a.t)
                return False
            if a.ty.kind == 'opt':
                return a.t == a.ty.sort().some(lift(b))
            if isinstance(b, (bool, int, str)):
                if (a.ty.kind, type(b)) in (('bool', bool), ('int', int), ('str', str)):
                    return a.t == lift(b)
                if a.ty.kind == 'int' and isinstance(b, bool):
                    return a.t == (1 if b else 0)
                return False
            raise Unsupported('== between %r and %r' % (a, b))
        if isinstance(a, (TupleV, ListV)) and isinstance(b, (TupleV, ListV)):
            if type(a) is not type(b) or len(a.items) != len(b.items):
                return False
            parts = [self.eq(eng, st, x, y) for x, y in zip(a.items, b.items)]
            if all(isinstance(p, bool) for p in parts):
                return all(parts)
            return z3.And([p if not isinstance(p, bool) else z3.BoolVal(p) for p in parts])
        if isinstance(a, ClassV) and isinstance(b, ClassV):
            return a.name == b.name
        if isinstance(a, (ClassV, FuncV)) or isinstance(b, (ClassV, FuncV)):
            return False
        if isinstance(a, (bool, int, str, float, type(None))) and \
                isinstance(b, (bool, int, str, float, type(None))):
            return a == b
        raise Unsupported('== between %r and %r' % (a, b))

    def compare(self, eng, st, op, a, b, node):
        if isinstance(op, (ast.Eq, ast.NotEq)):
            r = self.eq(eng, st, a, b)
            if isinstance(op, ast.NotEq):
                r = (not r) if isinstance(r, bool) else z3.Not(r)
            return r if isinstance(r, bool) else Sym(r, BOOL)
        if isinstance(op, (ast.Is, ast.IsNot)):
            r = self.is_(eng, st, a, b)
            if isinstance(op, ast.IsNot):
                r = (not r) if isinstance(r, bool) else z3.Not(r)
            return r if isinstance(r, bool) else Sym(r, BOOL)
        if isinstance(op, (ast.In, ast.NotIn)):
            r = self.contains(eng, st, b, a)
            if isinstance(op, ast.NotIn):
                r = (not r) if isinstance(r, bool) else z3.Not(r)
            return r if isinstance(r, bool) else Sym(r, BOOL)
        if isinstance(op, (ast.Lt, ast.LtE, ast.Gt, ast.GtE)):
            if self._is_int(a) and self._is_int(b):
                if isinstance(a, int) and isinstance(b, int):
                    return {ast.Lt: a < b, ast.LtE: a <= b, ast.Gt: a > b, ast.GtE: a >= b}[type(op)]
                x, y = lift(a), lift(b)
                return Sym({ast.Lt: x < y, ast.LtE: x <= y, ast.Gt: x > y,
                            ast.GtE: x >= y}[type(op)], BOOL)
        raise Unsupported('comparison %s of %r, %r' % (type(op).__name__, a, b))

    def is_(self, eng, st, a, b):
        if b is None or a is None:
            if a is None:
                a, b = b, a
            if a is None:
                return True
            if isinstance(a, Sym):
                if a.ty.kind == 'opt':
                    return a.ty.sort().is_none(a.t)
                if a.ty.kind == 'pyv':
                    return J.is_none(a.t)
                return False
            return False
        if isinstance(b, bool) and isinstance(a, Sym) and a.ty.kind == 'opt' \
                and a.ty.args[0].kind == 'bool':
            srt = a.ty.sort()
            return z3.And(srt.is_some(a.t), srt.val(a.t) == z3.BoolVal(b))
        if isinstance(b, bool) and isinstance(a, Sym) and a.ty.kind == 'bool':
            return a.t == z3.BoolVal(b)
        if isinstance(a, bool) and isinstance(b, bool):
            return a is b
        if isinstance(a, bool) and b is None:
            return False
        if isinstance(a, Sym) and isinstance(b, Sym) and a.ty.kind == 'obj' and b.ty.kind == 'obj':
            return a.t == b.t
        if isinstance(a, Sym) and isinstance(b, Sym) and a.ty.kind == 'opt' and b.ty.kind == 'opt':
            return a.t == b.t
        if isinstance(a, Sym) and isinstance(b, Sym) and a.ty.kind in ('pyv', 'str') \
                and b.ty.kind in ('pyv', 'str'):
            # object identity of values: not modelled exactly; identical objects are equal values,
            # nothing else is known (a fresh Boolean bounded by structural equality)
            ident = fresh('is_same_object', BoolS)
            st.assume(z3.Implies(ident, self.to_pyv(a) == self.to_pyv(b)))
            return ident
        raise Unsupported('`is` between %r and %r' % (a, b))

    def contains(self, eng, st, cont, x):
        if isinstance(cont, ViewV):
            cont = self.view_read(eng, st, cont)
        if isinstance(cont, Sym):
            k = cont.ty.kind
            if k == 'set':
                return z3.Select(cont.t, self.elem(x, cont.ty.args[0]))
            if k == 'map':
                return cont.ty.osort().is_some(z3.Select(cont.t, self.elem(x, cont.ty.args[0])))
            if k == 'list':
                return z3.Contains(cont.t, z3.Unit(self.elem(x, cont.ty.args[0])))
            if k == 'pyv':
                return J.kmem(self.to_pyv(x), PyV.kvs(cont.t))
        if isinstance(cont, (ListV, TupleV)):
            parts = [self.eq(eng, st, x, y) for y in cont.items]
            if all(isinstance(p, bool) for p in parts):
                return any(parts)
            return z3.Or([p if not isinstance(p, bool) else z3.BoolVal(p) for p in parts])
        if isinstance(cont, tuple) and cont and cont[0] == 'strset':
            if isinstance(x, str):
                return x in cont[1]
            return z3.Or([lift(x) == str_lit(s) for s in sorted(cont[1])])
        if isinstance(cont, EmptyDictV):
            return False
        raise Unsupported('`in` on %r' % (cont,))

    def elem(self, x, ety):
        if ety.kind == 'hkey':
            if isinstance(x, Sym) and x.ty.kind == 'hkey':
                return x.t
            return hkey(self.to_pyv(x))
        if isinstance(x, Sym):
            if x.t.sort() == ety.sort():
                return x.t
            if ety.kind == 'opt' and x.t.sort() == ety.args[0].sort():
                return ety.sort().some(x.t)
            if x.ty.kind == 'opt' and x.ty.args[0].sort() == ety.sort():
                return x.ty.sort().val(x.t)       # Optional value known not to be None here
            if ety.kind == 'pyv':
                return self.to_pyv(x)
            if x.ty.kind == 'pyv' and ety.kind == 'str':
                return PyV.ps(x.t)
            raise Unsupported('element sort mismatch %r vs %r' % (x.ty, ety))
        if x is None and ety.kind == 'opt':
            return ety.sort().none
        if ety.kind == 'pyv':
            return self.to_pyv(x)
        return lift(x)

    # ---- subscripts ----------------------------------------------------------------------------
    def get_item(self, eng, st, cont, key, node):
        if isinstance(cont, ViewV):
            cont = self.view_read(eng, st, cont)
        if isinstance(cont, (TupleV, ListV)) and isinstance(key, int):
            return [(st, cont.items[key])]
        if isinstance(cont, Sym):
            k = cont.ty.kind
            if k == 'map':
                kt = self.elem(key, cont.ty.args[0])
                osort = cont.ty.osort()
                sel = z3.Select(cont.t, kt)
                outs = []
                for (s1, present) in eng.branch(st, osort.is_some(sel), 'K%d' % node.lineno):
                    if present:
                        vty = cont.ty.args[1]
                        if vty.kind == 'map' and cont.origin is not None:
                            outs.append((s1, ViewV(cont.origin[0], cont.origin[1], kt, vty)))
                        else:
                            outs.append((s1, Sym(osort.val(sel), vty)))
                    else:
                        outs.append((s1, Raise(new_exc('KeyError'))))
                return outs
            if k == 'pyv':
                # dict lookup on a JSON dict
                return self._pyv_item(eng, st, cont, key, node)
            if k == 'list' and self._is_int(key):
                i = lift(key)
                outs = []
                for (s1, ok) in eng.branch(st, z3.And(i >= 0, i < z3.Length(cont.t)),
                                           'I%d' % node.lineno):
                    if ok:
                        outs.append((s1, Sym(cont.t[i], cont.ty.args[0])))
                    else:
                        raise Unsupported('possibly out-of-range/negative list index')
                return outs
        return self.get_item_extra(eng, st, cont, key, node)

    def _pyv_item(self, eng, st, cont, key, node):
        outs = []
        const_idx = isinstance(key, int) and not isinstance(key, bool) and key >= 0
        strkey = isinstance(key, str) or (isinstance(key, Sym) and key.ty.kind == 'str')
        if const_idx:
            # constant index into a JSON list / tuple: hd(tl^key(items)); an index past the end
            # is an IndexError
            rest = []
            for (s0, isl) in eng.branch(st, z3.Or(PyV.is_PList(cont.t), PyV.is_PTuple(cont.t)),
                                        'L%d' % node.lineno):
                if not isl:
                    rest.append(s0)
                    continue
                tails = self._tails(cont.t, key)
                inr = z3.And([PyVs.is_cons(x) for x in tails])
                for (s1, ok) in eng.branch(s0, inr, 'I%d' % node.lineno):
                    if ok:
                        outs.append((s1, Sym(PyVs.hd(tails[-1]), PYV)))
                    else:
                        outs.append((s1, Raise(new_exc('IndexError'))))
        else:
            rest = [st]
        kt = self.to_pyv(key)
        for st0 in rest:
            for (s0, d) in eng.branch(st0, J.is_dict(cont.t), 'D%d' % node.lineno):
                if not d:
                    if strkey:
                        # a str subscript on a list/str/number/None is a TypeError
                        outs.append((s0, Raise(new_exc('TypeError'))))
                        continue
                    if const_idx:
                        for (s1, iss) in eng.branch(s0, PyV.is_PStr(cont.t), 'S%d' % node.lineno):
                            if iss:
                                # one character of a str, or IndexError
                                ch = z3.FreshConst(StrS, 'ch')
                                outs.append((s1, Sym(PyV.PStr(ch), PYV)))
                                outs.append((s1, Raise(new_exc('IndexError'))))
                            else:
                                outs.append((s1, Raise(new_exc('TypeError'))))
                        continue
                    raise Unsupported('subscript of non-dict pyv')
                for (s1, present) in eng.branch(s0, J.kmem(kt, PyV.kvs(cont.t)),
                                                'K%d' % node.lineno):
                    if present:
                        outs.append((s1, Sym(J.klookup(kt, PyV.kvs(cont.t)), PYV)))
                    else:
                        outs.append((s1, Raise(new_exc('KeyError'))))
        return outs

    @staticmethod
    def _tails(t, n):
        items = z3.If(PyV.is_PList(t), PyV.litems(t), PyV.titems(t))
        out = [items]
        for _ in range(n):
            items = PyVs.tl(items)
            out.append(items)
        return out

    def get_item_extra(self, eng, st, cont, key, node):
        raise Unsupported('subscript of %r' % (cont,))

    def view_read(self, eng, st, view):
        outer = eng.hread(st, view.field, view.obj)
        osort = eng.fields[view.field].osort()
        return Sym(osort.val(z3.Select(outer, view.key)), view.inner_ty)

    def view_write(self, eng, st, view, new_inner):
        outer = eng.hread(st, view.field, view.obj)
        osort = eng.fields[view.field].osort()
        eng.hwrite(st, view.field, view.obj, z3.Store(outer, view.key, osort.some(new_inner)))

    def store_back(self, eng, st, recv_node, recv_val, newv):
        """write an updated container value back to where the receiver expression lives"""
        if isinstance(recv_val, ViewV):
            self.view_write(eng, st, recv_val, newv.t)
            return
        if isinstance(recv_node, ast.Name):
            old = st.env.get(recv_node.id)
            st.env[recv_node.id] = newv
            if isinstance(old, Sym) and old.origin is not None and old.origin[0] is not None:
                obj, field = old.origin
                cur = eng.hread(st, field, obj)
                if not z3.simplify(cur).eq(z3.simplify(old.t)) and not cur.eq(old.t):
                    raise Unsupported('mutation through stale alias of %s' % field)
                eng.hwrite(st, field, obj, newv.t)
                newv.origin = old.origin
            return
        if isinstance(recv_node, ast.Attribute):
            outs = eng.ev(recv_node.value, st)
            if len(outs) != 1 or isinstance(outs[0][1], Raise):
                raise Unsupported('receiver evaluation forks')
            obj = outs[0][1]
            if isinstance(obj, Sym) and obj.ty.kind == 'opt' and obj.ty.args[0].kind == 'obj':
                obj = eng.unwrap_opt(st, obj)
            if isinstance(obj, Sym) and obj.ty.kind == 'obj':
                field, owner = eng.resolve_field(obj.ty.cls, recv_node.attr)
                eng.hwrite(st, field, obj.t, newv.t)
                eng.check_lock(st, field, recv_node)
                return
        raise Unsupported('cannot write back container')

    def set_item(self, eng, st, cont_node, key, v):
        outs = []
        for (s1, cont) in eng.ev(cont_node, st):
            if isinstance(cont, Raise):
                outs.append((s1, 'exc', cont.exc))
                continue
            cv = self.view_read(eng, s1, cont) if isinstance(cont, ViewV) else cont
            if isinstance(cv, EmptyDictV):
                raise Unsupported('store into untyped {} (give local_types)')
            if isinstance(cv, Sym) and cv.ty.kind == 'map':
                kt = self.elem(key, cv.ty.args[0])
                vt = self.elem(v, cv.ty.args[1])
                new = Sym(z3.Store(cv.t, kt, cv.ty.osort().some(vt)), cv.ty, fresh=cv.fresh,
                          origin=cv.origin)
                self.store_back(eng, s1, cont_node, cont, new)
                outs.append((s1, 'ok', None))
            elif isinstance(cv, Sym) and cv.ty.kind == 'pyv':
                if not (isinstance(key, (Sym, str))):
                    raise Unsupported('pyv dict store with key %r' % (key,))
                kt = key.t if isinstance(key, Sym) and key.ty.kind == 'str' else \
                    (str_lit(key) if isinstance(key, str) else PyV.ps(key.t))
                new = Sym(PyV.PDict(J.kput(kt, self.to_pyv(v), PyV.kvs(cv.t))), PYV,
                          fresh=cv.fresh and self.is_fresh(eng, s1, v))
                self.store_back(eng, s1, cont_node, cont, new)
                outs.append((s1, 'ok', None))
            else:
                raise Unsupported('item store on %r' % (cv,))
        return outs

    def is_fresh(self, eng, st, v):
        if isinstance(v, Sym):
            if v.fresh:
                return True
            if v.ty.kind in ('int', 'bool', 'str', 'real'):
                return True
            if v.ty.kind == 'pyv':
                return eng.entails(st, J.is_atom(v.t))
            return False
        if isinstance(v, (ListV, TupleV)):
            return getattr(v, 'fresh', True) and all(self.is_fresh(eng, st, x) for x in v.items)
        return True

    def fresh_goal(self, eng, st, v):
        from spec import json_spec as J
        if isinstance(v, Sym):
            if v.fresh or v.ty.kind in ('int', 'bool', 'str', 'real'):
                return z3.BoolVal(True)
            if v.ty.kind == 'pyv':
                return J.is_atom(v.t)
            return z3.BoolVal(False)
        if isinstance(v, (ListV, TupleV)):
            gs = [self.fresh_goal(eng, st, x) for x in v.items]
            ok = getattr(v, 'fresh', True)
            return z3.And([z3.BoolVal(bool(ok))] + gs)
        return z3.BoolVal(True)

    # ---- comprehensions ------------------------------------------------------------------------
    def listcomp(self, eng, st, node):
        if len(node.generators) != 1 or node.generators[0].ifs:
            raise Unsupported('comprehension shape')
        gen = node.generators[0]
        outs = []
        for (s1, it) in eng.ev(gen.iter, st):
            if isinstance(it, Raise):
                outs.append((s1, it))
                continue
            outs.extend(self.listcomp_over(eng, s1, node, gen, it))
        return outs

    def listcomp_over(self, eng, st, node, gen, it):
        elt = node.elt
        # identity-like maps over typed lists: [os.path.normcase(x) for x in xs]
        if isinstance(elt, ast.Call) and isinstance(gen.target, ast.Name) \
                and len(elt.args) == 1 and isinstance(elt.args[0], ast.Name) \
                and elt.args[0].id == gen.target.id and not elt.keywords:
            f = eng.ev(elt.func, st)[0][1]
            if isinstance(f, IntrinsicV) and f.name == 'os.path.normcase':
                if isinstance(it, Sym) and it.ty.kind in ('list', 'set'):
                    return [(st, Sym(it.t, it.ty, fresh=True))]
                if isinstance(it, ListV):
                    return [(st, ListV(it.items))]
            if isinstance(f, FuncV) and isinstance(it, Sym) and it.ty.kind == 'pyv':
                con = eng.reg.get(f.qualname)
                lm = getattr(con, 'listmap', None) if con else None
                if lm is None:
                    raise Unsupported('comprehension over %s needs listmap' % f.qualname)
                items = J.items(J.base_of(it.t))
                line = node.lineno
                short = eng.prog.short(f.qualname)
                eng.stats['callee_contracts'].add(short)
                if lm.get('pre') is not None:
                    eng.oblige(st, lm['pre'](items), 'pre', '%s.listmap@L%s' % (short, line),
                               line=line)
                if lm.get('decreases') is not None and eng.cur.qualname == f.qualname:
                    c0 = Ctx_for(eng)
                    eng.oblige(st, lm['decreases'](items) < eng.cur_contract.decreases(c0),
                               'decreases', 'listmap@L%s' % line, line=line)
                outs = []
                for (cls, guard) in lm.get('raises', []):
                    s1 = st.fork()
                    s1.assume(guard(items))
                    if eng.feasible(s1):
                        s1.trace.append('lm%s:%s' % (line, cls))
                        outs.append((s1, Raise(new_exc(cls, 'callee'))))
                s2 = st.fork()
                for (cls, guard) in lm.get('raises', []):
                    s2.assume(z3.Not(guard(items)))
                if eng.feasible(s2):
                    outs.append((s2, Sym(PyV.PList(lm['result'](items)), PYV,
                                         fresh=bool(lm.get('fresh')))))
                return outs
        raise Unsupported('list comprehension at line %d' % node.lineno)

    # ---- with ------------------------------------------------------------------------------------
    def enter_with(self, eng, st, cm, item, s, rest):
        if isinstance(cm, Sym) and cm.ty.kind == 'obj' and cm.ty.cls in ('Lock', 'NullContext'):
            name = self.lock_name(item.context_expr)
            saved = st.locks
            st.locks = st.locks + (name,)
            outs = []
            for (s1, ctrl, v) in eng.with_body(s, rest, st):
                s1.locks = saved
                outs.append((s1, ctrl, v))
            return outs
        return self.enter_with_extra(eng, st, cm, item, s, rest)

    def enter_with_extra(self, eng, st, cm, item, s, rest):
        raise Unsupported('with %r' % (cm,))

    def lock_name(self, node):
        if isinstance(node, ast.Attribute):
            return node.attr
        return '?'

    # ---- construction -----------------------------------------------------------------------------
    def construct(self, eng, st, cls, pos, kws, node):
        n = cls.name
        if n in EXC:
            return [(st, new_exc(n, 'lib'))]
        if n == 'set':
            if not pos:
                return [(st, EmptySetV())]
            return [(st, self.to_set(eng, st, pos[0]))]
        if n == 'list':
            if not pos:
                return [(st, ListV([]))]
            return [(st, self.to_list(eng, st, pos[0]))]
        if n == 'tuple':
            v = pos[0]
            if isinstance(v, Sym) and v.ty.kind == 'pyv':
                return [(st, Sym(PyV.PTuple(J.items(v.t)), PYV, fresh=v.fresh))]
            if isinstance(v, ListV):
                return [(st, TupleV(v.items))]
        if n == 'str':
            v = pos[0]
            if isinstance(v, Sym) and v.ty.kind == 'str':
                return [(st, v)]
            if isinstance(v, str):
                return [(st, v)]
            if isinstance(v, Sym) and v.ty.kind == 'pyv':
                # str(x) of an instance of a str SUBCLASS calls its __str__, which user code may
                # override (enum.Enum with a str mix-in does): only for an exact str is the
                # result the string itself
                b = J.base_of(v.t)
                return [(st, Sym(z3.If(z3.And(J.is_str(b), z3.Not(PyV.is_PSub(v.t))), PyV.ps(b),
                                       fresh('strconv', StrS)), STR, fresh=True))]
        if n == 'int':
            v = pos[0]
            if isinstance(v, Sym) and v.ty.kind == 'pyv':
                # likewise int(x) honours an overridden __int__
                b = J.base_of(v.t)
                return [(st, Sym(z3.If(z3.And(J.is_int(b), z3.Not(PyV.is_PSub(v.t))), b,
                                       PyV.PInt(fresh('intconv', IntS))), PYV, fresh=True))]
        if n == 'float':
            v = pos[0]
            if isinstance(v, str) and v in ('inf', '-inf', 'nan'):
                return [(st, Sym({'inf': PyV.PInf(z3.BoolVal(False)),
                                  '-inf': PyV.PInf(z3.BoolVal(True)), 'nan': PyV.PNaN}[v], PYV))]
            if isinstance(v, Sym) and v.ty.kind == 'pyv':
                b = J.base_of(v.t)
                return [(st, Sym(z3.If(z3.And(J.is_floatish(b), z3.Not(PyV.is_PSub(v.t))), b,
                                       PyV.PFloat(fresh('fconv', RealS))), PYV, fresh=True))]
        if n == 'bool':
            v = pos[0]
            t = eng.truth(v)
            return [(st, t if isinstance(t, bool) else Sym(t, BOOL))]
        return self.construct_extra(eng, st, cls, pos, kws, node)

    def construct_extra(self, eng, st, cls, pos, kws, node):
        raise Unsupported('construct %s' % cls.name)

    def to_set(self, eng, st, v):
        if isinstance(v, Sym) and v.ty.kind == 'set':
            return Sym(v.t, v.ty, fresh=True)
        if isinstance(v, Sym) and v.ty.kind == 'pyv':
            # set(<json list of strings>): the strings of the list.  That the JSON value IS a
            # list of strings is an obligation (stated for the list itself and its first element:
            # enough to be refuted by a wrong-shaped value)
            items = J.items(v.t)
            eng.oblige(st, z3.And(J.is_listish(v.t),
                                  z3.Implies(PyVs.is_cons(items), J.is_str(PyVs.hd(items)))),
                       'type', 'json-value-is-a-list-of-str')
            s = fresh('setofjson', z3.ArraySort(StrS, BoolS))
            return Sym(s, SET(STR), fresh=True)
        if isinstance(v, Sym) and v.ty.kind == 'list':
            ety = v.ty.args[0]
            s = fresh('setof', z3.ArraySort(ety.sort(), BoolS))
            x = z3.Const('qx!setof', ety.sort())
            st.assume(z3.ForAll([x], z3.Select(s, x) == z3.Contains(v.t, z3.Unit(x))))
            return Sym(s, SET(ety), fresh=True)
        if isinstance(v, ListV):
            if not v.items:
                return EmptySetV()
            ety = ty_of(v.items[0])
            t = z3.K(ety.sort(), z3.BoolVal(False))
            for it in v.items:
                t = z3.Store(t, lift(it), True)
            return Sym(t, SET(ety), fresh=True)
        raise Unsupported('set(%r)' % (v,))

    def to_list(self, eng, st, v):
        if isinstance(v, ListV):
            return ListV(v.items)
        if isinstance(v, Sym) and v.ty.kind == 'list':
            return Sym(v.t, v.ty, fresh=True)
        if isinstance(v, Sym) and v.ty.kind == 'pyv':
            return Sym(PyV.PList(J.items(v.t)), PYV, fresh=v.fresh)
        if isinstance(v, Sym) and v.ty.kind == 'set':
            ety = v.ty.args[0]
            l = fresh('listof', z3.SeqSort(ety.sort()))
            x = z3.Const('qx!listof', ety.sort())
            st.assume(z3.ForAll([x], z3.Contains(l, z3.Unit(x)) == z3.Select(v.t, x)))
            return Sym(l, LIST(ety), fresh=True)
        if isinstance(v, IterV) and v.kind == 'mapvalues':
            m = v.parts[0]
            vty = m.ty.args[1]
            kty = m.ty.args[0]
            osort = m.ty.osort()
            l = fresh('valuesof', z3.SeqSort(vty.sort()))
            x = z3.Const('qx!valuesof', vty.sort())
            k = z3.Const('qk!valuesof', kty.sort())
            # every value is listed, and every listed element is a value of some key
            st.assume(z3.ForAll([k], z3.Implies(osort.is_some(z3.Select(m.t, k)),
                                                z3.Contains(l, z3.Unit(osort.val(z3.Select(m.t, k)))))))
            wit = z3.Function('wit!%s' % l, vty.sort(), kty.sort())
            st.assume(z3.ForAll([x], z3.Implies(z3.Contains(l, z3.Unit(x)),
                                                z3.Select(m.t, wit(x)) == osort.some(x))))
            return Sym(l, LIST(vty), fresh=True)
        if isinstance(v, IterV) and v.kind == 'reversed':
            src = v.parts[0]
            if isinstance(src, ListV):
                return ListV(list(reversed(src.items)))
            if isinstance(src, Sym) and src.ty.kind == 'list':
                ety = src.ty.args[0]
                l = fresh('reversed', src.t.sort())
                i = z3.Const('qi!rev', IntS)
                st.assume(z3.Length(l) == z3.Length(src.t))
                st.assume(z3.ForAll([i], z3.Implies(z3.And(i >= 0, i < z3.Length(l)),
                                                    l[i] == src.t[z3.Length(l) - 1 - i])))
                # (consequence stated explicitly: same elements)
                xr = z3.Const('qx!rev', ety.sort())
                st.assume(z3.ForAll([xr], z3.Contains(l, z3.Unit(xr))
                                    == z3.Contains(src.t, z3.Unit(xr))))
                return Sym(l, src.ty, fresh=True)
        raise Unsupported('list(%r)' % (v,))

    # ---- intrinsic calls --------------------------------------------------------------------------
    def call(self, eng, st, f, pos, kws, node, starv=None, dstarv=None):
        name = f.name
        if dstarv is not None:
            raise Unsupported('**kwargs passed to library call %s' % name)
        if starv is not None:
            # *args to a library call: a literal sequence is spliced in; os.path.join over a
            # symbolic list of names has its own model; anything else is outside the subset
            # (never dropped silently)
            if isinstance(starv, (ListV, TupleV)):
                pos = list(pos) + list(starv.items)
            elif name == 'os.path.join' and isinstance(starv, Sym) and starv.ty.kind == 'list' \
                    and len(pos) == 1:
                return self.join_star(eng, st, pos[0], starv, node)
            else:
                raise Unsupported('*args passed to library call %s' % name)
        m = getattr(self, 'i_' + name.replace('.', '_'), None)
        if m is not None:
            return m(eng, st, f, pos, kws, node)
        if name.startswith('logger.'):
            return [(st, None)]
        if name.startswith('method.'):
            return self.method(eng, st, f.self_val, name[7:], pos, kws, node)
        raise Unsupported('library call %s' % name)

    def i_len(self, eng, st, f, pos, kws, node):
        v = pos[0]
        if isinstance(v, ViewV):
            v = self.view_read(eng, st, v)
        if isinstance(v, (ListV, TupleV)):
            return [(st, len(v.items))]
        if isinstance(v, Sym):
            if v.ty.kind == 'pyv':
                t = v.t
                return [(st, Sym(z3.If(J.is_dict(t), J.klen(PyV.kvs(t)),
                                       z3.If(J.is_listish(t), J.plen(J.items(t)),
                                             slen(PyV.ps(t)))), INT))]
            if v.ty.kind == 'list':
                return [(st, Sym(z3.Length(v.t), INT))]
            if v.ty.kind == 'str':
                return [(st, Sym(slen(v.t), INT))]
            if v.ty.kind == 'bytes':
                return [(st, Sym(v.t, INT))]
        raise Unsupported('len(%r)' % (v,))

    def i_isinstance(self, eng, st, f, pos, kws, node):
        v, c = pos
        classes = c.items if isinstance(c, TupleV) else [c]
        parts = []
        for cl in classes:
            if not isinstance(cl, ClassV):
                raise Unsupported('isinstance class %r' % (cl,))
            if isinstance(v, Sym) and v.ty.kind == 'pyv':
                parts.append(pyv_isinstance(v.t, cl.name))
            elif isinstance(v, Sym) and v.ty.kind == 'obj':
                if cl.name in BUILTIN_TYPES:
                    parts.append(z3.BoolVal(False))
                else:
                    parts.append(cls_isinstance(v.t, cl.name))
            elif isinstance(v, Sym) and v.ty.kind == 'opt' and v.ty.args[0].kind == 'obj':
                srt = v.ty.sort()
                parts.append(z3.And(srt.is_some(v.t), cls_isinstance(srt.val(v.t), cl.name)))
            elif isinstance(v, Sym) and v.ty.kind == 'str':
                parts.append(z3.BoolVal(cl.name == 'str'))
            elif isinstance(v, Sym) and v.ty.kind == 'bool':
                parts.append(z3.BoolVal(cl.name in ('bool', 'int')))
            elif isinstance(v, str):
                parts.append(z3.BoolVal(cl.name == 'str'))
            elif v is None:
                parts.append(z3.BoolVal(False))
            else:
                parts.append(self.isinstance_extra(eng, st, v, cl))
        r = z3.simplify(z3.Or(parts))
        if z3.is_true(r):
            return [(st, True)]
        if z3.is_false(r):
            return [(st, False)]
        return [(st, Sym(r, BOOL))]

    def isinstance_extra(self, eng, st, v, cl):
        raise Unsupported('isinstance(%r, %s)' % (v, cl.name))

    def i_zip(self, eng, st, f, pos, kws, node):
        a, b = pos
        if isinstance(a, Sym) and a.ty.kind == 'pyv' and isinstance(b, Sym) and b.ty.kind == 'pyv':
            return [(st, IterV('zip', a, b))]
        raise Unsupported('zip')

    def i_reversed(self, eng, st, f, pos, kws, node):
        return [(st, IterV('reversed', pos[0]))]

    def i_repr(self, eng, st, f, pos, kws, node):
        v = pos[0]
        if isinstance(v, Sym) and v.ty.kind == 'pyv':
            t = v.t
            return [(st, Sym(z3.If(J.is_sub(t), J.sub_repr(t),
                                   z3.If(J.is_int(t), J.int_repr(PyV.pi(t)),
                                         z3.If(J.is_float(t), J.float_repr(PyV.pr(t)),
                                               fresh('repr', StrS)))), STR, fresh=True))]
        raise Unsupported('repr')

    def i_int___repr__(self, eng, st, f, pos, kws, node):
        v = pos[0]
        if isinstance(v, Sym) and v.ty.kind == 'pyv':
            b = J.base_of(v.t)
            return [(st, Sym(z3.If(J.is_int(b), J.int_repr(PyV.pi(b)), fresh('repr', StrS)), STR,
                             fresh=True))]
        raise Unsupported('int.__repr__')

    def i_math_isinf(self, eng, st, f, pos, kws, node):
        v = pos[0]
        if isinstance(v, Sym) and v.ty.kind == 'pyv':
            b = J.base_of(v.t)
            # defined for numbers only (anything else: TypeError)
            outs = []
            for (s1, num) in eng.branch(st, z3.Or(J.is_int(b), J.is_floatish(b), PyV.is_PBool(b)),
                                        'M%d' % node.lineno):
                if num:
                    outs.append((s1, Sym(PyV.is_PInf(b), BOOL)))
                else:
                    outs.append((s1, Raise(new_exc('TypeError'))))
            return outs
        raise Unsupported('math.isinf(%r)' % (v,))

    def i_math_isnan(self, eng, st, f, pos, kws, node):
        v = pos[0]
        if isinstance(v, Sym) and v.ty.kind == 'pyv':
            b = J.base_of(v.t)
            outs = []
            for (s1, num) in eng.branch(st, z3.Or(J.is_int(b), J.is_floatish(b), PyV.is_PBool(b)),
                                        'M%d' % node.lineno):
                if num:
                    outs.append((s1, Sym(PyV.is_PNaN(b), BOOL)))
                else:
                    outs.append((s1, Raise(new_exc('TypeError'))))
            return outs
        raise Unsupported('math.isnan(%r)' % (v,))

    def i_str___str__(self, eng, st, f, pos, kws, node):
        v = pos[0]
        if isinstance(v, Sym) and v.ty.kind == 'pyv':
            b = J.base_of(v.t)
            return [(st, Sym(z3.If(J.is_str(b), PyV.ps(b), fresh('strval', StrS)), STR, fresh=True))]
        raise Unsupported('str.__str__(%r)' % (v,))

    def i_int___int__(self, eng, st, f, pos, kws, node):
        v = pos[0]
        if isinstance(v, Sym) and v.ty.kind == 'pyv':
            b = J.base_of(v.t)
            return [(st, Sym(z3.If(J.is_int(b), b, PyV.PInt(fresh('intval', IntS))), PYV, fresh=True))]
        raise Unsupported('int.__int__(%r)' % (v,))

    def i_float___float__(self, eng, st, f, pos, kws, node):
        v = pos[0]
        if isinstance(v, Sym) and v.ty.kind == 'pyv':
            b = J.base_of(v.t)
            return [(st, Sym(z3.If(J.is_floatish(b), b, PyV.PFloat(fresh('floatval', RealS))), PYV,
                             fresh=True))]
        raise Unsupported('float.__float__(%r)' % (v,))

    def i_float___repr__(self, eng, st, f, pos, kws, node):
        v = pos[0]
        if isinstance(v, Sym) and v.ty.kind == 'pyv':
            b = J.base_of(v.t)
            return [(st, Sym(z3.If(J.is_float(b), J.float_repr(PyV.pr(b)), fresh('repr', StrS)),
                             STR, fresh=True))]
        raise Unsupported('float.__repr__')

    def i_sorted(self, eng, st, f, pos, kws, node):
        v = pos[0]
        if isinstance(v, IterV) and v.kind == 'pyvkeys':
            d = v.parts[0]
            # sorted(keys) of a dict whose keys are sorted strings = keys in representation order
            eng.oblige(st, J.ksorted(PyV.kvs(d.t)), 'pre', 'sorted-keys-are-sorted-strs@L%d'
                       % node.lineno, line=node.lineno)
            return [(st, Sym(PyV.PList(J.kkeys(PyV.kvs(d.t))), PYV, fresh=True))]
        return self.sorted_extra(eng, st, v, kws, node)

    def sorted_extra(self, eng, st, v, kws, node):
        raise Unsupported('sorted(%r)' % (v,))

    def i_pyv_items(self, eng, st, f, pos, kws, node):
        d = f.self_val
        return [(st, IterV('pyvitems', Sym(J.base_of(d.t), PYV)))]

    def i_pyv_keys(self, eng, st, f, pos, kws, node):
        d = f.self_val
        return [(st, IterV('pyvkeys', Sym(J.base_of(d.t), PYV)))]

    def i_pyv_get(self, eng, st, f, pos, kws, node):
        d = f.self_val
        kt = self.to_pyv(pos[0])
        dflt = self.to_pyv(pos[1]) if len(pos) > 1 else PyV.PNone
        return [(st, Sym(z3.If(J.kmem(kt, PyV.kvs(d.t)), J.klookup(kt, PyV.kvs(d.t)), dflt), PYV))]

    def i_str_format(self, eng, st, f, pos, kws, node):
        r = fresh('fmt', StrS)
        tmpl = getattr(f, 'self_val', None)
        if isinstance(tmpl, str) and self._plain_name_template(tmpl) and pos and not kws \
                and all(self._is_int(a) for a in pos):
            # no separator in the template, every field an integer in d/x/o/b notation, and the
            # literal part is empty or not made of dots only: the result is a plain file name
            # (non-empty, no separator, not '.' / '..')
            st.assume(SIMPLE_NAME(r))
        return [(st, Sym(r, STR, fresh=True))]

    @staticmethod
    def _plain_name_template(tmpl):
        import re
        if '/' in tmpl or '\\' in tmpl or '{{' in tmpl or '}}' in tmpl:
            return False
        fields = re.findall(r'\{([^{}]*)\}', tmpl)
        lit = re.sub(r'\{[^{}]*\}', '', tmpl)
        if not fields or not all(re.fullmatch(r'\d*(:0?\d*[xXdob]?)?', x) for x in fields):
            return False
        return lit == '' or lit.strip('.') != ''

    def join_star(self, eng, st, base, comps, node):
        """os.path.join(base, *comps) for a symbolic list of names: the result lies below (or is)
        base when every component is a plain name"""
        if isinstance(base, Sym) and base.ty.kind == 'opt':
            eng.oblige(st, base.ty.sort().is_some(base.t), 'type',
                       'path-not-None@L%d' % node.lineno, line=node.lineno)
            base = Sym(base.ty.sort().val(base.t), base.ty.args[0])
        b = lift(base)
        r = z3.Function('join_star', StrS, comps.t.sort(), StrS)(b, comps.t)
        st.assume(ALL_SIMPLE(z3.Empty(comps.t.sort())))
        st.assume(z3.Implies(ALL_SIMPLE(comps.t), anc(b, r)))
        st.assume(z3.Implies(z3.Length(comps.t) == 0, r == b))
        return [(st, Sym(r, STR))]

    def i_callable(self, eng, st, f, pos, kws, node):
        v = pos[0]
        if isinstance(v, CallbackV):
            return [(st, Sym(getattr(v, 'is_callable', z3.BoolVal(True)), BOOL))]
        if isinstance(v, (FuncV, LambdaV, IntrinsicV)):
            return [(st, True)]
        raise Unsupported('callable(%r)' % (v,))

    def i_os_path_normcase(self, eng, st, f, pos, kws, node):
        return [(st, pos[0])]

    def i_os_path_isabs(self, eng, st, f, pos, kws, node):
        return [(st, Sym(z3.Function('isabs', StrS, BoolS)(lift(pos[0])), BOOL))]

    def i_os_path_normpath(self, eng, st, f, pos, kws, node):
        return [(st, Sym(z3.Function('normpath', StrS, StrS)(lift(pos[0])), STR))]

    def i_os_getcwd(self, eng, st, f, pos, kws, node):
        return [(st, Sym(z3.Const('cwd', StrS), STR))]

    def i_os_path_dirname(self, eng, st, f, pos, kws, node):
        return [(st, Sym(dirname(lift(pos[0])), STR))]

    def i_os_path_basename(self, eng, st, f, pos, kws, node):
        return [(st, Sym(basename(lift(pos[0])), STR))]

    def i_os_path_split(self, eng, st, f, pos, kws, node):
        p = lift(pos[0])
        return [(st, TupleV([Sym(dirname(p), STR), Sym(basename(p), STR)]))]

    def i_os_path_join(self, eng, st, f, pos, kws, node):
        if isinstance(pos[0], Sym) and pos[0].ty.kind == 'opt':
            pos = [Sym(pos[0].ty.sort().val(pos[0].t), pos[0].ty.args[0])] + list(pos[1:])
        t = lift(pos[0])
        for p in pos[1:]:
            t = pjoin(t, lift(p))
        return [(st, Sym(t, STR))]

    # ---- container methods -------------------------------------------------------------------------
    def method(self, eng, st, recv, meth, pos, kws, node):
        recv_node = node.func.value
        rv = self.view_read(eng, st, recv) if isinstance(recv, ViewV) else recv
        lt = None
        if isinstance(recv_node, ast.Name):
            lt = eng.cur_contract.local_types.get(recv_node.id)
        if isinstance(rv, EmptyDictV) and meth in ('items', 'keys', 'values'):
            return [(st, ListV([]))]
        if isinstance(rv, (EmptyDictV, EmptySetV)) or (isinstance(rv, ListV) and not rv.items
                                                       and lt is not None):
            if lt is None:
                raise Unsupported('method %s on untyped empty container (give local_types for %s)'
                                  % (meth, ast.dump(recv_node)))
            rv = self.empty_of(lt)
        if isinstance(rv, EmptyDictV) and meth in ('items', 'keys', 'values'):
            return [(st, ListV([]))]
        if isinstance(rv, ListV):
            if meth == 'append':
                new = ListV(rv.items + [pos[0]], fresh=rv.fresh)
                self.store_back(eng, st, recv_node, recv, new)
                return [(st, None)]
            raise Unsupported('ListV.%s' % meth)
        if not isinstance(rv, Sym):
            raise Unsupported('method %s on %r' % (meth, rv))
        k = rv.ty.kind
        if k == 'pyv':
            if meth == 'append':
                new = Sym(PyV.PList(J.snoc(PyV.litems(rv.t), self.to_pyv(pos[0]))), PYV,
                          fresh=rv.fresh and self.is_fresh(eng, st, pos[0]))
                self.store_back(eng, st, recv_node, recv, new)
                return [(st, None)]
        if k == 'set':
            ety = rv.ty.args[0]
            if meth in ('add', 'discard', 'remove'):
                x = self.elem(pos[0], ety)
                if meth == 'remove':
                    outs = []
                    for (s1, present) in eng.branch(st, z3.Select(rv.t, x), 'R%d' % node.lineno):
                        if present:
                            new = Sym(z3.Store(rv.t, x, False), rv.ty, fresh=rv.fresh,
                                      origin=rv.origin)
                            self.store_back(eng, s1, recv_node, recv, new)
                            outs.append((s1, None))
                        else:
                            outs.append((s1, Raise(new_exc('KeyError'))))
                    return outs
                new = Sym(z3.Store(rv.t, x, meth == 'add'), rv.ty, fresh=rv.fresh, origin=rv.origin)
                self.store_back(eng, st, recv_node, recv, new)
                return [(st, None)]
            if meth == 'clear':
                new = Sym(z3.K(ety.sort(), z3.BoolVal(False)), rv.ty, fresh=rv.fresh,
                          origin=rv.origin)
                self.store_back(eng, st, recv_node, recv, new)
                return [(st, None)]
            if meth == 'update':
                other = pos[0]
                if isinstance(other, ListV):
                    t = rv.t
                    for it in other.items:
                        t = z3.Store(t, self.elem(it, ety), True)
                    new = Sym(t, rv.ty, fresh=rv.fresh, origin=rv.origin)
                else:
                    o = self.to_set(eng, st, other)
                    if isinstance(o, EmptySetV):
                        return [(st, None)]
                    u = fresh('union', rv.t.sort())
                    x = z3.Const('qx!union', ety.sort())
                    st.assume(z3.ForAll([x], z3.Select(u, x) == z3.Or(z3.Select(rv.t, x),
                                                                    z3.Select(o.t, x))))
                    new = Sym(u, rv.ty, fresh=rv.fresh, origin=rv.origin)
                self.store_back(eng, st, recv_node, recv, new)
                return [(st, None)]
        if k == 'map':
            kty, vty = rv.ty.args
            osort = rv.ty.osort()
            if meth == 'get':
                kt = self.elem(pos[0], kty)
                sel = z3.Select(rv.t, kt)
                if len(pos) == 1 or pos[1] is None:
                    if vty.kind == 'opt':
                        # stored None and missing key are both None for dict.get
                        return [(st, Sym(z3.If(osort.is_some(sel), osort.val(sel),
                                               vty.sort().none), vty))]
                    return [(st, Sym(sel, OPT(vty)))]
                d = pos[1]
                return [(st, Sym(z3.If(osort.is_some(sel), osort.val(sel), self.elem(d, vty)),
                                 vty))]
            if meth == 'pop':
                kt = self.elem(pos[0], kty)
                sel = z3.Select(rv.t, kt)
                new = Sym(z3.Store(rv.t, kt, osort.none), rv.ty, fresh=rv.fresh, origin=rv.origin)
                if len(pos) == 2:
                    self.store_back(eng, st, recv_node, recv, new)
                    if pos[1] is None:
                        return [(st, Sym(sel, OPT(vty)))]
                    return [(st, Sym(z3.If(osort.is_some(sel), osort.val(sel),
                                           self.elem(pos[1], vty)), vty))]
                outs = []
                for (s1, present) in eng.branch(st, osort.is_some(sel), 'P%d' % node.lineno):
                    if present:
                        self.store_back(eng, s1, recv_node, recv, new)
                        outs.append((s1, Sym(osort.val(sel), vty)))
                    else:
                        outs.append((s1, Raise(new_exc('KeyError'))))
                return outs
            if meth == 'setdefault':
                kt = self.elem(pos[0], kty)
                sel = z3.Select(rv.t, kt)
                dflt = pos[1]
                if isinstance(dflt, EmptyDictV):
                    dt = z3.K(vty.args[0].sort(), vty.osort().none)
                else:
                    dt = self.elem(dflt, vty)
                newt = z3.If(osort.is_some(sel), rv.t, z3.Store(rv.t, kt, osort.some(dt)))
                new = Sym(newt, rv.ty, fresh=rv.fresh, origin=rv.origin)
                self.store_back(eng, st, recv_node, recv, new)
                if vty.kind == 'map':
                    obj, field = self.recv_location(eng, st, recv_node, recv)
                    return [(st, ViewV(obj, field, kt, vty))]
                return [(st, Sym(osort.val(z3.Select(newt, kt)), vty))]
            if meth == 'values':
                return [(st, IterV('mapvalues', rv))]
            if meth == 'items':
                return [(st, IterV('mapitems', rv))]
            if meth == 'keys':
                return [(st, IterV('mapkeys', rv))]
            if meth == 'clear':
                new = Sym(z3.K(kty.sort(), osort.none), rv.ty, fresh=rv.fresh, origin=rv.origin)
                self.store_back(eng, st, recv_node, recv, new)
                return [(st, None)]
        if k == 'list':
            ety = rv.ty.args[0]
            if meth == 'append':
                el = self.elem(pos[0], ety)
                new = Sym(z3.Concat(rv.t, z3.Unit(el)), rv.ty, fresh=rv.fresh,
                          origin=rv.origin)
                if ety.kind == 'str':
                    # ground instance of the definition of "every element is a plain name"
                    st.assume(ALL_SIMPLE(new.t) == z3.And(ALL_SIMPLE(rv.t), SIMPLE_NAME(el)))
                self.store_back(eng, st, recv_node, recv, new)
                return [(st, None)]
            if meth == 'clear':
                new = Sym(z3.Empty(rv.t.sort()), rv.ty, fresh=rv.fresh, origin=rv.origin)
                self.store_back(eng, st, recv_node, recv, new)
                return [(st, None)]
            if meth == 'extend':
                o = eng.to_seq(pos[0], rv.ty)
                new = Sym(z3.Concat(rv.t, o.t), rv.ty, fresh=rv.fresh, origin=rv.origin)
                self.store_back(eng, st, recv_node, recv, new)
                return [(st, None)]
        return self.method_extra(eng, st, recv, rv, meth, pos, kws, node)

    def method_extra(self, eng, st, recv, rv, meth, pos, kws, node):
        raise Unsupported('method %s on %r' % (meth, rv.ty if isinstance(rv, Sym) else rv))

    def recv_location(self, eng, st, recv_node, recv):
        if isinstance(recv_node, ast.Attribute):
            outs = eng.ev(recv_node.value, st)
            obj = outs[0][1]
            field, owner = eng.resolve_field(obj.ty.cls, recv_node.attr)
            return obj.t, field
        if isinstance(recv, Sym) and recv.origin is not None:
            return recv.origin
        raise Unsupported('location of nested dict')

    def empty_of(self, ty):
        if ty.kind == 'set':
            return Sym(z3.K(ty.args[0].sort(), z3.BoolVal(False)), ty, fresh=True)
        if ty.kind == 'map':
            return Sym(z3.K(ty.args[0].sort(), ty.osort().none), ty, fresh=True)
        if ty.kind == 'list':
            return Sym(z3.Empty(ty.sort()), ty, fresh=True)
        if ty.kind == 'pyv':
            return Sym(PyV.PList(PyVs.nil), PYV, fresh=True)
        raise Unsupported('empty of %r' % ty)

    # ---- loops -------------------------------------------------------------------------------------
    def make_cursor(self, eng, st, it):
        if isinstance(it, ViewV):
            it = self.view_read(eng, st, it)
        if isinstance(it, Sym):
            if it.ty.kind == 'pyv':
                items = J.items(it.t)
                return PyvListCursor(items, items)
            if it.ty.kind == 'list':
                return SeqCursor(it.t, z3.IntVal(0), it.ty.args[0])
            if it.ty.kind == 'set':
                ety = it.ty.args[0]
                return SetCursor(it.t, z3.K(ety.sort(), z3.BoolVal(False)), ety)
        if isinstance(it, IterV):
            if it.kind == 'prefix':
                seq, n = it.parts
                return SeqCursor(seq.t, z3.IntVal(0), seq.ty.args[0], None, n)
            if it.kind == 'zip':
                a, b = it.parts
                ia, ib = J.items(a.t), J.items(b.t)
                return ZipCursor(ia, ib, ia, ib)
            if it.kind in ('pyvitems', 'pyvkeys'):
                d = it.parts[0]
                k = PyV.kvs(d.t)
                return KvsCursor(k, k, 'items' if it.kind == 'pyvitems' else 'keys')
            if it.kind in ('mapitems', 'mapkeys', 'mapvalues'):
                m = it.parts[0]
                kty, vty = m.ty.args
                osort = m.ty.osort()
                dom = fresh('dom', z3.ArraySort(kty.sort(), BoolS))
                x = z3.Const('qx!dom', kty.sort())
                st.assume(z3.ForAll([x], z3.Select(dom, x) == osort.is_some(z3.Select(m.t, x))))

                def proj(eng_, st_, key, kind=it.kind, m=m, osort=osort, kty=kty, vty=vty):
                    kv = Sym(key, kty)
                    vv = Sym(osort.val(z3.Select(m.t, key)), vty)
                    return {'mapitems': TupleV([kv, vv]), 'mapkeys': kv, 'mapvalues': vv}[kind]
                return SetCursor(dom, z3.K(kty.sort(), z3.BoolVal(False)), kty, proj)
        return self.make_cursor_extra(eng, st, it)

    def make_cursor_extra(self, eng, st, it):
        raise Unsupported('iteration over %r' % (it,))

    # ---- callbacks ---------------------------------------------------------------------------------
    def call_callback(self, eng, st, f, pos, kws, node, starv, dstarv):
        raise Unsupported('callback call')


exc_name = z3.Function('exc_name', ExcClsS, StrS)
SIMPLE_NAME = z3.Function('simple_name', StrS, BoolS)
# every element of a list of names is a plain name (defined by its instances at [] and append)
ALL_SIMPLE = z3.Function('all_simple_names', z3.SeqSort(StrS), BoolS)


def Ctx_for(eng):
    from .engine import Ctx
    return Ctx(eng, eng.entry_state, eng.entry_state, eng.cur_args, entry=eng.entry_state)

"""pyvc: forward symbolic execution of the real Python AST, one function at a time, callee = contract.

See DESIGN.md section 2.  The interpreter walks `ast` nodes of the functions read from /repo by
pyvc.program; values are z3 terms wrapped in pyvc.values; every branch forks the path; loops are cut
by the invariant of the sidecar contract; calls to functions under contract assert the callee's
`requires`, havoc its `modifies` and assume its `ensures`.  The output is a list of named
obligations `path-condition => goal`; nothing is decided here.
"""
import ast
import os
import z3

from .sorts import *          # noqa
from .sorts import _opt_cache  # noqa
from .values import *         # noqa
from . import sorts as S


class Obl:
    __slots__ = ('name', 'props', 'pc', 'goal', 'kind', 'func', 'label', 'path', 'line', 'extra')

    def __init__(self, name, props, pc, goal, kind, func, label, path, line=None, extra=None):
        self.name = name
        self.props = list(props)
        self.pc = list(pc)
        self.goal = goal
        self.kind = kind
        self.func = func
        self.label = label
        self.path = path
        self.line = line
        self.extra = extra or {}


class St:
    """Symbolic state of one path."""
    __slots__ = ('pc', 'env', 'heap', 'g', 'locks', 'trace', 'depth')

    def __init__(self):
        self.pc = []
        self.env = {}
        self.heap = {}
        self.g = {}
        self.locks = ()
        self.trace = []
        self.depth = 0

    def fork(self):
        s = St()
        s.pc = list(self.pc)
        s.env = dict(self.env)
        s.heap = dict(self.heap)
        s.g = dict(self.g)
        s.locks = self.locks
        s.trace = list(self.trace)
        s.depth = self.depth
        return s

    def assume(self, f):
        if isinstance(f, bool):
            f = z3.BoolVal(f)
        self.pc.append(f)
        return self


class Ctx:
    """What a contract clause sees."""

    def __init__(self, eng, old, new, args, res=None, exc=None, loop=None, entry=None, outs=None):
        self.outs = outs or {}
        self.eng = eng
        self._old = old
        self._new = new
        self.args = args
        self.res = res
        self.exc = exc
        self.loop = loop or {}
        self._entry = entry or old

    def a(self, name):
        v = self.args[name]
        return v.t if isinstance(v, Sym) else v

    def out(self, name):
        """final value of an in-out parameter (a list the callee mutates in place)"""
        v = self.outs[name]
        return v.t if isinstance(v, Sym) else v

    def __getattr__(self, name):
        if name.startswith('_'):
            raise AttributeError(name)
        args = object.__getattribute__(self, 'args')
        if name in args:
            v = args[name]
            return v.t if isinstance(v, Sym) else v
        raise AttributeError(name)

    def old(self, field, obj):
        return self.eng.hread(self._old, field, obj)

    def new(self, field, obj):
        return self.eng.hread(self._new, field, obj)

    def entry(self, field, obj):
        return self.eng.hread(self._entry, field, obj)

    def gold(self, name):
        return self.eng.gread(self._old, name)

    def gnew(self, name):
        return self.eng.gread(self._new, name)

    def gentry(self, name):
        return self.eng.gread(self._entry, name)

    def _gone(self, name):
        """a contract clause names a local the function does not have (any more): its clauses
        about that local do not apply -- the function's obligations become weak (10.3), never a
        violation on the solver's word alone"""
        names = getattr(self.eng, 'cur_local_names', None)
        if names is not None and name not in names:
            self.eng.renamed_locals.add(name)
            return True
        return False

    def v(self, name):
        """current value of a local (loop invariants)"""
        if name not in self._new.env and self._gone(name):
            raise Unsupported('the contract refers to the local %r, which the function does not '
                              'have' % name)
        x = self._new.env[name]
        return x.t if isinstance(x, Sym) else x

    def val(self, name):
        if name not in self._new.env:
            self._gone(name)
        return self._new.env.get(name)

    def has(self, name):
        if name not in self._new.env:
            self._gone(name)
        return name in self._new.env

    def oldv(self, name):
        if name not in self._old.env and self._gone(name):
            raise Unsupported('the contract refers to the local %r, which the function does not '
                              'have' % name)
        x = self._old.env[name]
        return x.t if isinstance(x, Sym) else x


class Contract:
    """Sidecar contract of one repo function (see contracts/*.py)."""

    def __init__(self, target, props=(), params=None, returns=None, requires=None, ensures=None,
                 raises=None, modifies=None, loops=None, decreases=None, local_types=None,
                 lemmas=None, pure=False, notes='', ret_fresh=False, may_return=True,
                 verify=True, trusted=False, ghost_post=None, variant=None):
        self.target = target
        self.props = list(props)
        self.params = params or {}
        self.returns = returns
        self.requires = requires or (lambda c: [])
        self.ensures = ensures or (lambda c: [])
        self.raises = raises or []         # list of ExcSpec
        self.modifies = modifies or (lambda c: [])
        self.loops = loops or {}
        self.decreases = decreases
        self.local_types = local_types or {}
        self.lemmas = lemmas or []
        self.pure = pure
        self.notes = notes
        self.ret_fresh = ret_fresh
        self.may_return = may_return
        self.verify = verify
        self.trusted = trusted             # contract assumed, body not verified (listed in evidence)
        self.ghost_post = ghost_post
        self.variant = variant


class ExcSpec:
    """Exceptional outcome: class name, `when` (condition over the pre-state under which a caller
    must expect it; None = any time), `ensures` (exceptional postcondition)."""

    def __init__(self, cls, when=None, ensures=None, props=(), exact=True, modifies=None,
                 guarded=False, forces=None):
        self.cls = cls
        self.when = when
        self.ensures = ensures or (lambda c: [])
        self.props = list(props)
        self.exact = exact
        self.modifies = modifies      # frame of this outcome (None: the contract's modifies)
        # guarded: `when` is a sufficient condition only: this clause describes the exits on which
        # `when` held at entry; exits of the same class with `when` false fall to the other clauses
        self.guarded = guarded
        # forces: when `when` holds the call cannot return normally
        self.forces = (exact and not guarded) if forces is None else forces


class LoopSpec:
    def __init__(self, inv=None, decreases=None, modifies_extra=(), props=(), modifies=None):
        # modifies(c) -> heap frame of the loop (field names or (field, object term)); when given
        # it replaces the syntactic over-approximation for heap fields
        self.modifies = modifies
        self.inv = inv or (lambda c: [])
        self.decreases = decreases
        self.modifies_extra = list(modifies_extra)
        self.props = list(props)


MAX_INLINE_DEPTH = 4


class Engine:
    def __init__(self, program, registry, fields, intrinsics, axioms=()):
        self.prog = program
        self.reg = registry            # qualname -> Contract
        self.fields = fields           # 'Class.attr' -> Ty
        self.intr = intrinsics
        self.axioms = list(axioms)
        self.obls = []
        self.cur = None                # FuncInfo under verification
        self.cur_contract = None
        self.path_counter = 0
        self.feas = z3.Solver()
        # deterministic budget (z3 resource units, independent of machine load) instead of a
        # wall-clock timeout: the set of explored paths, hence of obligation labels, must not
        # depend on how busy the 16 cores are
        self.feas.set('rlimit', int(os.environ.get('PYVC_FEAS_RLIMIT', '4000000')))
        self.feas.set('timeout', 300000)     # safety net only: the rlimit decides
        self.loop_ordinals = {}
        self.inline_class_stack = []
        self.stats = {'paths': 0, 'feas_checks': 0, 'inlined': set(), 'callee_contracts': set()}
        self.entry_state = None

    # ------------------------------------------------------------------------------------------
    # heap / ghost

    def field_ty(self, field):
        return self.fields[field]

    # A heap field is (base array Obj -> T, tuple of (object term, value term) writes, oldest
    # first).  Reads resolve syntactically equal receivers without going through array theory
    # (measured: nested Store/Select over arrays of arrays made every quantified obligation time out).
    def hfield(self, st, field):
        if field not in st.heap:
            ty = self.fields[field]
            st.heap[field] = (z3.Const('H0!' + field, z3.ArraySort(ObjS, ty.sort())), ())
        return st.heap[field]

    def harr(self, st, field):
        base, writes = self.hfield(st, field)
        for (o, v) in writes:
            base = z3.Store(base, o, v)
        return base

    def hread(self, st, field, obj):
        base, writes = self.hfield(st, field)
        expr = z3.Select(base, obj)
        for (o, v) in writes:
            if o.eq(obj):
                expr = v
            else:
                expr = z3.If(obj == o, v, expr)
        return expr

    def hwrite(self, st, field, obj, val):
        base, writes = self.hfield(st, field)
        if writes and writes[-1][0].eq(obj):
            writes = writes[:-1]
        st.heap[field] = (base, writes + ((obj, val),))

    def hhavoc(self, st, field, tag='Hh'):
        st.heap[field] = (fresh(tag + '!' + field, z3.ArraySort(ObjS, self.fields[field].sort())),
                          ())

    GHOST_SORTS = {}
    SCRATCH_GHOSTS = ()

    def gread(self, st, name):
        if name not in st.g:
            st.g[name] = z3.Const('G0!' + name, self.GHOST_SORTS[name])
        return st.g[name]

    def gwrite(self, st, name, val):
        st.g[name] = val

    def check_lock(self, st, field, node):
        """lockset obligation: a guarded field is written only with its lock held"""
        guards = getattr(self.cur_contract, 'lock_guards', None) or {}
        lock = guards.get(field)
        if lock is not None:
            self.oblige(st, z3.BoolVal(lock in st.locks), 'lockset',
                        '%s@L%s' % (field, getattr(node, 'lineno', '?')),
                        line=getattr(node, 'lineno', None))

    def resolve_field(self, cls, attr):
        """Find 'Owner.attr' for an object of static class `cls` (search up, then down)."""
        cls = cls.rstrip('?')
        c = cls
        while c is not None:
            if c + '.' + attr in self.fields:
                return c + '.' + attr, c
            bases = self.prog.class_bases.get(c) or ([CLS_PARENT[c]] if CLS_PARENT.get(c) else [])
            c = bases[0] if bases else None
        for sub in cls_subclasses(cls):
            d = sub
            while d is not None and d != cls:
                if d + '.' + attr in self.fields:
                    return d + '.' + attr, d
                d = CLS_PARENT.get(d)
        return None, None

    # ------------------------------------------------------------------------------------------
    # feasibility

    def quantifier_free(self, f):
        # per engine, and the cached entry keeps the AST alive: z3 reuses AST ids after garbage
        # collection, so an id-keyed cache shared across functions of one worker process went
        # stale and made the set of explored paths depend on what the worker had verified before
        k = f.get_id()
        cache = self.__dict__.setdefault('_quant_cache', {})
        ent = cache.get(k)
        r = ent[1] if ent is not None else None
        if r is None:
            r = True
            stack = [f]
            seen = set()
            while stack:
                x = stack.pop()
                if x.get_id() in seen:
                    continue
                seen.add(x.get_id())
                if z3.is_quantifier(x):
                    r = False
                    break
                stack.extend(x.children())
            cache[k] = (f, r)
        return r

    def feasible(self, st, extra=None):
        """path pruning: only the quantifier-free part of the path condition is used (dropping
        conjuncts can only keep more paths, which is sound)"""
        self.stats['feas_checks'] += 1
        self.feas.push()
        try:
            for f in st.pc:
                if self.quantifier_free(f):
                    self.feas.add(f)
            if extra is not None:
                self.feas.add(extra)
            r = self.feas.check()
        finally:
            self.feas.pop()
        if r == z3.unknown:
            # kept (sound), but the path exists only because the solver gave up: obligations
            # below it are marked so that they are never *expected* by later runs
            self.stats['feas_unknown'] = self.stats.get('feas_unknown', 0) + 1
            if not st.trace or st.trace[-1] != '?':
                st.trace.append('?')
        return r != z3.unsat

    def entails(self, st, f):
        self.stats['feas_checks'] += 1
        self.feas.push()
        try:
            for g in st.pc:
                if self.quantifier_free(g):
                    self.feas.add(g)
            self.feas.add(z3.Not(f))
            r = self.feas.check()
        finally:
            self.feas.pop()
        return r == z3.unsat

    def branch(self, st, cond, tag=''):
        """cond: z3 Bool or Python bool -> list of (state, bool)."""
        if isinstance(cond, bool):
            return [(st, cond)]
        cond = z3.simplify(cond)
        if z3.is_true(cond):
            return [(st, True)]
        if z3.is_false(cond):
            return [(st, False)]
        out = []
        if self.feasible(st, cond):
            s1 = st.fork()
            s1.assume(cond)
            s1.trace.append(tag + 'T')
            out.append((s1, True))
        if self.feasible(st, z3.Not(cond)):
            s2 = st.fork() if out else st
            s2.assume(z3.Not(cond))
            s2.trace.append(tag + 'F')
            out.append((s2, False))
        return out

    # ------------------------------------------------------------------------------------------
    # truthiness / coercions

    def truth(self, v, st=None):
        if isinstance(v, ViewV) and st is not None:
            v = self.intr.view_read(self, st, v)
        if isinstance(v, Sym):
            k = v.ty.kind
            if k == 'bool':
                return v.t
            if k == 'int':
                return v.t != 0
            if k == 'opt':
                return v.ty.sort().is_some(v.t)
            if k == 'list':
                return z3.Length(v.t) > 0
            if k == 'set':
                return v.t != z3.K(v.ty.args[0].sort(), z3.BoolVal(False))
            if k == 'map':
                return v.t != z3.K(v.ty.args[0].sort(), v.ty.osort().none)
            if k == 'obj':
                return True
            if k == 'pyv':
                return self.intr.pyv_truth(v.t)
            if k == 'str':
                return v.t != str_lit('')
            raise Unsupported('truthiness of %r' % v.ty)
        if isinstance(v, (ListV, TupleV)):
            return len(v.items) > 0
        if isinstance(v, ViewV):
            inner = self.view_read(None, v)
            raise Unsupported('truth of view needs state')
        if v is None or isinstance(v, (bool, int, str, float)):
            return bool(v)
        if isinstance(v, (FuncV, ClassV, CallbackV, IntrinsicV)):
            return True
        raise Unsupported('truthiness of %r' % (v,))

    # ------------------------------------------------------------------------------------------
    # obligations

    def oblige(self, st, goal, kind, label, props=None, line=None, extra=None):
        if isinstance(goal, bool):
            goal = z3.BoolVal(goal)
        fn = self.prog.short(self.cur.qualname)
        if getattr(self, 'variant', None):
            fn = fn + '#' + self.variant
        name = '%s/%s.%s#%d' % (fn, kind, label, len(self.obls))
        if '?' in st.trace:
            extra = dict(extra or {}, uncertain_path=True)
        if any(t.startswith('~') for t in st.trace):
            extra = dict(extra or {}, weak_path=True)
        self.obls.append(Obl(name, props if props is not None else self.cur_contract.props,
                             st.pc, goal, kind, fn, label, '.'.join(st.trace), line, extra))

    # ------------------------------------------------------------------------------------------
    # statements: each returns list of (state, ctrl, value), ctrl in ok/ret/exc/brk/cont

    def exec_block(self, stmts, st):
        outs = [(st, 'ok', None)]
        for s in stmts:
            nxt = []
            for (st1, ctrl, v) in outs:
                if ctrl != 'ok':
                    nxt.append((st1, ctrl, v))
                else:
                    nxt.extend(self.exec_stmt(s, st1))
            outs = nxt
        return outs

    def exec_stmt(self, s, st):
        m = getattr(self, 'st_' + type(s).__name__, None)
        if m is None:
            raise Unsupported('statement %s at line %d' % (type(s).__name__, s.lineno))
        return m(s, st)

    def _ev_then(self, node, st, fn):
        """evaluate expr; for normal results call fn(st, val) -> outcomes; raise results propagate"""
        outs = []
        for (st1, v) in self.ev(node, st):
            if isinstance(v, Raise):
                outs.append((st1, 'exc', v.exc))
            else:
                outs.extend(fn(st1, v))
        return outs

    def st_Expr(self, s, st):
        if isinstance(s.value, ast.Constant):
            return [(st, 'ok', None)]
        return self._ev_then(s.value, st, lambda st1, v: [(st1, 'ok', None)])

    def st_Pass(self, s, st):
        return [(st, 'ok', None)]

    def st_Delete(self, s, st):
        # `del x[k]` is `x.pop(k)` with the result dropped (KeyError / IndexError when absent)
        if len(s.targets) == 1 and isinstance(s.targets[0], ast.Subscript):
            t = s.targets[0]
            call = ast.Call(func=ast.Attribute(value=t.value, attr='pop', ctx=ast.Load()),
                            args=[t.slice], keywords=[])
            ast.copy_location(call, s)
            ast.fix_missing_locations(call)
            return self._ev_then(call, st, lambda st1, v: [(st1, 'ok', None)])
        raise Unsupported('del statement at line %d' % s.lineno)

    def st_Return(self, s, st):
        if s.value is None:
            return [(st, 'ret', None)]
        return self._ev_then(s.value, st, lambda st1, v: [(st1, 'ret', v)])

    def st_Break(self, s, st):
        return [(st, 'brk', None)]

    def st_Continue(self, s, st):
        return [(st, 'cont', None)]

    def st_Assign(self, s, st):
        def after(st1, v):
            outs = [(st1, 'ok', None)]
            for tgt in s.targets:
                nxt = []
                for (st2, ctrl, x) in outs:
                    if ctrl != 'ok':
                        nxt.append((st2, ctrl, x))
                    else:
                        nxt.extend(self.assign(tgt, v, st2))
                outs = nxt
            return outs
        return self._ev_then(s.value, st, after)

    def st_AugAssign(self, s, st):
        binop = ast.BinOp(left=self._as_load(s.target), op=s.op, right=s.value)
        ast.copy_location(binop, s)
        ast.fix_missing_locations(binop)
        return self._ev_then(binop, st, lambda st1, v: self.assign(s.target, v, st1))

    def _as_load(self, tgt):
        import copy as _copy
        t = _copy.deepcopy(tgt)
        for n in ast.walk(t):
            if hasattr(n, 'ctx'):
                n.ctx = ast.Load()
        return t

    def assign(self, tgt, v, st):
        if isinstance(tgt, ast.Name):
            lt = self.cur_contract.local_types.get(tgt.id) if self.cur_contract else None
            if lt is not None:
                v = self.coerce_local(v, lt)
            st.env[tgt.id] = v
            return [(st, 'ok', None)]
        if isinstance(tgt, (ast.Tuple, ast.List)):
            parts = self.unpack(v, len(tgt.elts), st)
            outs = [(st, 'ok', None)]
            for t1, p in zip(tgt.elts, parts):
                nxt = []
                for (st2, ctrl, x) in outs:
                    nxt.extend(self.assign(t1, p, st2) if ctrl == 'ok' else [(st2, ctrl, x)])
                outs = nxt
            return outs
        if isinstance(tgt, ast.Attribute):
            def after(st1, obj):
                return self.set_attr(st1, obj, tgt.attr, v, tgt)
            return self._ev_then(tgt.value, st, after)
        if isinstance(tgt, ast.Subscript):
            def after_key(st1, key):
                return self.set_item(st1, tgt.value, key, v)
            return self._ev_then(tgt.slice, st, after_key)
        raise Unsupported('assignment target %s' % type(tgt).__name__)

    def coerce_local(self, v, ty):
        from .lib import EmptyDictV, EmptySetV
        if isinstance(v, ListV) and ty.kind == 'pyv' and not v.items:
            return Sym(PyV.PList(PyVs.nil), PYV, fresh=True)
        if isinstance(v, EmptyDictV):
            if ty.kind == 'pyv':
                return Sym(PyV.PDict(KVs.knil), PYV, fresh=True)
            return self.intr.empty_of(ty)
        if isinstance(v, EmptySetV):
            return self.intr.empty_of(ty)
        if isinstance(v, ListV) and ty.kind == 'list':
            return self.to_seq(v, ty)
        return v

    def to_seq(self, v, ty):
        if isinstance(v, Sym):
            return v
        srt = ty.args[0].sort()
        t = z3.Empty(z3.SeqSort(srt))
        for it in v.items:
            t = z3.Concat(t, z3.Unit(lift(it)))
        return Sym(t, ty, fresh=getattr(v, 'fresh', False))

    def unpack(self, v, n, st):
        if isinstance(v, (TupleV, ListV)):
            if len(v.items) != n:
                raise Unsupported('unpack arity')
            return v.items
        if isinstance(v, Sym) and v.ty.kind == 'tup' and len(v.ty.args) == n:
            srt = v.ty.sort()
            return [Sym(srt.accessor(0, i)(v.t), v.ty.args[i]) for i in range(n)]
        raise Unsupported('unpack of %r' % (v,))

    def set_attr(self, st, obj, attr, v, node):
        if isinstance(obj, Sym) and obj.ty.kind == 'opt':
            obj = self.unwrap_opt(st, obj)
        if not (isinstance(obj, Sym) and obj.ty.kind == 'obj'):
            raise Unsupported('attribute store on %r' % (obj,))
        field, owner = self.resolve_field(obj.ty.cls, attr)
        if field is None:
            raise Unsupported('unknown field %s.%s' % (obj.ty.cls, attr))
        fty = self.fields[field]
        self.hwrite(st, field, obj.t, self.to_field(v, fty))
        self.check_lock(st, field, node)
        self.intr.on_field_write(self, st, field, obj, v, node)
        return [(st, 'ok', None)]

    def to_field(self, v, fty):
        """value -> z3 term of the field's sort"""
        if isinstance(v, Sym):
            if v.ty == fty or v.ty.sort() == fty.sort():
                return v.t
            if v.ty.kind == 'pyv' and fty.kind == 'str':
                from spec import json_spec as J
                return PyV.ps(J.base_of(v.t))       # a str (checked by isinstance before)
            if fty.kind == 'pyv':
                return self.intr.to_pyv(v)
            if fty.kind == 'opt' and v.ty.sort() == fty.args[0].sort():
                return fty.sort().some(v.t)
            raise Unsupported('field type mismatch %r vs %r' % (v.ty, fty))
        if v is None:
            if fty.kind == 'opt':
                return fty.sort().none
            if fty.kind == 'pyv':
                return PyV.PNone
            raise Unsupported('None into %r' % fty)
        if isinstance(v, bool):
            if fty.kind == 'bool':
                return z3.BoolVal(v)
            if fty.kind == 'opt' and fty.args[0].kind == 'bool':
                return fty.sort().some(z3.BoolVal(v))
            if fty.kind == 'pyv':
                return PyV.PBool(z3.BoolVal(v))
        if isinstance(v, int) and fty.kind == 'int':
            return z3.IntVal(v)
        if isinstance(v, str):
            if fty.kind == 'str':
                return str_lit(v)
            if fty.kind == 'opt' and fty.args[0].kind == 'str':
                return fty.sort().some(str_lit(v))
        if isinstance(v, ListV):
            if fty.kind == 'list':
                return self.to_seq(v, fty).t
            if fty.kind == 'pyv':
                return self.intr.listv_to_pyv(v)
        from .lib import EmptyDictV, EmptySetV
        if isinstance(v, (EmptyDictV, EmptySetV)):
            if fty.kind == 'pyv':
                return PyV.PDict(KVs.knil)
            return self.intr.empty_of(fty).t
        raise Unsupported('cannot store %r into %r' % (v, fty))

    def from_field(self, t, fty, obj=None, field=None):
        return Sym(t, fty, fresh=False, origin=(obj, field))

    def assume_alloc(self, st, v):
        """objects reachable from parameters and fields are allocated (heap well-formedness)"""
        if 'alloc' not in self.GHOST_SORTS or not isinstance(v, Sym):
            return
        al = self.gread(st, 'alloc')
        if v.ty.kind == 'obj':
            st.assume(is_alloc(al, v.t))
            if v.ty.cls.endswith('?'):
                pass
            elif v.ty.cls in CLS:
                st.assume(cls_of(v.t) == CLS[v.ty.cls])
            elif v.ty.cls in ('Operation', 'ComplexOperation'):
                st.assume(cls_isinstance(v.t, v.ty.cls))
        elif v.ty.kind == 'opt' and v.ty.args[0].kind == 'obj':
            srt = v.ty.sort()
            inner = v.ty.args[0]
            st.assume(z3.Implies(srt.is_some(v.t), is_alloc(al, srt.val(v.t))))
            if inner.cls in CLS:
                st.assume(z3.Implies(srt.is_some(v.t), cls_of(srt.val(v.t)) == CLS[inner.cls]))
            elif inner.cls in ('Operation', 'ComplexOperation'):
                st.assume(z3.Implies(srt.is_some(v.t), cls_isinstance(srt.val(v.t), inner.cls)))

    def unwrap_opt(self, st, v):
        return Sym(v.ty.sort().val(v.t), v.ty.args[0])

    def st_If(self, s, st):
        outs = []
        for (st1, c) in self.ev_cond(s.test, st):
            if isinstance(c, Raise):
                outs.append((st1, 'exc', c.exc))
            elif c:
                outs.extend(self.exec_block(s.body, st1))
            else:
                outs.extend(self.exec_block(s.orelse, st1))
        return outs

    def ev_cond(self, node, st):
        """evaluate a test expression to (state, True/False) pairs (forking)"""
        res = []
        for (st1, v) in self.ev(node, st):
            if isinstance(v, Raise):
                res.append((st1, v))
                continue
            t = self.truth(v, st1)
            for (st2, b) in self.branch(st1, t, 'L%d' % getattr(node, 'lineno', 0)):
                res.append((st2, b))
        return res

    def st_Raise(self, s, st):
        if s.exc is None:
            exc = st.env.get('$handling')
            if exc is None:
                raise Unsupported('bare raise outside handler')
            return [(st, 'exc', exc)]

        def after(st1, v):
            if isinstance(v, ExcV):
                return [(st1, 'exc', v)]
            if isinstance(v, ClassV) and v.name in EXC:
                return [(st1, 'exc', new_exc(v.name, 'lib'))]
            raise Unsupported('raise of %r' % (v,))
        return self._ev_then(s.exc, st, after)

    def st_Try(self, s, st):
        outs = []
        for (st1, ctrl, v) in self.exec_block(s.body, st):
            if ctrl == 'exc' and s.handlers:
                outs.extend(self.run_handlers(s, st1, v))
            elif ctrl == 'ok' and s.orelse:
                outs.extend(self.exec_block(s.orelse, st1))
            else:
                outs.append((st1, ctrl, v))
        if not s.finalbody:
            return outs
        fin = []
        for (st1, ctrl, v) in outs:
            for (st2, c2, v2) in self.exec_block(s.finalbody, st1):
                if c2 == 'ok':
                    fin.append((st2, ctrl, v))       # original outcome resumes
                else:
                    fin.append((st2, c2, v2))        # finally overrides (incl. its own exception)
        return fin

    def handler_classes(self, node, st):
        if node is None:
            return ['BaseException']
        if isinstance(node, ast.Tuple):
            out = []
            for e in node.elts:
                out.extend(self.handler_classes(e, st))
            return out
        if isinstance(node, ast.Name):
            return [node.id]
        if isinstance(node, ast.Attribute):
            if node.attr == 'error':      # zlib.error
                return ['ZlibError']
            return [node.attr]
        raise Unsupported('except clause')

    def run_handlers(self, s, st, exc):
        outs = []
        cur = [st]
        for h in s.handlers:
            names = self.handler_classes(h.type, st)
            conds = []
            for n in names:
                if n == 'BaseException':
                    conds.append(z3.BoolVal(True))
                elif n in EXC:
                    conds.append(exc_issub(exc.cls, n))
                else:
                    raise Unsupported('except %s' % n)
            cond = z3.Or(conds)
            nxt = []
            for st1 in cur:
                for (st2, b) in self.branch(st1, cond, 'X%d' % h.lineno):
                    if b:
                        saved = st2.env.get('$handling')
                        st2.env['$handling'] = exc
                        if h.name:
                            st2.env[h.name] = exc
                        for (st3, c3, v3) in self.exec_block(h.body, st2):
                            if saved is None:
                                st3.env.pop('$handling', None)
                            else:
                                st3.env['$handling'] = saved
                            outs.append((st3, c3, v3))
                    else:
                        nxt.append(st2)
            cur = nxt
        for st1 in cur:
            outs.append((st1, 'exc', exc))
        return outs

    def st_With(self, s, st):
        if len(s.items) == 0:
            return self.exec_block(s.body, st)
        item = s.items[0]
        rest = s.items[1:]

        def after(st1, cm):
            return self.intr.enter_with(self, st1, cm, item, s, rest)
        return self._ev_then(item.context_expr, st, after)

    def with_body(self, s, rest, st):
        if rest:
            s2 = ast.With(items=rest, body=s.body)
            ast.copy_location(s2, s)
            return self.st_With(s2, st)
        return self.exec_block(s.body, st)

    # ----- loops --------------------------------------------------------------------------------

    def loop_spec(self, node):
        key = id(node)
        ordn = self.loop_ordinals.get(key)
        if ordn is None:
            raise Unsupported('loop not indexed')
        spec = self.cur_loops.get(ordn)
        if spec is None:
            # a loop without a sidecar invariant is cut with a plain havoc: whatever is not
            # proved below it may be lost information, not a property of the code
            self._unannotated_loop = node.lineno
        return ordn, spec

    def assigned_names(self, nodes):
        names = set()
        for n in nodes:
            for x in ast.walk(n):
                if isinstance(x, ast.Name) and isinstance(x.ctx, ast.Store):
                    names.add(x.id)
                elif isinstance(x, ast.ExceptHandler) and x.name:
                    names.add(x.name)
        return names

    def mutated_receivers(self, nodes):
        """locals that are receivers of mutating method calls / subscript stores in the loop"""
        names = set()
        MUT = {'append', 'add', 'discard', 'remove', 'pop', 'update', 'clear', 'extend',
               'setdefault'}
        for n in nodes:
            for x in ast.walk(n):
                if isinstance(x, ast.Call) and isinstance(x.func, ast.Attribute) \
                        and x.func.attr in MUT and isinstance(x.func.value, ast.Name):
                    names.add(x.func.value.id)
                if isinstance(x, ast.Subscript) and isinstance(x.ctx, (ast.Store, ast.Del)) \
                        and isinstance(x.value, ast.Name):
                    names.add(x.value.id)
        return names

    def havoc_for_loop(self, st, body_nodes, spec, extra_names=()):
        """havoc everything the loop body may change (syntactic over-approximation)"""
        names = self.assigned_names(body_nodes) | self.mutated_receivers(body_nodes) \
            | set(extra_names)
        for n in names:
            if n in st.env:
                v = st.env[n]
                if isinstance(v, ListV):
                    lt = self.cur_contract.local_types.get(n)
                    if lt is None:
                        raise Unsupported('list %s modified in loop needs local_types' % n)
                    v = self.coerce_local(v, lt)
                if isinstance(v, Sym):
                    st.env[n] = Sym(fresh('lv_' + n, v.t.sort()), v.ty, fresh=v.fresh)
                elif isinstance(v, (bool, int, str)) or v is None:
                    lt = self.cur_contract.local_types.get(n)
                    if lt is not None:
                        st.env[n] = Sym(fresh('lv_' + n, lt.sort()), lt)
                    elif isinstance(v, bool):
                        st.env[n] = Sym(fresh('lv_' + n, BoolS), BOOL)
                    elif isinstance(v, int):
                        st.env[n] = Sym(fresh('lv_' + n, IntS), INT)
                    elif isinstance(v, str):
                        st.env[n] = Sym(fresh('lv_' + n, StrS), STR)
                    else:
                        raise Unsupported('None local %s modified in loop needs local_types' % n)
                elif isinstance(v, ExcV):
                    pass
                else:
                    raise Unsupported('cannot havoc local %s=%r' % (n, v))
        fields, ghosts = self.intr.modset(self, body_nodes)
        precise = getattr(self.intr, 'last_precise', {})
        if getattr(self.intr, 'last_imprecise', False) and not (
                spec is not None and spec.modifies is not None):
            # the inferred frame over-estimates (receiver class guessed): what is refuted below
            # this loop may be an artefact of the havoc -- weak path (10.3), decided by replay
            st.trace.append('~F%d' % (body_nodes[0].lineno if body_nodes else 0))
        if spec is not None and spec.modifies is not None:
            c = Ctx(self, st, st, self.cur_args, entry=self.entry_state)
            # an explicit loop frame replaces the inferred one (fields and ghosts)
            ghosts = set()
            for m in spec.modifies(c):
                if isinstance(m, str) and m.startswith('g:'):
                    ghosts.add(m[2:])
                elif isinstance(m, str):
                    self.hhavoc(st, m, 'Hl')
                else:
                    self.hwrite(st, m[0], m[1], fresh('Hl!' + m[0], self.fields[m[0]].sort()))
            fields = set()
        if spec is not None:
            for m in spec.modifies_extra:
                if m.startswith('g:'):
                    ghosts.add(m[2:])
                else:
                    fields.add(m)
                    precise.pop(m, None)
        for f in fields:
            recvs = precise.get(f)
            objs = []
            if recvs:
                for rn in recvs:
                    v = st.env.get(rn)
                    if isinstance(v, Sym) and v.ty.kind == 'obj' and rn not in names:
                        objs.append(v.t)
                    else:
                        objs = None
                        break
            if objs:
                # only the objects the loop body writes are havocked; every other object keeps
                # its field value (frame of the loop)
                for o in objs:
                    self.hwrite(st, f, o, fresh('Hl!' + f, self.fields[f].sort()))
            else:
                self.hhavoc(st, f, 'Hl')
        for g in ghosts:
            st.g[g] = fresh('Gl!' + g, self.GHOST_SORTS[g])

    def loop_ctx(self, pre, cur, loop):
        return Ctx(self, pre, cur, self.cur_args, loop=loop, entry=self.entry_state)

    def eval_inv(self, st, spec, pre, loopinfo, ordn, line):
        """the invariant's clauses over the loop's variables, or None when the sidecar invariant
        does not fit the loop any more (a variable or cursor it mentions is missing): that is a
        failed obligation of its own ("the invariant is expressible here"), not a checker error"""
        c = self.loop_ctx(pre, st, loopinfo)
        try:
            clauses = list(spec.inv(c))
        except (KeyError, AttributeError, TypeError, z3.Z3Exception) as e:
            self.oblige(st, z3.BoolVal(False), 'inv-init', 'loop%d.applicable' % ordn,
                        props=spec.props or None, line=line,
                        extra={'why': 'invariant not expressible: %s: %s' % (type(e).__name__, e)})
            return None
        return clauses

    def check_inv(self, st, spec, pre, loopinfo, phase, ordn, line):
        if spec is None:
            return
        clauses = self.eval_inv(st, spec, pre, loopinfo, ordn, line)
        if clauses is None:
            return
        if phase == 'init':
            self.oblige(st, z3.BoolVal(True), 'inv-init', 'loop%d.applicable' % ordn,
                        props=spec.props or None, line=line)
        for cl in clauses:
            label, f = cl[0], cl[1]
            # optional third component: property tags of this clause (else those of the spec)
            props = list(cl[2]) if len(cl) > 2 else (spec.props or None)
            self.oblige(st, f, 'inv-' + phase, 'loop%d.%s' % (ordn, label),
                        props=props, line=line)

    def assume_inv(self, st, spec, pre, loopinfo):
        if spec is None:
            return
        c = self.loop_ctx(pre, st, loopinfo)
        try:
            clauses = list(spec.inv(c))
        except (KeyError, AttributeError, TypeError, z3.Z3Exception):
            return
        for cl in clauses:
            st.assume(cl[1])

    def st_While(self, s, st):
        ordn, spec = self.loop_spec(s)
        pre = st.fork()
        self.check_inv(st, spec, pre, {}, 'init', ordn, s.lineno)
        head = st.fork()
        self.havoc_for_loop(head, s.body + [ast.Expr(value=s.test)], spec)
        if spec is None:
            head.trace.append('~L%d' % s.lineno)
        self.assume_inv(head, spec, pre, {})
        outs = []
        dec0 = None
        if spec is not None and spec.decreases is not None:
            dec0 = spec.decreases(self.loop_ctx(pre, head, {}))
        for (st1, c) in self.ev_cond(s.test, head.fork()):
            if isinstance(c, Raise):
                outs.append((st1, 'exc', c.exc))
            elif not c:
                if s.orelse:
                    outs.extend(self.exec_block(s.orelse, st1))
                else:
                    outs.append((st1, 'ok', None))
            else:
                for (st2, ctrl, v) in self.exec_block(s.body, st1):
                    if ctrl in ('ok', 'cont'):
                        self.check_inv(st2, spec, pre, {}, 'step', ordn, s.lineno)
                        if dec0 is not None:
                            dec1 = spec.decreases(self.loop_ctx(pre, st2, {}))
                            self.oblige(st2, z3.And(dec1 < dec0, dec0 >= 0), 'decreases',
                                        'loop%d' % ordn, line=s.lineno)
                    elif ctrl == 'brk':
                        outs.append((st2, 'ok', None))
                    else:
                        outs.append((st2, ctrl, v))
        if spec is None or spec.decreases is None:
            self.unverified_termination.add('%s loop%d' % (self.prog.short(self.cur.qualname),
                                                            ordn))
        return outs

    def st_For(self, s, st):
        def after(st1, it):
            return self.for_over(s, st1, it)
        return self._ev_then(s.iter, st, after)

    def for_over(self, s, st, it):
        # concrete-length iterables are unrolled
        if isinstance(it, (ListV, TupleV)):
            outs = [(st, 'ok', None)]
            for item in it.items:
                nxt = []
                for (st1, ctrl, v) in outs:
                    if ctrl != 'ok':
                        nxt.append((st1, ctrl, v))
                        continue
                    for (st2, c2, v2) in self.assign(s.target, item, st1):
                        for (st3, c3, v3) in self.exec_block(s.body, st2):
                            if c3 in ('ok', 'cont'):
                                nxt.append((st3, 'ok', None))
                            elif c3 == 'brk':
                                nxt.append((st3, 'brkdone', None))
                            else:
                                nxt.append((st3, c3, v3))
                outs = nxt
            return [(a, 'ok' if c == 'brkdone' else c, v) for (a, c, v) in outs]
        ordn, spec = self.loop_spec(s)
        cursor = self.intr.make_cursor(self, st, it)       # object with .info(), .more(), .next()
        pre = st.fork()
        self.check_inv(st, spec, pre, cursor.info(), 'init', ordn, s.lineno)
        head = st.fork()
        self.havoc_for_loop(head, s.body + [ast.Expr(value=s.target)], spec)
        if spec is None:
            head.trace.append('~L%d' % s.lineno)
        cursor = cursor.havoc(self, head)
        self.assume_inv(head, spec, pre, cursor.info())
        outs = []
        for (st1, more) in self.branch(head.fork(), cursor.more(), 'F%d' % s.lineno):
            if not more:
                fin = cursor.at_end(self, st1)
                if s.orelse:
                    outs.extend(self.exec_block(s.orelse, st1))
                else:
                    outs.append((st1, 'ok', None))
                continue
            item, cur2 = cursor.next(self, st1)
            for (st2, c2, v2) in self.assign(s.target, item, st1):
                for (st3, ctrl, v) in self.exec_block(s.body, st2):
                    if ctrl in ('ok', 'cont'):
                        self.check_inv(st3, spec, pre, cur2.info(), 'step', ordn, s.lineno)
                    elif ctrl == 'brk':
                        outs.append((st3, 'ok', None))
                    else:
                        outs.append((st3, ctrl, v))
        return outs

    # ------------------------------------------------------------------------------------------
    # expressions: ev(node, st) -> list of (state, value | Raise)

    def ev(self, node, st):
        m = getattr(self, 'ex_' + type(node).__name__, None)
        if m is None:
            raise Unsupported('expression %s at line %d' % (type(node).__name__,
                                                            getattr(node, 'lineno', 0)))
        return m(node, st)

    def ev_many(self, nodes, st):
        """-> list of (state, [values]) or (state, Raise)"""
        outs = [(st, [])]
        for n in nodes:
            nxt = []
            for (st1, vals) in outs:
                if isinstance(vals, Raise):
                    nxt.append((st1, vals))
                    continue
                for (st2, v) in self.ev(n, st1):
                    if isinstance(v, Raise):
                        nxt.append((st2, v))
                    else:
                        nxt.append((st2, vals + [v]))
            outs = nxt
        return outs

    def ex_Constant(self, node, st):
        return [(st, node.value)]

    def ex_JoinedStr(self, node, st):
        """f-string: the embedded expressions are evaluated (they may raise, they have effects);
        the result is an opaque string, except that -- exactly like `template.format(ints)` -- a
        text without separators whose fields are integers in d/x/o/b notation is a plain name"""
        exprs = [v.value for v in node.values if isinstance(v, ast.FormattedValue)]
        outs = []
        for (s1, vals) in self.ev_many(exprs, st):
            if isinstance(vals, Raise):
                outs.append((s1, vals))
                continue
            r = Sym(fresh('fstr', StrS), STR, fresh=True)
            tmpl, ok = '', True
            for v in node.values:
                if isinstance(v, ast.Constant) and isinstance(v.value, str):
                    tmpl += v.value.replace('{', '{{').replace('}', '}}')
                elif isinstance(v, ast.FormattedValue):
                    spec = ''
                    if v.format_spec is not None:
                        parts = v.format_spec.values
                        if len(parts) == 1 and isinstance(parts[0], ast.Constant):
                            spec = ':' + str(parts[0].value)
                        else:
                            ok = False
                    if v.conversion not in (-1, None):
                        ok = False
                    tmpl += '{' + spec + '}'
                else:
                    ok = False
            lib = self.intr
            if ok and vals and hasattr(lib, '_plain_name_template') \
                    and lib._plain_name_template(tmpl) and all(lib._is_int(a) for a in vals):
                from .lib import SIMPLE_NAME
                s1.assume(SIMPLE_NAME(r.t))
            outs.append((s1, r))
        return outs

    def ex_Name(self, node, st):
        n = node.id
        if n in st.env:
            return [(st, st.env[n])]
        return [(st, self.global_name(n))]

    def global_name(self, n):
        names = self.prog.module_names.get(self.cur_module, {})
        if n in names:
            kind, what = names[n]
            if kind == 'mod':
                return ModV(what)
            if kind == 'cls':
                return ClassV(what)
            if kind == 'func':
                return FuncV(what)
            if kind == 'global':
                return ModV('$global.' + what)
        if n in EXC:
            return ClassV(n)
        return self.intr.builtin(n)

    def ex_Tuple(self, node, st):
        return [(s1, v if isinstance(v, Raise) else TupleV(v))
                for (s1, v) in self.ev_many(node.elts, st)]

    def ex_List(self, node, st):
        return [(s1, v if isinstance(v, Raise) else ListV(v))
                for (s1, v) in self.ev_many(node.elts, st)]

    def ex_Set(self, node, st):
        raise Unsupported('set literal')

    def ex_Dict(self, node, st):
        if not node.keys:
            return [(st, self.intr.empty_dict(self, st, node))]
        outs = []
        for (s1, vals) in self.ev_many(list(node.keys) + list(node.values), st):
            if isinstance(vals, Raise):
                outs.append((s1, vals))
            else:
                n = len(node.keys)
                outs.append((s1, self.intr.dict_literal(self, s1, vals[:n], vals[n:], node)))
        return outs

    def ex_Lambda(self, node, st):
        return [(st, LambdaV(node))]

    def ex_IfExp(self, node, st):
        outs = []
        for (s1, c) in self.ev_cond(node.test, st):
            if isinstance(c, Raise):
                outs.append((s1, c))
            elif c:
                outs.extend(self.ev(node.body, s1))
            else:
                outs.extend(self.ev(node.orelse, s1))
        return outs

    def ex_BoolOp(self, node, st):
        is_and = isinstance(node.op, ast.And)
        outs = []
        cur = [(st, None)]
        for i, sub in enumerate(node.values):
            last = i == len(node.values) - 1
            nxt = []
            for (s0, _) in cur:
                for (s1, v) in self.ev(sub, s0):
                    if isinstance(v, Raise):
                        outs.append((s1, v))
                        continue
                    if last:
                        outs.append((s1, v))
                        continue
                    t = self.truth(v, s1)
                    for (s2, b) in self.branch(s1, t, 'B%d' % getattr(sub, 'lineno', 0)):
                        if b == is_and:
                            nxt.append((s2, None))        # continue evaluating
                        else:
                            outs.append((s2, v if not isinstance(v, Sym) or v.ty.kind != 'bool'
                                         else (not is_and)))
            cur = nxt
        return outs

    def ex_UnaryOp(self, node, st):
        outs = []
        for (s1, v) in self.ev(node.operand, st):
            if isinstance(v, Raise):
                outs.append((s1, v))
            elif isinstance(node.op, ast.Not):
                t = self.truth(v, s1)
                outs.append((s1, (not t) if isinstance(t, bool) else Sym(z3.Not(t), BOOL)))
            elif isinstance(node.op, ast.USub):
                if isinstance(v, Sym) and v.ty.kind == 'int':
                    outs.append((s1, Sym(-v.t, INT)))
                elif isinstance(v, (int, float)):
                    outs.append((s1, -v))
                elif isinstance(v, Sym) and v.ty.kind == 'pyv':
                    t = v.t
                    outs.append((s1, Sym(z3.If(PyV.is_PInf(t), PyV.PInf(z3.Not(PyV.pneg(t))),
                                               z3.If(PyV.is_PInt(t), PyV.PInt(-PyV.pi(t)),
                                                     PyV.PFloat(-PyV.pr(t)))), PYV)))
                else:
                    raise Unsupported('unary minus')
            else:
                raise Unsupported('unary op')
        return outs

    def ex_BinOp(self, node, st):
        outs = []
        for (s1, vals) in self.ev_many([node.left, node.right], st):
            if isinstance(vals, Raise):
                outs.append((s1, vals))
            else:
                outs.append((s1, self.intr.binop(self, s1, node.op, vals[0], vals[1], node)))
        return outs

    def ex_Compare(self, node, st):
        # a op1 b op2 c ... with short circuit
        outs = []

        def go(st0, left, idx):
            if idx == len(node.ops):
                outs.append((st0, True))
                return
            for (s1, right) in self.ev(node.comparators[idx], st0):
                if isinstance(right, Raise):
                    outs.append((s1, right))
                    continue
                r = self.intr.compare(self, s1, node.ops[idx], left, right, node)
                if isinstance(r, Raise):
                    outs.append((s1, r))
                    continue
                if idx == len(node.ops) - 1:
                    outs.append((s1, r))
                    continue
                t = self.truth(r)
                for (s2, b) in self.branch(s1, t, 'C%d' % node.lineno):
                    if b:
                        go(s2, right, idx + 1)
                    else:
                        outs.append((s2, False))
        for (s0, left) in self.ev(node.left, st):
            if isinstance(left, Raise):
                outs.append((s0, left))
            else:
                go(s0, left, 0)
        return outs

    def ex_Attribute(self, node, st):
        outs = []
        for (s1, v) in self.ev(node.value, st):
            if isinstance(v, Raise):
                outs.append((s1, v))
            else:
                outs.extend(self.get_attr(s1, v, node.attr, node))
        return outs

    def get_attr(self, st, v, attr, node):
        if isinstance(v, ModV):
            return [(st, self.intr.module_attr(self, v, attr))]
        if isinstance(v, ClassV):
            fi = self.prog.find_method(v.name, attr)
            if fi is not None:
                return [(st, FuncV(fi.qualname))]
            key = v.name + '.' + attr
            if key in self.prog.class_attrs:
                return [(st, self.intr.class_attr(self, st, v.name, attr,
                                                  self.prog.class_attrs[key]))]
            return [(st, self.intr.class_member(self, st, v, attr))]
        if isinstance(v, Sym) and v.ty.kind == 'opt' and v.ty.args[0].kind == 'obj':
            outs = []
            for (s1, isnone) in self.branch(st, v.ty.sort().is_none(v.t), 'N%d' % node.lineno):
                if isnone:
                    outs.append((s1, Raise(new_exc('AttributeError'))))
                else:
                    outs.extend(self.get_attr(s1, self.unwrap_opt(s1, v), attr, node))
            return outs
        if isinstance(v, Sym) and v.ty.kind == 'obj':
            field, owner = self.resolve_field(v.ty.cls, attr)
            if field is not None:
                fty = self.fields[field]
                outs = []
                if owner != v.ty.cls and owner in cls_subclasses(v.ty.cls) and owner != v.ty.cls:
                    # field of a subclass: AttributeError unless the object is an instance
                    for (s1, ok) in self.branch(st, cls_isinstance(v.t, owner),
                                                'A%d' % node.lineno):
                        if ok:
                            fv = self.from_field(self.hread(s1, field, v.t), fty, v.t, field)
                            self.assume_alloc(s1, fv)
                            outs.append((s1, fv))
                        else:
                            outs.append((s1, Raise(new_exc('AttributeError'))))
                    return outs
                fv = self.from_field(self.hread(st, field, v.t), fty, v.t, field)
                self.assume_alloc(st, fv)
                return [(st, fv)]
            fi = self.prog.find_method(v.ty.cls, attr)
            if fi is not None:
                return [(st, FuncV(fi.qualname, v))]
            return [(st, self.intr.obj_attr(self, st, v, attr, node))]
        return [(st, self.intr.value_attr(self, st, v, attr, node))]

    def ex_Subscript(self, node, st):
        if isinstance(node.slice, ast.Slice):
            return self.ex_Slice(node, st)
        outs = []
        for (s1, vals) in self.ev_many([node.value, node.slice], st):
            if isinstance(vals, Raise):
                outs.append((s1, vals))
            else:
                outs.extend(self.intr.get_item(self, s1, vals[0], vals[1], node))
        return outs

    def ex_Slice(self, node, st):
        """seq[:n] on a symbolic list (prefix of length n)"""
        sl = node.slice
        if sl.lower is not None or sl.step is not None or sl.upper is None:
            raise Unsupported('slice shape')
        outs = []
        for (s1, vals) in self.ev_many([node.value, sl.upper], st):
            if isinstance(vals, Raise):
                outs.append((s1, vals))
                continue
            seq, n = vals
            if isinstance(seq, Sym) and seq.ty.kind == 'list':
                nt = lift(n)
                # Python clamps the bound; only 0 <= n <= len is modelled
                self.oblige(s1, z3.And(nt >= 0, nt <= z3.Length(seq.t)), 'type',
                            'slice-bound-in-range@L%d' % node.lineno, line=node.lineno)
                outs.append((s1, IterV('prefix', seq, nt)))
            else:
                raise Unsupported('slice of %r' % (seq,))
        return outs

    def set_item(self, st, container_node, key, v):
        return self.intr.set_item(self, st, container_node, key, v)

    def ex_ListComp(self, node, st):
        return self.intr.listcomp(self, st, node)

    def ex_Starred(self, node, st):
        raise Unsupported('starred outside call')

    # ----- calls --------------------------------------------------------------------------------

    def ex_Call(self, node, st):
        outs = []
        for (s1, f) in self.ev(node.func, st):
            if isinstance(f, Raise):
                outs.append((s1, f))
                continue
            outs.extend(self.call_with_nodes(s1, f, node))
        return outs

    def call_with_nodes(self, st, f, node):
        # evaluate arguments left to right (starred handled by intrinsics/callbacks)
        pos_nodes = []
        star = None
        for a in node.args:
            if isinstance(a, ast.Starred):
                star = a.value
            else:
                pos_nodes.append(a)
        kw_nodes = [k for k in node.keywords if k.arg is not None]
        dstar = [k.value for k in node.keywords if k.arg is None]
        all_nodes = pos_nodes + ([star] if star is not None else []) + [k.value for k in kw_nodes] \
            + dstar
        outs = []
        for (s1, vals) in self.ev_many(all_nodes, st):
            if isinstance(vals, Raise):
                outs.append((s1, vals))
                continue
            i = len(pos_nodes)
            pos = vals[:i]
            starv = None
            if star is not None:
                starv = vals[i]
                i += 1
            kws = {k.arg: v for k, v in zip(kw_nodes, vals[i:i + len(kw_nodes)])}
            i += len(kw_nodes)
            dstarv = vals[i] if dstar else None
            outs.extend(self.call(s1, f, pos, kws, node, starv, dstarv))
        return outs

    def call(self, st, f, pos, kws, node, starv=None, dstarv=None):
        if isinstance(f, IntrinsicV):
            return self.intr.call(self, st, f, pos, kws, node, starv, dstarv)
        if isinstance(f, CallbackV):
            return self.intr.call_callback(self, st, f, pos, kws, node, starv, dstarv)
        if isinstance(f, ClassV):
            return self.intr.construct(self, st, f, pos, kws, node)
        if isinstance(f, FuncV):
            star_sym = None
            if starv is not None:
                if isinstance(starv, (ListV, TupleV)):
                    pos = pos + list(starv.items)
                else:
                    star_sym = starv
            if f.self_val is not None:
                pos = [f.self_val] + pos
            return self.call_repo(st, f.qualname, pos, kws, node, dstarv, star_sym)
        if isinstance(f, LambdaV):
            raise Unsupported('call of lambda')
        raise Unsupported('call of %r' % (f,))

    def bind_params(self, fi, pos, kws):
        params = fi.params
        args = {}
        if len(pos) > len(params) and fi.vararg is None:
            raise Unsupported('too many args for %s' % fi.qualname)
        for p, v in zip(params, pos):
            args[p] = v
        if fi.vararg is not None:
            args[fi.vararg] = TupleV(pos[len(params):])
        ndef = len(fi.defaults)
        for i, p in enumerate(params):
            if p in args:
                continue
            if p in kws:
                args[p] = kws[p]
                continue
            di = i - (len(params) - ndef)
            if di >= 0:
                args[p] = ('$default', fi.defaults[di])
            else:
                raise Unsupported('missing argument %s of %s' % (p, fi.qualname))
        return args

    def call_repo(self, st, qualname, pos, kws, node, dstarv=None, star_sym=None):
        fi = self.prog.funcs.get(qualname)
        if fi is None:
            raise Unsupported('unknown function ' + qualname)
        con = self.reg.get(qualname)
        if fi.foreign_decorators and (con is None or not con.trusted):
            # inlining (or applying the verified contract of) a wrapped function would ignore the
            # wrapper
            raise Unsupported('call of %s, which is wrapped by decorator(s) %s' % (
                qualname, ', '.join(fi.foreign_decorators)))
        args = self.bind_params(fi, pos, kws)
        if star_sym is not None:
            if fi.vararg is None or len(pos) != len(fi.params):
                raise Unsupported('star call of %s with a symbolic sequence' % qualname)
            args[fi.vararg] = star_sym
        for k, v in list(args.items()):
            if isinstance(v, tuple) and v and v[0] == '$default':
                d = v[1]
                if isinstance(d, ast.Constant):
                    args[k] = d.value
                else:
                    r = self.ev(d, st)
                    args[k] = r[0][1]
        if fi.kwarg is not None:
            args[fi.kwarg] = dstarv if dstarv is not None else self.intr.kwargs_value(kws, fi)
        if con is None or getattr(con, 'force_inline', False):
            return self.inline_call(st, fi, args, node)
        return self.apply_contract(st, fi, con, args, node)

    def inline_call(self, st, fi, args, node):
        if st.depth >= MAX_INLINE_DEPTH:
            raise Unsupported('inline depth exceeded at %s' % fi.qualname)
        self.stats['inlined'].add(self.prog.short(fi.qualname))
        saved_env = st.env
        saved_mod, saved_loops = self.cur_module, self.cur_loops
        saved_lt = None
        st.env = dict(args)
        st.env['$outer'] = saved_env
        if '$handling' in saved_env:
            st.env['$handling'] = saved_env['$handling']
        st.depth += 1
        self.cur_module = fi.module
        self.index_loops(fi)
        self.cur_loops = getattr(self.cur_contract, 'inlined_loops', {}).get(
            self.prog.short(fi.qualname), {})
        self.inline_class_stack.append(fi.cls)
        outs = []
        try:
            res = self.exec_block(fi.body(), st)
        finally:
            self.cur_module, self.cur_loops = saved_mod, saved_loops
            self.inline_class_stack.pop()
        for (s1, ctrl, v) in res:
            handling = saved_env.get('$handling')
            s1.env = dict(saved_env)
            s1.depth -= 1
            if ctrl in ('ok', 'ret'):
                outs.append((s1, v if ctrl == 'ret' else None))
            elif ctrl == 'exc':
                outs.append((s1, Raise(v)))
            else:
                raise Unsupported('break/continue escaping function')
        return outs

    def coerce_arg(self, v, ty):
        """call-site value -> Sym of the declared parameter type (or raw for non-symbolic)"""
        if ty is None or not isinstance(ty, Ty):
            return v
        if isinstance(v, Sym):
            if v.ty.sort() == ty.sort():
                return Sym(v.t, ty if ty.kind != 'obj' or ty.cls else v.ty, fresh=v.fresh)
            if v.ty.kind == 'pyv' and ty.kind == 'str':
                # a JSON value used where the callee needs a str: it must BE a str (values read
                # from the cache file are whatever the file held)
                from spec import json_spec as J
                st_ = getattr(self, '_coerce_state', None)
                if st_ is not None:
                    self.oblige(st_, J.is_str(J.base_of(v.t)), 'type', 'json-value-is-a-str')
                return Sym(PyV.ps(J.base_of(v.t)), STR)
            if v.ty.kind == 'opt' and v.ty.args[0].sort() == ty.sort():
                # Optional value passed where the callee dereferences it: must not be None
                st_ = getattr(self, '_coerce_state', None)
                if st_ is not None:
                    self.oblige(st_, v.ty.sort().is_some(v.t), 'type', 'argument-not-None')
                return Sym(v.ty.sort().val(v.t), ty, fresh=v.fresh)
            if ty.kind == 'pyv' and v.ty.kind in ('str', 'int', 'bool'):
                return Sym(self.intr.to_pyv(v), PYV)
            if ty.kind == 'opt' and v.ty.sort() == ty.args[0].sort():
                return Sym(ty.sort().some(v.t), ty)
            raise Unsupported('argument sort mismatch %r for %r' % (v.ty, ty))
        if v is None and ty.kind == 'opt':
            return Sym(ty.sort().none, ty)
        if v is None and ty.kind == 'pyv':
            return Sym(PyV.PNone, PYV)
        if isinstance(v, (bool, int, str)):
            if ty.kind == 'pyv':
                return Sym(self.intr.const_to_pyv(v), PYV)
            return Sym(lift(v), ty)
        if isinstance(v, ListV) and ty.kind == 'list':
            return self.to_seq(v, ty)
        if isinstance(v, ListV) and ty.kind == 'pyv':
            return Sym(self.intr.listv_to_pyv(v), PYV, fresh=v.fresh)
        if isinstance(v, (CallbackV, TupleV, ArgsV, ExcV)):
            return v
        from .lib import EmptyDictV, EmptySetV
        if isinstance(v, (EmptyDictV, EmptySetV)):
            if ty.kind == 'pyv':
                return Sym(PyV.PDict(KVs.knil), PYV, fresh=True)
            return self.intr.empty_of(ty)
        raise Unsupported('cannot pass %r as %r' % (v, ty))

    def apply_contract(self, st, fi, con, args, node):
        self.stats['callee_contracts'].add(self.prog.short(fi.qualname))
        cargs = {}
        self._coerce_state = st
        for p, v in args.items():
            cargs[p] = self.coerce_arg(v, con.params.get(p))
        self._coerce_state = None
        pre = st.fork()
        c0 = Ctx(self, pre, pre, cargs, entry=pre)
        line = getattr(node, 'lineno', None)
        short = self.prog.short(fi.qualname)
        for (label, f) in con.requires(c0):
            if label.startswith('def-'):
                continue      # definitional axiom of a ghost predicate, not a caller obligation
            if label.startswith('assume-'):
                # documented protocol assumption of the callee that no caller can establish
                # locally; recorded, not proved
                self.stats.setdefault('assumed_preconditions', set()).add(
                    '%s: %s' % (short, label))
                continue
            self.oblige(st, f, 'pre', '%s.%s@L%s' % (short, label, line),
                        props=sorted(set(con.props) | set(self.cur_contract.props)), line=line)
        cg = (getattr(self.cur_contract, 'call_guards', None) or {}).get(short)
        if cg is not None:
            for (label, f, props) in cg(self, st, cargs):
                self.oblige(st, f, 'guard', '%s.%s@L%s' % (short.split('.')[-1], label, line),
                            props=props, line=line)
        # lockset at a call: a helper that reads or writes guarded state on behalf of the caller
        # (documented "acquires the locks first") is called only with those locks held
        for lock in (getattr(self.cur_contract, 'lock_calls', None) or {}).get(short, ()):
            self.oblige(st, z3.BoolVal(lock in st.locks), 'lockset',
                        'call.%s.%s@L%s' % (short.split('.')[-1], lock, line), line=line)
        # recursion: termination measure
        if self.cur is not None and fi.qualname == self.cur.qualname and con.decreases is not None:
            d_callee = con.decreases(c0)
            d_self = self.cur_contract.decreases(Ctx(self, self.entry_state, self.entry_state,
                                                     self.cur_args, entry=self.entry_state))
            self.oblige(st, z3.And(d_callee < d_self, d_self >= 0), 'decreases',
                        'rec@L%s' % line, line=line)
        outs = []
        mods = con.modifies(c0)
        # normal outcome
        branches = []
        if con.may_return:
            branches.append(('ret', None))
        for es in con.raises:
            branches.append(('exc', es))
        for kind, es in branches:
            s1 = st.fork()
            mods_here = mods
            if es is not None and es.modifies is not None:
                mods_here = es.modifies(c0)
            for m in mods_here:
                if isinstance(m, str):
                    if m.startswith('g:'):
                        s1.g[m[2:]] = fresh('Gc!' + m[2:], self.GHOST_SORTS[m[2:]])
                    else:
                        self.hhavoc(s1, m, 'Hc')
                else:
                    field, obj = m
                    val = fresh('Hv!' + field, self.fields[field].sort())
                    self.hwrite(s1, field, obj, val)
            if kind == 'ret':
                res = None
                if con.returns is not None:
                    if isinstance(con.returns, Ty):
                        res = Sym(fresh('res_' + fi.node.name, con.returns.sort()), con.returns,
                                  fresh=con.ret_fresh)
                    else:
                        res = con.returns(self, s1, cargs)    # custom result builder
                if 'alloc' in self.GHOST_SORTS:
                    # the callee may allocate: the allocated set grows, results are allocated
                    a1 = self.gread(s1, 'alloc')
                    a2 = fresh('Gc!alloc', a1.sort())
                    s1.assume(a2 >= a1)
                    self.gwrite(s1, 'alloc', a2)
                    self.assume_alloc(s1, res)
                outs_ = self._fresh_outs(con)
                c1 = Ctx(self, pre, s1, cargs, res=(res.t if isinstance(res, Sym) else res),
                         entry=pre, outs=outs_)
                self._store_outs(s1, fi, con, node, outs_)
                # when the exact exceptional guards are known the normal outcome excludes them
                for es2 in con.raises:
                    if es2.when is not None and es2.forces:
                        s1.assume(z3.Not(es2.when(c0)))
                for item in con.ensures(c1):
                    s1.assume(item[1])
                if getattr(con, 'ghost_updates', None) is not None:
                    # c1: the update may mention the result of the call
                    for gname, gval in con.ghost_updates(c1).items():
                        s1.g[gname] = gval
                if not self.feasible(s1):
                    continue
                s1.trace.append('c%s:ret' % (line,))
                outs.append((s1, res))
            else:
                if es.cls in ('Exception', 'OSError', 'BaseException'):
                    # a generic clause stands for every subclass
                    ecls = fresh('callee_exc_cls', ExcClsS)
                    s1.assume(exc_issub(ecls, es.cls))
                    s1.assume(ecls != EXC['BaseException'])
                    exc = ExcV(ecls, fresh('exc', z3.IntSort()), 'callee')
                else:
                    exc = new_exc(es.cls, 'callee')
                if es.when is not None:
                    s1.assume(es.when(c0))
                outs_ = self._fresh_outs(con)
                c1 = Ctx(self, pre, s1, cargs, exc=exc, entry=pre, outs=outs_)
                self._store_outs(s1, fi, con, node, outs_)
                for item in es.ensures(c1):
                    s1.assume(item[1])
                if getattr(con, 'ghost_updates', None) is not None \
                        and getattr(con, 'ghost_updates_on', 'all') != 'ret':
                    for gname, gval in con.ghost_updates(c0).items():
                        s1.g[gname] = gval
                if not self.feasible(s1):
                    continue
                s1.trace.append('c%s:%s' % (line, es.cls))
                outs.append((s1, Raise(exc)))
        return outs

    def _fresh_outs(self, con):
        return {n: Sym(fresh('out_' + n, ty.sort()), ty)
                for n, ty in (getattr(con, 'inout', None) or {}).items()}

    def _store_outs(self, st, fi, con, node, outs):
        """an in-out parameter is a list object the callee mutates in place: after the call the
        caller's variable that was passed denotes the list's final value"""
        if not outs:
            return
        params = list(fi.params)
        if params and params[0] == 'self' and not fi.is_static:
            params = params[1:]
        for n, v in outs.items():
            if n not in params:
                raise Unsupported('in-out parameter %s of %s not positional' % (n, fi.qualname))
            i = params.index(n)
            kw = [k.value for k in getattr(node, 'keywords', []) if k.arg == n]
            arg = node.args[i] if i < len(getattr(node, 'args', [])) else (kw[0] if kw else None)
            if not isinstance(arg, ast.Name):
                raise Unsupported('in-out argument of %s must be a local variable' % fi.qualname)
            st.env[arg.id] = v

    # ------------------------------------------------------------------------------------------
    # top level: verify one function against its contract

    def index_loops(self, fi):
        n = 0
        for x in ast.walk(fi.node):
            pass
        # source order = order of (lineno, col)
        loops = [x for x in ast.walk(fi.node) if isinstance(x, (ast.For, ast.While))]
        loops.sort(key=lambda x: (x.lineno, x.col_offset))
        for i, x in enumerate(loops):
            self.loop_ordinals[id(x)] = i
        return len(loops)

    def verify(self, qualname, con=None):
        fi = self.prog.funcs[qualname]
        if fi.foreign_decorators:
            raise Unsupported('function %s is wrapped by decorator(s) %s' % (
                qualname, ', '.join(fi.foreign_decorators)))
        con = con or self.reg[qualname]
        self.cur = fi
        self.cur_contract = con
        self.inline_class_stack = [fi.cls]
        self.cur_module = fi.module
        self.cur_loops = con.loops
        self.unverified_termination = set()
        self.index_loops(fi)
        st = St()
        args = {}
        for p in fi.params:
            ty = con.params.get(p)
            if ty is None:
                raise Unsupported('contract of %s lacks type of parameter %s' % (qualname, p))
            if isinstance(ty, Ty):
                args[p] = Sym(z3.Const('p!' + p, ty.sort()), ty)
            else:
                args[p] = ty      # a ready-made value (CallbackV, ...)
        if fi.vararg:
            args[fi.vararg] = con.params.get(fi.vararg)
        if fi.kwarg:
            args[fi.kwarg] = con.params.get(fi.kwarg)
        self.cur_args = args
        st.env = dict(args)
        # every name the function binds (for Ctx._gone: contract clauses about renamed locals)
        self.cur_local_names = set(args) | set(
            n.id for n in ast.walk(fi.node) if isinstance(n, ast.Name)
            and isinstance(n.ctx, (ast.Store, ast.Del))) | set(
            a.arg for a in ast.walk(fi.node) if isinstance(a, ast.arg))
        for q_, fi_ in self.prog.funcs.items():
            # (loops of inlined callees are annotated through this contract as well)
            if getattr(con, 'inlined_loops', None) and self.prog.short(q_) in con.inlined_loops:
                self.cur_local_names |= set(
                    n.id for n in ast.walk(fi_.node) if isinstance(n, ast.Name)
                    and isinstance(n.ctx, (ast.Store, ast.Del))) | set(
                    a.arg for a in ast.walk(fi_.node) if isinstance(a, ast.arg))
        self.renamed_locals = set(n for n in (con.local_types or {})
                                  if n not in self.cur_local_names)
        if 'alloc' in self.GHOST_SORTS:
            for p_, v_ in args.items():
                self.assume_alloc(st, v_)
        self.intr.init_state(self, st, con)
        entry = st.fork()
        self.entry_state = entry
        c0 = Ctx(self, entry, entry, args, entry=entry)
        reqs = con.requires(c0)
        for (label, f) in reqs:
            st.assume(f)
        # vacuity: the precondition must be satisfiable
        self.cover = self.feasible(st)
        outcomes = self.exec_block(fi.body(), st)
        self.stats['paths'] += len(outcomes)
        def frame_obligations(s1, mods, tag=''):
            mod_fields_all = set(m for m in mods if isinstance(m, str) and not m.startswith('g:'))
            mod_ghost = set(m[2:] for m in mods if isinstance(m, str) and m.startswith('g:'))
            mod_objs = {}
            for m in mods:
                if not isinstance(m, str):
                    mod_objs.setdefault(m[0], []).append(m[1])
            for field in list(s1.heap.keys()):
                if field in mod_fields_all:
                    continue
                base1, writes1 = s1.heap[field]
                base0, writes0 = self.hfield(entry, field)
                allowed = mod_objs.get(field, [])
                if not base1.eq(base0):
                    self.oblige(s1, base1 == base0, 'frame', tag + field + '.all-objects')
                seen_o = []
                for (o, v) in writes1:
                    if any(o.eq(a) for a in allowed) or any(o.eq(x) for x in seen_o):
                        continue
                    seen_o.append(o)
                    cur, ent = self.hread(s1, field, o), self.hread(entry, field, o)
                    if cur.eq(ent):
                        continue
                    notallowed = z3.And([o != a for a in allowed]) if allowed else z3.BoolVal(True)
                    if 'alloc' in self.GHOST_SORTS:
                        # frames speak about objects that existed at entry
                        notallowed = z3.And(notallowed, is_alloc(self.gread(entry, 'alloc'), o))
                    self.oblige(s1, z3.Implies(notallowed, cur == ent), 'frame', tag + field)
            for gname in list(s1.g.keys()):
                if gname in mod_ghost or gname in ('alloc', 'cb_exc') or gname in self.SCRATCH_GHOSTS:
                    continue
                g0 = self.gread(entry, gname)
                if not g0.eq(s1.g[gname]):
                    self.oblige(s1, s1.g[gname] == g0, 'frame', tag + 'g:' + gname)
        mods = con.modifies(c0)
        exit_hook = getattr(con, 'exit_obligations', None)
        # "every exception that leaves the function is declared" is an obligation of every
        # function even when no exceptional path exists (so that a later undeclared exception is a
        # regression of a named obligation)
        self.oblige(entry, z3.BoolVal(True), 'exc', 'declared-exception')
        gu = getattr(con, 'ghost_updates', None)
        for (s1, ctrl, v) in outcomes:
            if gu is not None and ctrl in (('ok', 'ret') if getattr(con, 'ghost_updates_on', 'all')
                                           == 'ret' else ('ok', 'ret', 'exc')):
                # marker ghosts of this function ("the call happened"): set by definition at
                # every exit, as its callers assume
                cg = c0 if ctrl == 'exc' else Ctx(
                    self, entry, s1, args, res=(v.t if isinstance(v, Sym) else v), entry=entry)
                for gname, gval in gu(cg).items():
                    s1.g[gname] = gval
            if exit_hook is not None and ctrl in ('ok', 'ret', 'exc'):
                # obligations over the locals at the exit (e.g. objects created by this call)
                for (label, f, props) in exit_hook(self, s1, ctrl, v):
                    self.oblige(s1, f, 'exit', label, props=props)
            if ctrl in ('ok', 'ret'):
                if not con.may_return:
                    self.oblige(s1, False, 'post', 'never-returns')
                    continue
                res = v
                c1 = Ctx(self, entry, s1, args, res=self.result_term(res, con, s1), entry=entry,
                         outs={n: s1.env.get(n) for n in (getattr(con, 'inout', None) or {})})
                c1.resval = res
                for es in con.raises:
                    if es.when is not None and es.forces:
                        self.oblige(s1, z3.Not(es.when(c0)), 'post',
                                    'returns-only-if-not-%s' % es.cls, props=es.props or None)
                for item in con.ensures(c1):
                    label, f = item[0], item[1]
                    props = item[2] if len(item) > 2 else None
                    self.oblige(s1, f, 'post', label, props=props)
                frame_obligations(s1, mods)
                if con.ret_fresh:
                    # ownership: the returned value shares no mutable structure with anything that
                    # existed before the call (provenance flag, or provably an immutable atom)
                    self.oblige(s1, self.intr.fresh_goal(self, s1, res), 'region', 'result-fresh',
                                props=getattr(con, 'fresh_props', None))
            elif ctrl == 'exc':
                exc = v

                def cls_cond(es):
                    cc = (exc_issub(exc.cls, es.cls)
                          if es.cls in ('OSError', 'Exception', 'BaseException')
                          else exc.cls == EXC[es.cls])
                    if es.guarded:
                        cc = z3.And(cc, es.when(c0))
                    return cc
                allowed = [cls_cond(es) for es in con.raises]
                self.oblige(s1, z3.Or(allowed) if allowed else False, 'exc',
                            'declared-exception')
                for es in con.raises:
                    cond = cls_cond(es)
                    s2 = s1.fork()
                    if not self.feasible(s2, cond):
                        continue
                    s2.assume(cond)
                    c1 = Ctx(self, entry, s2, args, exc=exc, entry=entry,
                             outs={n: s2.env.get(n) for n in (getattr(con, 'inout', None) or {})})
                    if es.when is not None and not es.guarded and es.exact:
                        self.oblige(s2, es.when(c0), 'exc-when', es.cls, props=es.props or None)
                    for item in es.ensures(c1):
                        label, f = item[0], item[1]
                        props = item[2] if len(item) > 2 else (es.props or None)
                        self.oblige(s2, f, 'exc-post', '%s.%s' % (es.cls, label), props=props)
                    frame_obligations(s2, es.modifies(c0) if es.modifies is not None else mods,
                                      'exc.%s.' % es.cls)
            else:
                raise Unsupported('loop control escaping function')
        if self.renamed_locals:
            for o in self.obls:
                o.extra = dict(o.extra or {}, weak_path=True,
                               contract_locals_missing=sorted(self.renamed_locals))
        return self.obls

    def result_term(self, res, con, st):
        if isinstance(res, Sym):
            if isinstance(con.returns, Ty) and con.returns.kind == 'opt' \
                    and res.ty.sort() == con.returns.args[0].sort():
                return con.returns.sort().some(res.t)
            if isinstance(con.returns, Ty) and res.ty.kind == 'opt' \
                    and res.ty.args[0].sort() == con.returns.sort():
                self.oblige(st, res.ty.sort().is_some(res.t), 'type', 'returns-not-None')
                return res.ty.sort().val(res.t)
            if isinstance(con.returns, Ty) and con.returns.kind == 'pyv' and res.ty.kind != 'pyv':
                return self.intr.to_pyv(res)
            if isinstance(con.returns, Ty) and con.returns.kind == 'str' and res.ty.kind == 'pyv':
                from spec import json_spec as J
                self.oblige(st, J.is_str(res.t), 'type', 'returns-a-str')
                return PyV.ps(res.t)
            return res.t
        if isinstance(con.returns, Ty) and con.returns.kind == 'pyv' \
                and (res is None or isinstance(res, (TupleV, ListV, bool, int, str, float))):
            return self.intr.to_pyv(res)
        if isinstance(con.returns, Ty):
            rt_ = con.returns
            if res is None:
                if rt_.kind == 'opt':
                    return rt_.sort().none
                if rt_.kind == 'pyv':
                    return PyV.PNone
                return None
            if isinstance(res, bool):
                if rt_.kind == 'bool':
                    return z3.BoolVal(res)
                if rt_.kind == 'pyv':
                    return PyV.PBool(z3.BoolVal(res))
                if rt_.kind == 'opt':
                    return rt_.sort().some(z3.BoolVal(res))
            if isinstance(res, int) and rt_.kind == 'int':
                return z3.IntVal(res)
            if isinstance(res, str) and rt_.kind == 'str':
                return str_lit(res)
            if isinstance(res, ListV):
                if rt_.kind == 'list':
                    return self.to_seq(res, rt_).t
                if rt_.kind == 'pyv':
                    return self.intr.listv_to_pyv(res)
        return res

"""Recursive specification functions as uninterpreted symbols + defining equations instantiated with
bounded fuel on the ground terms of a query (measured: z3's own recursive-function engine diverges
on the induction steps of the key lemma, fuel-2 instantiation answers in milliseconds).

Soundness: every added formula is an instance of a defining equation of a total, structurally
recursive function, so it holds in the intended model; `unsat` of the instantiated query therefore
implies validity of the obligation.  Incompleteness only makes obligations undecided."""
import z3

DEFN = {}        # decl name -> (decl, formal args, body)


def rec(name, *sig):
    f = z3.Function(name, *sig)
    DEFN[name] = [f, None, None]
    return f


def define(f, args, body):
    if not isinstance(body, z3.ExprRef):
        body = z3.BoolVal(body) if isinstance(body, bool) else z3.IntVal(body)
    DEFN[f.name()][1] = list(args)
    DEFN[f.name()][2] = body


def _collect(e, seen, out):
    """applications of defined functions in e, skipping anything under a quantifier"""
    stack = [e]
    while stack:
        x = stack.pop()
        i = x.get_id()
        if i in seen:
            continue
        seen.add(i)
        if z3.is_quantifier(x):
            continue
        if z3.is_app(x):
            d = x.decl()
            if d.kind() == z3.Z3_OP_UNINTERPRETED and d.name() in DEFN and x.num_args() > 0:
                out.append(x)
            stack.extend(x.children())


def instance(app):
    f, formals, body = DEFN[app.decl().name()]
    actuals = app.children()
    return z3.substitute(body, *zip(formals, actuals))


def unfold(formulas, fuel=2, limit=4000):
    """-> list of defining-equation instances for the applications occurring in `formulas`"""
    seen = set()
    done = set()
    frontier = []
    for f in formulas:
        _collect(f, seen, frontier)
    eqs = []
    for level in range(fuel):
        nxt = []
        for app in frontier:
            key = app.get_id()
            if key in done:
                continue
            done.add(key)
            inst = instance(app)
            eqs.append(app == inst)
            if len(eqs) >= limit:
                return eqs
            _collect(inst, seen, nxt)
        frontier = nxt
        if not frontier:
            break
    return eqs


def _ground_foreign_apps(t, out):
    """applications of uninterpreted functions that are NOT defined here (str_lt, int_repr, ...)
    whose arguments contain no defined application"""
    stack = [t]
    seen = set()
    while stack:
        x = stack.pop()
        if x.get_id() in seen or z3.is_quantifier(x):
            continue
        seen.add(x.get_id())
        if z3.is_app(x):
            d = x.decl()
            if d.kind() == z3.Z3_OP_UNINTERPRETED and d.name() not in DEFN and x.num_args() > 0:
                inner = []
                for c in x.children():
                    _collect(c, set(), inner)
                if not inner:
                    out.append(x)
            stack.extend(x.children())


def evalc(term, budget=20000, model=None, interp=None):
    """evaluate a ground term by exhaustive unfolding + simplification (concrete inputs).
    Symbols without a definition here are read from `model` (a z3 model) or `interp` (callable
    app -> value or None); defined functions are never read from the model."""
    def simp(x):
        x = z3.simplify(x)
        if model is None and interp is None:
            return x
        for _ in range(50):
            apps = []
            _ground_foreign_apps(x, apps)
            subs = []
            for a in apps:
                v = None
                if interp is not None:
                    v = interp(a)
                if v is None and model is not None:
                    v = model.eval(a, model_completion=True)
                if v is not None and not v.eq(a):
                    subs.append((a, v))
            if not subs:
                break
            x = z3.simplify(z3.substitute(x, *subs))
        return x
    t = simp(term)
    for _ in range(budget):
        apps = []
        _collect(t, set(), apps)
        if not apps:
            return t
        # innermost-first: pick an application none of whose arguments contains a defined app
        pick = None
        for a in apps:
            inner = []
            for c in a.children():
                _collect(c, set(), inner)
            if not inner:
                pick = a
                break
        if pick is None:
            pick = apps[-1]
        t = simp(z3.substitute(t, (pick, simp(instance(pick)))))
    raise RuntimeError('evaluation budget exceeded')

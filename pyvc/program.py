"""Reads the real source of /repo on every run and indexes the functions under verification."""
import ast
import hashlib
import os

REPO = os.environ.get('PYVC_REPO', '/repo')
PKG = 'file_builder'


class FuncInfo:
    def __init__(self, qualname, module, cls, node, src_lines, path):
        self.qualname = qualname
        self.module = module
        self.cls = cls
        self.node = node
        self.path = path
        self.lineno = node.lineno
        self.end_lineno = node.end_lineno
        seg = '\n'.join(src_lines[node.lineno - 1:node.end_lineno])
        self.sha256 = hashlib.sha256(seg.encode()).hexdigest()
        self.is_static = any(isinstance(d, ast.Name) and d.id == 'staticmethod'
                             for d in node.decorator_list)
        # a decorator other than these wraps the function in code that is not analysed: such a
        # function is outside the verified subset (never verified as if the decorator were absent)
        self.foreign_decorators = [ast.unparse(d) for d in node.decorator_list
                                   if not (isinstance(d, ast.Name)
                                           and d.id in ('staticmethod', 'classmethod', 'property'))]
        self.params = [a.arg for a in node.args.args]
        self.vararg = node.args.vararg.arg if node.args.vararg else None
        self.kwarg = node.args.kwarg.arg if node.args.kwarg else None
        self.defaults = node.args.defaults

    def body(self):
        b = self.node.body
        if b and isinstance(b[0], ast.Expr) and isinstance(b[0].value, ast.Constant) \
                and isinstance(b[0].value.value, str):
            return b[1:]          # docstring dropped (DESIGN 2.3)
        return b


class Program:
    def __init__(self, repo=None):
        self.repo = repo or REPO
        self.funcs = {}
        self.classes = {}          # class name -> (module, ClassDef)
        self.class_bases = {}
        self.class_attrs = {}      # 'Class.ATTR' -> ast node of the value
        self.module_names = {}     # module -> {name: ('mod', dotted) | ('cls', name) | ...}
        self.errors = []
        pkgdir = os.path.join(self.repo, PKG)
        for fn in sorted(os.listdir(pkgdir)):
            if not fn.endswith('.py') or fn == '__init__.py':
                continue
            path = os.path.join(pkgdir, fn)
            with open(path) as f:
                src = f.read()
            try:
                tree = ast.parse(src)
            except SyntaxError as e:
                self.errors.append('%s: %s' % (path, e))
                continue
            mod = PKG + '.' + fn[:-3]
            lines = src.split('\n')
            names = {}
            for node in tree.body:
                if isinstance(node, ast.Import):
                    for al in node.names:
                        names[al.asname or al.name.split('.')[0]] = ('mod', al.name if al.asname
                                                                     else al.name.split('.')[0])
                elif isinstance(node, ast.ImportFrom):
                    for al in node.names:
                        if node.level > 0:
                            names[al.asname or al.name] = ('cls', al.name)
                        else:
                            names[al.asname or al.name] = ('mod', node.module + '.' + al.name)
                elif isinstance(node, ast.ClassDef):
                    names[node.name] = ('cls', node.name)
                    self.classes[node.name] = (mod, node)
                    self.class_bases[node.name] = [b.id for b in node.bases
                                                   if isinstance(b, ast.Name)]
                    for sub in node.body:
                        if isinstance(sub, ast.FunctionDef):
                            q = '%s.%s.%s' % (mod, node.name, sub.name)
                            self.funcs[q] = FuncInfo(q, mod, node.name, sub, lines, path)
                        elif isinstance(sub, ast.Assign) and len(sub.targets) == 1 \
                                and isinstance(sub.targets[0], ast.Name):
                            self.class_attrs[node.name + '.' + sub.targets[0].id] = sub.value
                elif isinstance(node, ast.FunctionDef):
                    q = '%s.%s' % (mod, node.name)
                    self.funcs[q] = FuncInfo(q, mod, None, node, lines, path)
                    names[node.name] = ('func', q)
                elif isinstance(node, ast.Assign) and len(node.targets) == 1 \
                        and isinstance(node.targets[0], ast.Name):
                    names[node.targets[0].id] = ('global', node.targets[0].id)
            self.module_names[mod] = names

    def find_method(self, cls, name):
        """Resolve `name` on class `cls` following base classes."""
        seen = set()
        todo = [cls]
        while todo:
            c = todo.pop(0)
            if c in seen or c not in self.classes:
                continue
            seen.add(c)
            mod, _ = self.classes[c]
            q = '%s.%s.%s' % (mod, c, name)
            if q in self.funcs:
                return self.funcs[q]
            todo.extend(self.class_bases.get(c, []))
        return None

    def short(self, qualname):
        return qualname[len(PKG) + 1:] if qualname.startswith(PKG + '.') else qualname


def context_hashes(analysed):
    """sha256 per module of everything that is NOT re-analysed on every run: module- and class-level
    statements, signatures (defaults, decorators) of all functions, and the bodies of the
    functions that are neither verified nor inlined (trusted / not analysed).  `analysed`: short
    qualified names (module.Class.func) of the functions whose bodies are read by the verifier.
    Comments and docstrings are ignored (AST dump)."""
    import glob
    out = {}
    for path in sorted(glob.glob(os.path.join(REPO, PKG, '*.py'))):
        mod = os.path.basename(path)[:-3]
        try:
            tree = ast.parse(open(path).read())
        except SyntaxError as e:
            out[mod] = 'syntax-error: %s' % e
            continue

        def strip(body, prefix):
            res = []
            for n in body:
                if isinstance(n, ast.Expr) and isinstance(n.value, ast.Constant) \
                        and isinstance(n.value.value, str):
                    continue              # docstring / bare string
                if isinstance(n, (ast.FunctionDef, ast.AsyncFunctionDef)):
                    # type annotations do not run: not part of the context
                    n.returns = None
                    for a_ in (n.args.posonlyargs + n.args.args + n.args.kwonlyargs
                               + [x for x in (n.args.vararg, n.args.kwarg) if x is not None]):
                        a_.annotation = None
                    q = prefix + n.name
                    n.body = [ast.Pass()] if q in analysed else strip(n.body, q + '.')
                elif isinstance(n, ast.ClassDef):
                    n.body = strip(n.body, prefix + n.name + '.')
                res.append(n)
            return res or [ast.Pass()]
        tree.body = strip(tree.body, mod + '.')
        out[mod] = hashlib.sha256(ast.dump(tree).encode()).hexdigest()
    return out

"""File-system, effect-trace and callback models on top of pyvc.lib (filled in below)."""
from .lib import *      # noqa
from .lib import Intrinsics


class FsIntrinsics(Intrinsics):
    pass

"""File-system, effect-trace, allocation and callback models on top of pyvc.lib.

Ghost state (contracts/shapes.py): fs_kind (real file system), eff (sequence of mutating primitives
executed by the library), ncalls (user callbacks invoked), alloc (allocated objects).

OS axioms (trusted, DESIGN 2.10): each mutating primitive either has its POSIX effect or raises an
OSError subclass without effect; every one of them may fail non-deterministically ("OtherOSError").
Every call of a mutating primitive generates a `guard@` obligation when a guard is registered for
it (C03) and is appended to `eff` whether or not it succeeds (an attempt counts).
"""
import ast
import z3

from .lib import *      # noqa
from .lib import Intrinsics, ClsTagV, EmptyDictV, EmptySetV, exc_name
from .sorts import *    # noqa
from .values import *   # noqa
from spec import json_spec as J

FS_ASSUMPTIONS = [
    'os.path.isfile/isdir/exists read the ghost file system fs_kind; no symlinks inside the managed '
    'tree; sequential execution (no external change during a call)',
    'os.mkdir/rmdir/remove/rename/replace/makedirs have the POSIX effect on fs_kind or raise an '
    'OSError subclass without effect; each may fail non-deterministically',
    'os.fsdecode/os.path.abspath: abspath(fsdecode(x)) is a str for str/bytes/PathLike and raises '
    'TypeError otherwise; abspath is idempotent',
    'gzip.open(..., "rt")/json.load/open(..., "r"|"rb")/os.stat/os.listdir/hashlib are read-only',
    'user callbacks may call any builder method, change the file system, return any object or '
    'raise any Exception; they do not touch private fields directly',
]


def _effect():
    from contracts.shapes import Effect
    return Effect


def parent_is_dir(kind, p):
    return kind[dirname(p)] == K_DIR


def kind_absent(kind, p):
    return kind[p] == K_ABSENT


FILE_TEXT = z3.Function('file_text', ObjS, BoolS)
IS_ASCII = z3.Function('is_ascii', StrS, BoolS)


class FsIntrinsics(Intrinsics):

    def __init__(self):
        super().__init__()
        self.guards = {}        # primitive name -> callable(eng, st, args) -> list[(label, formula)]
        self.class_stack = []

    # ---- names -----------------------------------------------------------------------------------
    def builtin(self, n):
        if n in ('open', 'super', 'getattr', 'callable'):
            return IntrinsicV(n)
        return super().builtin(n)

    def dotted(self, eng, d):
        if d == 'pathlib.Path':
            return IntrinsicV('pathlib.Path')
        return super().dotted(eng, d)

    def class_attr(self, eng, st, cls, attr, node):
        if cls == 'FileComparison' and isinstance(node, ast.Constant):
            # enum.Enum: the class attribute is the member object, not the value it was given
            return self.enum_member(eng, st, attr)
        if cls == 'FileBuilder' and attr == '_IS_WINDOWS':
            return False
        if cls == 'Cache' and attr == '_CACHE_FILE_VERSION':
            return Sym(PyV.PNone, PYV)
        if cls == 'Cache' and attr == '_OPERATION_VERSIONS':
            return Sym(PyV.PDict(KVs.knil), PYV)
        if cls == 'Cache' and attr == '_SOFTWARE':
            return node.value
        if cls == 'SimpleOperationExecutor' and attr == 'OPERATIONS':
            # set([...literal strings...])
            names = set()
            for x in ast.walk(node):
                if isinstance(x, ast.Constant) and isinstance(x.value, str):
                    names.add(x.value)
            return ('strset', frozenset(names))
        return super().class_attr(eng, st, cls, attr, node)

    def class_member(self, eng, st, v, attr):
        if v.name == 'FileComparison':
            o = self.enum_member(eng, st, attr)
            return o
        return super().class_member(eng, st, v, attr)

    def enum_member(self, eng, st, name):
        o = z3.Const('FileComparison!' + name, ObjS)
        st.assume(cls_of(o) == CLS['FileComparison'])
        st.assume(eng.hread(st, 'FileComparison.name', o) == str_lit(name))
        st.assume(is_alloc(eng.gread(st, 'alloc'), o))
        return Sym(o, OBJ('FileComparison'))

    # ---- allocation ------------------------------------------------------------------------------
    def new_object(self, eng, st, cls):
        o = fresh('new_' + cls, ObjS)
        al = eng.gread(st, 'alloc')
        st.assume(birth(o) == al)
        eng.gwrite(st, 'alloc', al + 1)
        if cls in CLS:
            st.assume(cls_of(o) == CLS[cls])
        return Sym(o, OBJ(cls), fresh=True)

    def construct_extra(self, eng, st, cls, pos, kws, node):
        n = cls.name
        if n in eng.prog.classes:
            obj = self.new_object(eng, st, n)
            init = eng.prog.find_method(n, '__init__')
            if init is None:
                return [(st, obj)]
            outs = []
            self.class_stack.append(init.cls)
            try:
                res = eng.call_repo(st, init.qualname, [obj] + pos, kws, node)
            finally:
                self.class_stack.pop()
            for (s1, v) in res:
                outs.append((s1, v if isinstance(v, Raise) else obj))
            return outs
        return super().construct_extra(eng, st, cls, pos, kws, node)

    def i_super(self, eng, st, f, pos, kws, node):
        cls = eng.inline_class_stack[-1] if getattr(eng, 'inline_class_stack', None) else None
        if cls is None:
            raise Unsupported('super() outside a method')
        bases = eng.prog.class_bases.get(cls, [])
        if not bases:
            raise Unsupported('super() without base')
        return [(st, ('super', bases[0], st.env.get('self')))]

    def value_attr(self, eng, st, v, attr, node):
        if isinstance(v, tuple) and v and v[0] == 'super':
            fi = eng.prog.find_method(v[1], attr)
            if fi is None:
                raise Unsupported('super().%s' % attr)
            return FuncV(fi.qualname, v[2])
        if isinstance(v, Sym) and v.ty.kind == 'tup':
            raise Unsupported('attribute of tuple')
        if isinstance(v, Sym) and v.ty.kind == 'obj' and v.ty.cls == 'StatResult':
            if attr in ('st_size', 'st_mtime_ns', 'st_mode'):
                return Sym(z3.Function('stat_' + attr, ObjS, IntS)(v.t), INT)
        if isinstance(v, Sym) and v.ty.kind == 'obj' and v.ty.cls == 'FileObj' and attr in (
                'read', 'write'):
            return IntrinsicV('file.' + attr, v)
        if isinstance(v, Sym) and v.ty.kind == 'obj' and v.ty.cls == 'Digest' and attr in (
                'update', 'hexdigest'):
            return IntrinsicV('digest.' + attr, v)
        return super().value_attr(eng, st, v, attr, node)

    def obj_attr(self, eng, st, v, attr, node):
        return self.value_attr(eng, st, v, attr, node)

    def get_item_extra(self, eng, st, cont, key, node):
        if isinstance(cont, Sym) and cont.ty.kind == 'opt' and cont.ty.args[0].kind == 'tup':
            eng.oblige(st, cont.ty.sort().is_some(cont.t), 'type', 'not-None@L%d' % node.lineno,
                       line=node.lineno)
            cont = Sym(cont.ty.sort().val(cont.t), cont.ty.args[0])
        if isinstance(cont, Sym) and cont.ty.kind == 'tup' and isinstance(key, int):
            srt = cont.ty.sort()
            acc = getattr(srt, 't%d' % key)
            return [(st, Sym(acc(cont.t), cont.ty.args[key]))]
        if isinstance(cont, ClassV) and cont.name == 'FileComparison':
            # FileComparison[name]: KeyError unless a member name
            name = lift(key)
            outs = []
            for (s1, ok) in eng.branch(st, z3.Or(name == str_lit('METADATA'),
                                                 name == str_lit('HASH')), 'E%d' % node.lineno):
                if ok:
                    o = fresh('fcmp', ObjS)
                    s1.assume(cls_of(o) == CLS['FileComparison'])
                    s1.assume(eng.hread(s1, 'FileComparison.name', o) == name)
                    outs.append((s1, Sym(o, OBJ('FileComparison'))))
                else:
                    outs.append((s1, Raise(new_exc('KeyError'))))
            return outs
        return super().get_item_extra(eng, st, cont, key, node)

    def elem(self, x, ety):
        if ety.kind == 'tup' and isinstance(x, TupleV):
            srt = ety.sort()
            return srt.mk(*[self.elem(v, t) for v, t in zip(x.items, ety.args)])
        return super().elem(x, ety)

    def isinstance_extra(self, eng, st, v, cl):
        if isinstance(v, CallbackV):
            return z3.BoolVal(False)
        if isinstance(v, ExcV):
            return exc_issub(v.cls, cl.name) if cl.name in EXC else z3.BoolVal(False)
        return super().isinstance_extra(eng, st, v, cl)

    # ---- effects -----------------------------------------------------------------------------------
    def effect(self, eng, st, eff_term, prim, args, node):
        """record an attempt of a mutating primitive + its guard obligations"""
        g = (getattr(eng.cur_contract, 'guards', None) or {}).get(prim) or self.guards.get(prim)
        if g is None and prim in ('remove', 'rmdir', 'rename', 'replace', 'rmtree', 'write_open'):
            # C03: every destructive call site must carry a ghost precondition
            eng.oblige(st, z3.BoolVal(False), 'guard', '%s.site-has-no-guard@L%s' % (prim, node.lineno),
                       props=['C03'], line=node.lineno)
        if g is not None:
            for (label, f, props) in g(eng, st, args):
                eng.oblige(st, f, 'guard', '%s.%s@L%s' % (prim, label, node.lineno), props=props,
                           line=node.lineno)
        from contracts.shapes import log_append
        e = eng.gread(st, 'eff')
        eng.gwrite(st, 'eff', log_append(e, eff_term))
        eng.gwrite(st, 'vstate', eng.gread(st, 'vstate') + 1)

    def lib_effects(self, call):
        f = call.func
        name = None
        if isinstance(f, ast.Attribute):
            # only module-level library calls (os.remove, shutil.rmtree, ...), not set.remove
            if isinstance(f.value, ast.Name) and f.value.id in ('os', 'shutil', 'tempfile',
                                                                'gzip'):
                name = f.attr
            elif (isinstance(f.value, ast.Attribute) and isinstance(f.value.value, ast.Name)
                  and f.value.value.id == 'os' and f.value.attr == 'path' and f.attr == 'isdir'):
                return {'obs_dir'}
        elif isinstance(f, ast.Name):
            name = f.id
        if name == 'mkdtemp':
            return {'fs_kind', 'eff', 'fs_epoch', 'mkdtemp_at', 'vstate'}
        if name in ('rename', 'replace', 'makedirs'):
            return {'fs_kind', 'eff', 'fs_epoch', 'vstate', 'mv_done', 'os_failed'}
        if name == 'mkdir':
            return {'fs_kind', 'eff', 'fs_epoch', 'vstate'}
        if name == 'rmdir':
            return {'fs_kind', 'eff', 'fs_epoch', 'rm_attempts', 'vstate', 'os_failed', 'ne_wit'}
        if name in ('remove', 'rmtree'):
            return {'fs_kind', 'eff', 'fs_epoch', 'rm_attempts', 'vstate'}
        if name in ('open',) and isinstance(f, ast.Attribute):
            return {'fs_kind', 'eff', 'fs_epoch', 'vstate', 'wopen_attempts'}
        return set()

    def may_fail(self, eng, st, node, classes=('OtherOSError',), at=()):
        """non-deterministic failure without effect; `at`: paths on which the primitive failed
        (scratch ghost os_failed, read by "unless the OS refused" clauses)"""
        outs = []
        for c in classes:
            s1 = st.fork()
            s1.trace.append('fail%d:%s' % (node.lineno, c))
            self.mark(eng, s1, 'os_failed', at)
            outs.append((s1, Raise(new_exc(c, 'os'))))
        return outs

    def mark(self, eng, st, ghost, paths):
        if ghost in eng.GHOST_SORTS:
            for p in paths:
                eng.gwrite(st, ghost, z3.Store(eng.gread(st, ghost), p, True))

    def kind(self, eng, st):
        return eng.gread(st, 'fs_kind')

    def path(self, eng, st, v, node):
        """z3 Str term of a path argument (an Optional[str] field must not be None here)"""
        if isinstance(v, Sym) and v.ty.kind == 'opt' and v.ty.args[0].kind == 'str':
            eng.oblige(st, v.ty.sort().is_some(v.t), 'type', 'path-not-None@L%d' % node.lineno,
                       line=node.lineno)
            return v.ty.sort().val(v.t)
        if isinstance(v, Sym) and v.ty.kind == 'pyv':
            return PyV.ps(J.base_of(v.t))
        return lift(v)

    def i_os_path_isfile(self, eng, st, f, pos, kws, node):
        return [(st, Sym(self.kind(eng, st)[lift(pos[0])] == K_FILE, BOOL))]

    def i_os_path_isdir(self, eng, st, f, pos, kws, node):
        isd = self.kind(eng, st)[lift(pos[0])] == K_DIR
        if 'obs_dir' in eng.GHOST_SORTS:
            # scratch log of observations: "isdir(p) answered True at some point"
            obs = eng.gread(st, 'obs_dir')
            eng.gwrite(st, 'obs_dir', z3.If(isd, z3.Store(obs, lift(pos[0]), True), obs))
        return [(st, Sym(isd, BOOL))]

    def i_os_path_exists(self, eng, st, f, pos, kws, node):
        return [(st, Sym(self.kind(eng, st)[lift(pos[0])] != K_ABSENT, BOOL))]

    def i_os_path_islink(self, eng, st, f, pos, kws, node):
        return [(st, False)]

    def i_os_path_getsize(self, eng, st, f, pos, kws, node):
        p = self.path(eng, st, pos[0], node)
        outs = []
        for (s1, ex) in eng.branch(st, self.kind(eng, st)[p] != K_ABSENT, 'G%d' % node.lineno):
            if ex:
                outs.append((s1, Sym(z3.Function('fs_size', StrS, IntS, IntS)(
                    p, eng.gread(s1, 'fs_epoch')), INT)))
            else:
                outs.append((s1, Raise(new_exc('FileNotFoundError', 'os'))))
        outs.extend(self.may_fail(eng, st, node))
        return outs

    def i_os_fsdecode(self, eng, st, f, pos, kws, node):
        v = pos[0]
        if isinstance(v, Sym) and v.ty.kind == 'str':
            return [(st, v)]
        if isinstance(v, str):
            return [(st, v)]
        if isinstance(v, Sym) and v.ty.kind == 'pyv':
            b = J.base_of(v.t)
            outs = []
            for (s1, isstr) in eng.branch(st, J.is_str(b), 'FS%d' % node.lineno):
                if isstr:
                    outs.append((s1, Sym(PyV.ps(b), STR)))
                else:
                    # bytes / PathLike decode to some str; anything else is a TypeError
                    s2 = s1.fork()
                    outs.append((s2, Sym(fresh('fsdecoded', StrS), STR)))
                    outs.append((s1, Raise(new_exc('TypeError', 'os'))))
            return outs
        raise Unsupported('os.fsdecode(%r)' % (v,))

    def i_os_path_abspath(self, eng, st, f, pos, kws, node):
        return [(st, Sym(abspath(lift(pos[0])), STR))]

    def i_os_mkdir(self, eng, st, f, pos, kws, node):
        E = _effect()
        p = self.path(eng, st, pos[0], node)
        self.effect(eng, st, E.Mkdir(p), 'mkdir', [p], node)
        kind = self.kind(eng, st)
        outs = []
        # success
        s1 = st.fork()
        s1.assume(z3.And(kind[p] == K_ABSENT, z3.Or(dirname(p) == p, kind[dirname(p)] == K_DIR)))
        if eng.feasible(s1):
            eng.gwrite(s1, 'fs_kind', z3.Store(kind, p, K_DIR))
            s1.trace.append('mkdir%d:ok' % node.lineno)
            outs.append((s1, None))
        s2 = st.fork()
        s2.assume(kind[p] != K_ABSENT)
        if eng.feasible(s2):
            s2.trace.append('mkdir%d:exists' % node.lineno)
            outs.append((s2, Raise(new_exc('FileExistsError', 'os'))))
        s3 = st.fork()
        s3.assume(z3.And(kind[p] == K_ABSENT, dirname(p) != p, kind[dirname(p)] == K_ABSENT))
        if eng.feasible(s3):
            s3.trace.append('mkdir%d:noparent' % node.lineno)
            outs.append((s3, Raise(new_exc('FileNotFoundError', 'os'))))
        s4 = st.fork()
        s4.assume(z3.And(kind[p] == K_ABSENT, dirname(p) != p, kind[dirname(p)] == K_FILE))
        if eng.feasible(s4):
            s4.trace.append('mkdir%d:notdir' % node.lineno)
            outs.append((s4, Raise(new_exc('NotADirectoryError', 'os'))))
        outs.extend(self.may_fail(eng, st, node))
        return outs

    def empty_dir(self, kind, p):
        c = z3.Const('qx!child', StrS)
        return z3.ForAll([c], z3.Implies(z3.And(dirname(c) == p, c != p), kind[c] == K_ABSENT))

    def i_os_rmdir(self, eng, st, f, pos, kws, node):
        E = _effect()
        p = self.path(eng, st, pos[0], node)
        self.effect(eng, st, E.Rmdir(p), 'rmdir', [p], node)
        eng.gwrite(st, 'rm_attempts', z3.Store(eng.gread(st, 'rm_attempts'), p, True))
        kind = self.kind(eng, st)
        outs = []
        s1 = st.fork()
        s1.assume(z3.And(kind[p] == K_DIR, self.empty_dir(kind, p)))
        eng.gwrite(s1, 'fs_kind', z3.Store(kind, p, K_ABSENT))
        s1.trace.append('rmdir%d:ok' % node.lineno)
        outs.append((s1, None))
        # failures, no effect: missing, not a directory, not empty (determined by the state), or
        # any other OSError (permission, busy, ...: injected, logged in the scratch ghost os_failed)
        for c in ('FileNotFoundError', 'NotADirectoryError', 'OtherOSError'):
            s2 = st.fork()
            if c == 'FileNotFoundError':
                s2.assume(kind[p] == K_ABSENT)
            elif c == 'NotADirectoryError':
                s2.assume(kind[p] == K_FILE)
            else:
                # ENOTEMPTY: some child exists; the witness is logged (scratch ghost ne_wit) so
                # that "still not empty" can be stated without an existential
                w = fresh('child_of', StrS)
                s2.assume(z3.And(kind[p] == K_DIR, dirname(w) == p, w != p, kind[w] != K_ABSENT))
                if 'ne_wit' in eng.GHOST_SORTS:
                    eng.gwrite(s2, 'ne_wit', z3.Store(eng.gread(s2, 'ne_wit'), p, w))
            if eng.feasible(s2):
                s2.trace.append('rmdir%d:%s' % (node.lineno, c))
                outs.append((s2, Raise(new_exc(c, 'os'))))
        outs.extend(self.may_fail(eng, st, node, at=[p]))
        return outs

    def i_os_remove(self, eng, st, f, pos, kws, node):
        E = _effect()
        p = self.path(eng, st, pos[0], node)
        self.effect(eng, st, E.Remove(p), 'remove', [p], node)
        # ghost: a removal (os.remove here, os.rmdir below) has been attempted on this path
        eng.gwrite(st, 'rm_attempts', z3.Store(eng.gread(st, 'rm_attempts'), p, True))
        kind = self.kind(eng, st)
        outs = []
        s1 = st.fork()
        s1.assume(kind[p] == K_FILE)
        if eng.feasible(s1):
            eng.gwrite(s1, 'fs_kind', z3.Store(kind, p, K_ABSENT))
            s1.trace.append('remove%d:ok' % node.lineno)
            outs.append((s1, None))
        for c, cond in (('FileNotFoundError', kind[p] == K_ABSENT),
                        ('IsADirectoryError', kind[p] == K_DIR), ('OtherOSError', None)):
            s2 = st.fork()
            if cond is not None:
                s2.assume(cond)
            if eng.feasible(s2):
                s2.trace.append('remove%d:%s' % (node.lineno, c))
                outs.append((s2, Raise(new_exc(c, 'os'))))
        return outs

    def _move(self, eng, st, pos, node, prim):
        E = _effect()
        a, b = self.path(eng, st, pos[0], node), self.path(eng, st, pos[1], node)
        self.effect(eng, st, (E.Rename if prim == 'rename' else E.Replace)(a, b), prim, [a, b], node)
        kind = self.kind(eng, st)
        outs = []
        s1 = st.fork()
        s1.assume(z3.And(kind[a] != K_ABSENT, kind[dirname(b)] == K_DIR,
                         z3.Or(kind[b] == K_ABSENT, z3.And(kind[b] == K_FILE, kind[a] == K_FILE))))
        if eng.feasible(s1):
            eng.gwrite(s1, 'fs_kind', z3.Store(z3.Store(kind, b, kind[a]), a, K_ABSENT))
            eng.gwrite(s1, 'fs_epoch', eng.gread(s1, 'fs_epoch'))
            s1.trace.append('%s%d:ok' % (prim, node.lineno))
            self.mark(eng, s1, 'mv_done', [b])
            outs.append((s1, None))
        s2 = st.fork()
        s2.assume(kind[a] == K_ABSENT)
        if eng.feasible(s2):
            s2.trace.append('%s%d:missing' % (prim, node.lineno))
            self.mark(eng, s2, 'os_failed', [b])
            outs.append((s2, Raise(new_exc('FileNotFoundError', 'os'))))
        outs.extend(self.may_fail(eng, st, node, at=[b]))
        return outs

    def i_os_rename(self, eng, st, f, pos, kws, node):
        return self._move(eng, st, pos, node, 'rename')

    def i_os_replace(self, eng, st, f, pos, kws, node):
        return self._move(eng, st, pos, node, 'replace')

    def i_os_makedirs(self, eng, st, f, pos, kws, node):
        E = _effect()
        p = self.path(eng, st, pos[0], node)
        self.effect(eng, st, E.Makedirs(p), 'makedirs', [p], node)
        kind = self.kind(eng, st)
        outs = []
        s1 = st.fork()
        # success: p and all its ancestors are directories afterwards, nothing else changes kind
        k2 = fresh('fs_after_makedirs', kind.sort())
        x = z3.Const('qx!mk', StrS)
        s1.assume(z3.ForAll([x], z3.If(anc(x, p), z3.And(k2[x] == K_DIR, kind[x] != K_FILE),
                                       k2[x] == kind[x])))
        eng.gwrite(s1, 'fs_kind', k2)
        s1.trace.append('makedirs%d:ok' % node.lineno)
        outs.append((s1, None))
        outs.extend(self.may_fail(eng, st, node, ('OtherOSError', 'NotADirectoryError',
                                                  'FileExistsError'), at=[p]))
        return outs

    def i_os_listdir(self, eng, st, f, pos, kws, node):
        p = self.path(eng, st, pos[0], node)
        kind = self.kind(eng, st)
        outs = []
        s1 = st.fork()
        s1.assume(kind[p] == K_DIR)
        if eng.feasible(s1):
            l = fresh('listdir', z3.SeqSort(StrS))
            n = z3.Const('qx!name', StrS)
            c = z3.Const('qx!lchild', StrS)
            # exactly the names of the existing children
            s1.assume(z3.ForAll([n], z3.Implies(z3.Contains(l, z3.Unit(n)),
                                                z3.And(kind[pjoin(p, n)] != K_ABSENT,
                                                       dirname(pjoin(p, n)) == p,
                                                       basename(pjoin(p, n)) == n,
                                                       pjoin(p, n) != p))))
            s1.assume(z3.ForAll([c], z3.Implies(z3.And(dirname(c) == p, c != p,
                                                       kind[c] != K_ABSENT),
                                                z3.Contains(l, z3.Unit(basename(c))))))
            s1.trace.append('listdir%d:ok' % node.lineno)
            outs.append((s1, Sym(l, LIST(STR), fresh=True)))
        s2 = st.fork()
        s2.assume(kind[p] == K_ABSENT)
        if eng.feasible(s2):
            outs.append((s2, Raise(new_exc('FileNotFoundError', 'os'))))
        s3 = st.fork()
        s3.assume(kind[p] == K_FILE)
        if eng.feasible(s3):
            outs.append((s3, Raise(new_exc('NotADirectoryError', 'os'))))
        outs.extend(self.may_fail(eng, st, node))
        return outs

    def i_os_stat(self, eng, st, f, pos, kws, node):
        p = self.path(eng, st, pos[0], node)
        kind = self.kind(eng, st)
        outs = []
        s1 = st.fork()
        s1.assume(kind[p] != K_ABSENT)
        if eng.feasible(s1):
            o = fresh('stat', ObjS)
            ep = eng.gread(s1, 'fs_epoch')
            s1.assume(z3.Function('stat_isdir', ObjS, BoolS)(o) == (kind[p] == K_DIR))
            s1.assume(z3.Function('stat_st_size', ObjS, IntS)(o)
                      == z3.Function('fs_size', StrS, IntS, IntS)(p, ep))
            s1.assume(z3.Function('stat_st_mtime_ns', ObjS, IntS)(o)
                      == z3.Function('fs_mtime', StrS, IntS, IntS)(p, ep))
            outs.append((s1, Sym(o, OBJ('StatResult'))))
        s2 = st.fork()
        s2.assume(kind[p] == K_ABSENT)
        if eng.feasible(s2):
            outs.append((s2, Raise(new_exc('FileNotFoundError', 'os'))))
        outs.extend(self.below_a_file(eng, st, p, node))
        outs.extend(self.may_fail(eng, st, node))
        return outs

    def below_a_file(self, eng, st, p, node):
        """ENOTDIR: a component of the path is a regular file (so the path itself is absent)"""
        s = st.fork()
        a = fresh('file_above', StrS)
        s.assume(z3.And(kind_absent(self.kind(eng, s), p), anc(a, p), a != p,
                        self.kind(eng, s)[a] == K_FILE))
        if eng.feasible(s):
            s.trace.append('enotdir%d' % node.lineno)
            return [(s, Raise(new_exc('NotADirectoryError', 'os')))]
        return []

    def i_stat_S_ISDIR(self, eng, st, f, pos, kws, node):
        mode = pos[0]
        # mode comes from stat_st_mode(o): recover o
        t = mode.t
        if z3.is_app(t) and t.decl().name() == 'stat_st_mode':
            o = t.arg(0)
            return [(st, Sym(z3.Function('stat_isdir', ObjS, BoolS)(o), BOOL))]
        raise Unsupported('S_ISDIR of unknown mode')

    def i_tempfile_mkdtemp(self, eng, st, f, pos, kws, node):
        E = _effect()
        p = fresh('tmpdir', StrS)
        kind = self.kind(eng, st)
        st.assume(kind[p] == K_ABSENT)
        st.assume(z3.Function('is_temp_path', StrS, BoolS)(p))
        eng.gwrite(st, 'mkdtemp_at', eng.gread(st, 'eff'))
        self.effect(eng, st, E.Mkdtemp(p), 'mkdtemp', [p], node)
        s1 = st.fork()
        eng.gwrite(s1, 'fs_kind', z3.Store(kind, p, K_DIR))
        outs = [(s1, Sym(p, STR))]
        outs.extend(self.may_fail(eng, st, node))
        return outs

    def i_shutil_rmtree(self, eng, st, f, pos, kws, node):
        E = _effect()
        p = self.path(eng, st, pos[0], node)
        self.effect(eng, st, E.Rmtree(p), 'rmtree', [p], node)
        kind = self.kind(eng, st)
        k2 = fresh('fs_after_rmtree', kind.sort())
        x = z3.Const('qx!rt', StrS)
        # errors go to the handler (ignore_errors False + onerror given): never raises here
        st.assume(z3.ForAll([x], z3.Implies(z3.Not(anc(p, x)), k2[x] == kind[x])))
        eng.gwrite(st, 'fs_kind', k2)
        return [(st, None)]

    # ---- files (read side only; the cache file writer is modelled in i_gzip_open) ----------------
    def i_open(self, eng, st, f, pos, kws, node):
        mode = pos[1] if len(pos) > 1 else 'r'
        if not isinstance(mode, str):
            raise Unsupported('open with symbolic mode')
        p = self.path(eng, st, pos[0], node)
        if any(ch in mode for ch in 'wax+'):
            raise Unsupported('open for writing outside Cache.write')
        return self._open_read(eng, st, p, node)

    def _open_read(self, eng, st, p, node):
        kind = self.kind(eng, st)
        outs = []
        s1 = st.fork()
        s1.assume(kind[p] == K_FILE)
        if eng.feasible(s1):
            o = fresh('fileobj', ObjS)
            s1.assume(cls_of(o) == CLS['FileObj'])
            s1.assume(z3.Function('file_path', ObjS, StrS)(o) == p)
            outs.append((s1, Sym(o, OBJ('FileObj'))))
        s2 = st.fork()
        s2.assume(kind[p] == K_ABSENT)
        if eng.feasible(s2):
            outs.append((s2, Raise(new_exc('FileNotFoundError', 'os'))))
        s3 = st.fork()
        s3.assume(kind[p] == K_DIR)
        if eng.feasible(s3):
            outs.append((s3, Raise(new_exc('IsADirectoryError', 'os'))))
        outs.extend(self.below_a_file(eng, st, p, node))
        outs.extend(self.may_fail(eng, st, node))
        return outs

    def i_gzip_open(self, eng, st, f, pos, kws, node):
        mode = pos[1] if len(pos) > 1 else 'rb'
        if not isinstance(mode, str):
            raise Unsupported('gzip.open with symbolic mode')
        p = self.path(eng, st, pos[0], node)
        if 'w' in mode or 'a' in mode or 'x' in mode:
            E = _effect()
            self.effect(eng, st, E.WriteOpen(p), 'write_open', [p], node)
            if 'wopen_attempts' in eng.GHOST_SORTS:
                eng.gwrite(st, 'wopen_attempts',
                           z3.Store(eng.gread(st, 'wopen_attempts'), p, True))
            kind = self.kind(eng, st)
            outs = []
            # the file is created (or truncated) as soon as the open succeeds
            s1 = st.fork()
            s1.assume(z3.And(kind[p] != K_DIR, kind[dirname(p)] == K_DIR))
            if eng.feasible(s1):
                eng.gwrite(s1, 'fs_kind', z3.Store(kind, p, K_FILE))
                eng.gwrite(s1, 'fs_epoch', eng.gread(s1, 'fs_epoch') + 1)
                o = fresh('gzfile', ObjS)
                s1.assume(cls_of(o) == CLS['FileObj'])
                s1.assume(z3.Function('file_path', ObjS, StrS)(o) == p)
                s1.assume(z3.Function('file_writable', ObjS, BoolS)(o))
                s1.assume(FILE_TEXT(o) == z3.BoolVal('t' in mode))
                outs.append((s1, Sym(o, OBJ('FileObj'))))
            outs.extend(self.may_fail(eng, st, node, ('OtherOSError', 'IsADirectoryError',
                                                      'FileNotFoundError')))
            return outs
        return self._open_read(eng, st, p, node)

    def i_file_write(self, eng, st, f, pos, kws, node):
        # writing may fail at any time (ENOSPC); the file stays where the open left it.
        # Precondition of this model (a text-mode write raises nothing but OSError): the text is
        # encodable by every codec the stream may have, i.e. pure ASCII -- which json.dumps
        # guarantees exactly when ensure_ascii is left on.  Recorded strings may hold lone
        # surrogates (os.fsdecode of non-UTF-8 names), which no strict codec encodes (C16).
        o = getattr(f, 'self_val', None)
        if isinstance(o, Sym) and o.ty.kind == 'obj' and o.ty.cls == 'FileObj' and pos \
                and isinstance(pos[0], Sym) and pos[0].ty.kind == 'str':
            eng.oblige(st, z3.Implies(FILE_TEXT(o.t), IS_ASCII(pos[0].t)), 'lib-pre',
                       'written-text-encodable@L%d' % node.lineno, props=['C16'],
                       line=node.lineno)
        outs = [(st.fork(), None)]
        outs.extend(self.may_fail(eng, st, node))
        return outs

    def i_file_read(self, eng, st, f, pos, kws, node):
        o = f.self_val
        b = fresh('bytes', IntS)
        st.assume(b >= 0)
        outs = [(st.fork(), Sym(b, Ty('bytes')))]
        outs.extend(self.may_fail(eng, st, node))
        return outs

    def enter_with_extra(self, eng, st, cm, item, s, rest):
        if isinstance(cm, Sym) and cm.ty.kind == 'obj' and cm.ty.cls == 'FileObj':
            if item.optional_vars is not None:
                outs0 = eng.assign(item.optional_vars, cm, st)
            else:
                outs0 = [(st, 'ok', None)]
            outs = []
            for (s0, c0, v0) in outs0:
                outs.extend(eng.with_body(s, rest, s0))
            return outs
        if isinstance(cm, Sym) and cm.ty.kind == 'obj' and cm.ty.cls == 'FileBackups':
            # with FileBackups() as backups:  __enter__ / body / __exit__ (which never re-raises)
            enter = eng.prog.find_method('FileBackups', '__enter__')
            exit_ = eng.prog.find_method('FileBackups', '__exit__')
            outs = []
            for (s1, v) in eng.call_repo(st, enter.qualname, [cm], {}, s):
                if isinstance(v, Raise):
                    outs.append((s1, 'exc', v.exc))
                    continue
                if item.optional_vars is not None:
                    eng.assign(item.optional_vars, v, s1)
                for (s2, ctrl, val) in eng.with_body(s, rest, s1):
                    for (s3, v3) in eng.call_repo(s2, exit_.qualname, [cm, None, None, None], {}, s):
                        if isinstance(v3, Raise):
                            outs.append((s3, 'exc', v3.exc))
                        else:
                            outs.append((s3, ctrl, val))
            return outs
        return super().enter_with_extra(eng, st, cm, item, s, rest)

    def i_json_load(self, eng, st, f, pos, kws, node):
        # parsing a gzip text stream: any sanitized JSON value, or one of the documented errors
        v = fresh('json_loaded', PyV)
        s1 = st.fork()
        s1.assume(J.sanitized(v))
        outs = [(s1, Sym(v, PYV, fresh=True))]
        for c in ('EOFError', 'OtherOSError', 'ValueError', 'ZlibError'):
            s2 = st.fork()
            s2.trace.append('json.load%d:%s' % (node.lineno, c))
            outs.append((s2, Raise(new_exc(c, 'lib'))))
        return outs

    def i_json_dumps(self, eng, st, f, pos, kws, node):
        t = fresh('json_text', StrS)
        ea = kws.get('ensure_ascii', True)
        if ea is True:
            st.assume(IS_ASCII(t))       # documented: all non-ASCII characters are escaped
        return [(st, Sym(t, STR, fresh=True))]

    def i_copy_deepcopy(self, eng, st, f, pos, kws, node):
        v = pos[0]
        if isinstance(v, Sym) and v.ty.kind == 'pyv':
            return [(st, Sym(v.t, PYV, fresh=True))]
        raise Unsupported('deepcopy of %r' % (v,))

    def i_copy_copy(self, eng, st, f, pos, kws, node):
        v = pos[0]
        if isinstance(v, Sym) and v.ty.kind == 'pyv':
            # shallow copy: inner containers are shared, so the value is not deep-fresh
            return [(st, Sym(v.t, PYV, fresh=False))]
        raise Unsupported('copy.copy of %r' % (v,))

    def i_threading_Lock(self, eng, st, f, pos, kws, node):
        return [(st, self.new_object(eng, st, 'Lock'))]

    def i_contextlib_nullcontext(self, eng, st, f, pos, kws, node):
        return [(st, self.new_object(eng, st, 'NullContext'))]

    def i_hashlib_sha256(self, eng, st, f, pos, kws, node):
        return [(st, self.new_object(eng, st, 'Digest'))]

    def i_digest_update(self, eng, st, f, pos, kws, node):
        return [(st, None)]

    def i_digest_hexdigest(self, eng, st, f, pos, kws, node):
        return [(st, Sym(fresh('hexdigest', StrS), STR))]

    def i_getattr(self, eng, st, f, pos, kws, node):
        raise Unsupported('getattr (use the dispatch contract)')

    # ---- sorting lists of paths by length --------------------------------------------------------
    def sorted_extra(self, eng, st, v, kws, node):
        key = kws.get('key')
        if isinstance(v, IterV):
            v = self.to_list(eng, st, v)
        if isinstance(v, ListV):
            v = eng.to_seq(v, LIST(STR))
        if isinstance(v, Sym) and v.ty.kind in ('list', 'set') and v.ty.args[0].kind == 'str':
            if v.ty.kind == 'set':
                v = self.to_list(eng, st, v)
            out = fresh('sorted', v.t.sort())
            x = z3.Const('qx!sorted', StrS)
            i, j = z3.Consts('qi!s qj!s', IntS)
            st.assume(z3.ForAll([x], z3.Contains(out, z3.Unit(x)) == z3.Contains(v.t, z3.Unit(x))))
            st.assume(z3.Length(out) == z3.Length(v.t))
            # membership as an index (Skolem function), for invariants stated over positions
            idx = z3.Function('idx_in!%d' % node.lineno, out.sort(), StrS, IntS)
            st.assume(z3.ForAll([x], z3.Implies(
                z3.Contains(out, z3.Unit(x)),
                z3.And(idx(out, x) >= 0, idx(out, x) < z3.Length(out), out[idx(out, x)] == x))))
            if key is None:
                st.assume(z3.ForAll([i, j], z3.Implies(z3.And(0 <= i, i < j, j < z3.Length(out)),
                                                       z3.Or(str_lt(out[i], out[j]),
                                                             out[i] == out[j]))))
            elif isinstance(key, LambdaV):
                sign = self.len_key_sign(key.node)
                if sign is None:
                    raise Unsupported('sorted key')
                from .lib import SEQ_ORDER
                SEQ_ORDER[out.get_id()] = (out, sign)
                if sign < 0:
                    st.assume(z3.ForAll([i, j], z3.Implies(
                        z3.And(0 <= i, i < j, j < z3.Length(out)),
                        slen(out[i]) >= slen(out[j]))))
                else:
                    st.assume(z3.ForAll([i, j], z3.Implies(
                        z3.And(0 <= i, i < j, j < z3.Length(out)),
                        slen(out[i]) <= slen(out[j]))))
            else:
                raise Unsupported('sorted key')
            return [(st, Sym(out, LIST(STR), fresh=True))]
        return super().sorted_extra(eng, st, v, kws, node)

    def len_key_sign(self, lam):
        b = lam.body
        arg = lam.args.args[0].arg
        neg = False
        if isinstance(b, ast.UnaryOp) and isinstance(b.op, ast.USub):
            neg = True
            b = b.operand
        if isinstance(b, ast.Call) and isinstance(b.func, ast.Name) and b.func.id == 'len' \
                and len(b.args) == 1 and isinstance(b.args[0], ast.Name) and b.args[0].id == arg:
            return -1 if neg else 1
        return None

    # ---- callbacks ---------------------------------------------------------------------------------
    def call_callback(self, eng, st, f, pos, kws, node, starv, dstarv):
        """user function: counts the call, havocs what user code can reach, returns any object or
        raises any Exception (identity recorded in the ghost `cb_exc`)"""
        outs = []
        ok = getattr(f, 'is_callable', None)
        base = st
        if ok is not None:
            res = eng.branch(st, ok, 'CB%d' % node.lineno)
            base = None
            for (s1, b) in res:
                if b:
                    base = s1
                else:
                    outs.append((s1, Raise(new_exc('TypeError', 'lib'))))
            if base is None:
                return outs
        eng.gwrite(base, 'ncalls', eng.gread(base, 'ncalls') + 1)
        hook = getattr(eng.cur_contract, 'callback_havoc', None)
        if hook is None:
            raise Unsupported('callback call needs callback_havoc in the contract of %s'
                              % eng.cur.qualname)
        self.record_callback_args(eng, base, f, pos, kws, starv, dstarv, node)
        hook(eng, base, f, pos, kws, starv, dstarv)
        e_before = eng.gread(base, 'eff')
        for g in ('fs_kind', 'eff', 'fs_epoch', 'rm_attempts', 'vstate', 'bd_res'):
            eng.gwrite(base, g, fresh('Gcb!' + g, eng.GHOST_SORTS[g]))
        # the effect trace is a log: user code (through nested builder calls) only appends
        from contracts.shapes import log_prefix
        base.assume(log_prefix(e_before, eng.gread(base, 'eff')))
        # nested callbacks run inside this one: the counter only grows
        n1 = fresh('Gcb!ncalls', IntS)
        base.assume(n1 >= eng.gread(base, 'ncalls'))
        eng.gwrite(base, 'ncalls', n1)
        al = eng.gread(base, 'alloc')
        al2 = fresh('Gcb!alloc', al.sort())
        base.assume(al2 >= al)
        eng.gwrite(base, 'alloc', al2)
        s_ret = base.fork()
        r = fresh('cb_result', PyV)
        s_ret.assume(J.wf(r))
        s_ret.trace.append('cb%d:ret' % node.lineno)
        outs.append((s_ret, Sym(r, PYV, fresh=False)))
        s_exc = base.fork()
        cls = fresh('cb_exc_cls', ExcClsS)
        s_exc.assume(cls != EXC['BaseException'])      # abstract root: some concrete subclass
        exc = ExcV(cls, fresh('exc', IntS), 'callback')
        eng.gwrite(s_exc, 'cb_exc', exc.ident)
        s_exc.trace.append('cb%d:raise' % node.lineno)
        outs.append((s_exc, Raise(exc)))
        return outs

    def record_callback_args(self, eng, st, f, pos, kws, starv, dstarv, node):
        st.env['$cb_args'] = (pos, starv, dstarv)
        hook = getattr(eng.cur_contract, 'on_callback', None)
        if hook is not None:
            hook(eng, st, f, pos, kws, starv, dstarv, node)

"""Spec lemmas proved by structural induction over the PyV universe (code independent).

A lemma family gives, per inductive sort, a statement with one induction variable; the generator
emits one obligation per constructor with the statements of the immediate sub-terms as induction
hypotheses (quantified over the remaining variables).  A proved lemma may be used as an axiom by
later lemmas and by function obligations (`uses`); use is acyclic by construction (a lemma can only
use lemmas registered before it).
"""
import z3
from .sorts import PyV, PyVs, KVs, StrS, IntS, BoolS


class Part:
    def __init__(self, var, others, stmt, patterns=None, hints=None):
        self.var = var          # induction variable (z3 const)
        self.others = list(others)
        self.stmt = stmt        # z3 Bool over var and others
        self.patterns = patterns   # explicit triggers when the lemma is used as an axiom
        # hints(case) -> list of tuples of terms for `others`: extra instances of the induction
        # hypothesis (case = dict of the constructor's components, e.g. k, v, r for kcons)
        self.hints = hints

    def inst(self, term):
        return z3.substitute(self.stmt, (self.var, term))

    def closed(self):
        vs = [self.var] + self.others
        if self.patterns:
            return z3.ForAll(vs, self.stmt, patterns=self.patterns)
        return z3.ForAll(vs, self.stmt)

    def ih(self, term, case=None):
        """induction hypothesis for a sub-term.  Returns (diag, full, quantified): `diag` = ground
        instances where the same destructor is applied to every other variable (cheap, usually
        enough), `full` = the product over a small candidate pool, and the quantified form."""
        import itertools
        body = self.inst(term)
        if not self.others:
            return [body], [], None

        def derived(o):
            n = o.sort().name()
            d = {'self': o}
            if n == 'PyVs':
                d.update(hd=PyVs.hd(o), tl=PyVs.tl(o), nil=PyVs.nil)
            elif n == 'KVs':
                d.update(kk=KVs.kk(o), kv=KVs.kv(o), krest=KVs.krest(o), knil=KVs.knil)
            elif n == 'PyV':
                d.update(litems=PyV.litems(o), titems=PyV.titems(o), kvs=PyV.kvs(o),
                         sbase=PyV.sbase(o),
                         items=z3.If(PyV.is_PList(o), PyV.litems(o), PyV.titems(o)))
            return d
        ders = [derived(o) for o in self.others]
        sorts = [o.sort() for o in self.others]
        pool = {}
        for d in ders:
            for t in d.values():
                pool.setdefault(t.sort().name(), [])
                if not any(t.eq(u) for u in pool[t.sort().name()]):
                    pool[t.sort().name()].append(t)
        diag = []
        keys = set()
        for d in ders:
            keys.update(d.keys())
        for k in sorted(keys):
            combo = []
            for d, srt, o in zip(ders, sorts, self.others):
                t = d.get(k)
                combo.append(t if t is not None and t.sort() == srt else None)
            if all(c is not None for c in combo):
                diag.append(z3.substitute(body, *zip(self.others, combo)))
        # constants for every variable (nil / knil)
        consts = {'PyVs': PyVs.nil, 'KVs': KVs.knil}
        if all(srt.name() in consts for srt in sorts):
            diag.append(z3.substitute(body, *[(o, consts[o.sort().name()]) for o in self.others]))
        if self.hints is not None and case is not None:
            for combo in self.hints(case):
                diag.append(z3.substitute(body, *zip(self.others, combo)))
        cands = [pool.get(srt.name(), [o]) for srt, o in zip(sorts, self.others)]
        full = []
        for combo in itertools.islice(itertools.product(*cands), 200):
            full.append(z3.substitute(body, *zip(self.others, combo)))
        return diag, full, z3.ForAll(self.others, body)


class Lemma:
    def __init__(self, name, parts, props=(), uses=(), induct=True, note=''):
        self.name = name
        self.parts = {p.var.sort().name(): p for p in parts}
        self.props = list(props)
        self.uses = list(uses)
        self.induct = induct
        self.note = note

    def axioms(self):
        return [p.closed() for p in self.parts.values()]

    def cases(self):
        """-> list of (label, diagonal ground hyps, full ground hyps, quantified hyps, goal)"""
        out = []
        P = self.parts
        pv, pl, pk = P.get('PyV'), P.get('PyVs'), P.get('KVs')

        def add(label, ihs, goal, extra=()):
            d, g, q = list(extra), list(extra), []
            for (dd, gg, qq) in ihs:
                d.extend(dd)
                g.extend(gg if gg else dd)
                if qq is not None:
                    q.append(qq)
            out.append((label, d, g, q, goal))
        if not self.induct:
            for srt, p in P.items():
                out.append((srt, [], [], [], p.stmt))
            return out
        if pv is not None:
            xs = z3.Const('ih!xs', PyVs)
            ks = z3.Const('ih!ks', KVs)
            b = z3.Const('ih!b', PyV)
            c = z3.Const('ih!c', IntS)
            atom = z3.Const('ih!atom', PyV)
            add('PyV.atom', [], pv.inst(atom),
                [z3.Not(z3.Or(PyV.is_PList(atom), PyV.is_PTuple(atom), PyV.is_PDict(atom),
                              PyV.is_PSub(atom)))])
            add('PyV.PList', [pl.ih(xs)] if pl else [], pv.inst(PyV.PList(xs)))
            add('PyV.PTuple', [pl.ih(xs)] if pl else [], pv.inst(PyV.PTuple(xs)))
            add('PyV.PDict', [pk.ih(ks)] if pk else [], pv.inst(PyV.PDict(ks)))
            add('PyV.PSub', [pv.ih(b)], pv.inst(PyV.PSub(b, c)))
        if pl is not None:
            h = z3.Const('ih!h', PyV)
            t = z3.Const('ih!t', PyVs)
            add('PyVs.nil', [], pl.inst(PyVs.nil))
            case = {'h': h, 't': t}
            add('PyVs.cons', [pl.ih(t, case)] + ([pv.ih(h, case)] if pv else []),
                pl.inst(PyVs.cons(h, t)))
        if pk is not None:
            k = z3.Const('ih!k', PyV)
            v = z3.Const('ih!v', PyV)
            r = z3.Const('ih!r', KVs)
            add('KVs.knil', [], pk.inst(KVs.knil))
            case = {'k': k, 'v': v, 'r': r}
            add('KVs.kcons', [pk.ih(r, case)] + ([pv.ih(k, case), pv.ih(v, case)] if pv else []),
                pk.inst(KVs.kcons(k, v, r)))
        return out

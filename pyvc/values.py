"""Symbolic values manipulated by the interpreter."""
import z3
from .sorts import (Ty, INT, BOOL, STR, PYV, OBJ, SET, MAP, LIST, OPT, OptSort, StrS, str_lit,
                    fresh, EXC, ExcClsS)


class Unsupported(Exception):
    """Construct outside the modelled Python subset: the function's obligations become undecided."""


class Sym:
    """A z3 term with a type descriptor.  `fresh`: provenance flag used by ownership obligations
    (True = every mutable container reachable from the value was created by the code under
    verification after the entry to the current function and is not stored anywhere else)."""
    __slots__ = ('t', 'ty', 'fresh', 'origin')

    def __init__(self, t, ty, fresh=False, origin=None):
        self.t = t
        self.ty = ty
        self.fresh = fresh
        self.origin = origin       # (obj_term, field) when read from the heap

    def __repr__(self):
        return 'Sym(%s:%r)' % (self.t, self.ty)


class TupleV:
    def __init__(self, items):
        self.items = list(items)

    def __repr__(self):
        return 'TupleV%r' % (self.items,)


class ListV:
    """Python list of statically known length (list literal, results of small builders)."""
    def __init__(self, items, fresh=True):
        self.items = list(items)
        self.fresh = fresh

    def __repr__(self):
        return 'ListV%r' % (self.items,)


class ArgsV:
    """`[a, b] + <pyv list>`: positional arguments handed to a callback."""
    def __init__(self, prefix, tail):
        self.prefix = prefix
        self.tail = tail


class FuncV:
    def __init__(self, qualname, self_val=None):
        self.qualname = qualname
        self.self_val = self_val

    def __repr__(self):
        return 'FuncV(%s)' % self.qualname


class ClassV:
    def __init__(self, name):
        self.name = name

    def __repr__(self):
        return 'ClassV(%s)' % self.name


class ModV:
    def __init__(self, dotted):
        self.dotted = dotted

    def __repr__(self):
        return 'ModV(%s)' % self.dotted


class IntrinsicV:
    def __init__(self, name, self_val=None):
        self.name = name
        self.self_val = self_val

    def __repr__(self):
        return 'IntrinsicV(%s)' % self.name


class CallbackV:
    """A user supplied callable (`func`)."""
    def __init__(self, name):
        self.name = name


class LambdaV:
    def __init__(self, node):
        self.node = node


class ExcV:
    """Exception object: class (z3 ExcCls term) and identity (z3 Int term)."""
    def __init__(self, cls, ident, origin='lib'):
        self.cls = cls
        self.ident = ident
        self.origin = origin

    def __repr__(self):
        return 'ExcV(%s,%s)' % (self.cls, self.ident)


class Raise:
    """Result of evaluating an expression that raised."""
    def __init__(self, exc):
        self.exc = exc


class ViewV:
    """Reference to the inner dict `obj.field[key]` of a nested map (write-through)."""
    def __init__(self, obj, field, key, inner_ty):
        self.obj = obj
        self.field = field
        self.key = key
        self.inner_ty = inner_ty


class IterV:
    """Iterables that are not materialised: zip of pyv lists, dict.items(), ..."""
    def __init__(self, kind, *parts):
        self.kind = kind
        self.parts = parts


def new_exc(cls_name, origin='lib'):
    return ExcV(EXC[cls_name], fresh('exc', z3.IntSort()), origin)


def lift(v, ty=None):
    """Python constant or Sym -> z3 term."""
    if isinstance(v, Sym):
        return v.t
    if isinstance(v, bool):
        return z3.BoolVal(v)
    if isinstance(v, int):
        return z3.IntVal(v)
    if isinstance(v, str):
        return str_lit(v)
    raise Unsupported('cannot lift %r' % (v,))


def ty_of(v):
    if isinstance(v, Sym):
        return v.ty
    if isinstance(v, bool):
        return BOOL
    if isinstance(v, int):
        return INT
    if isinstance(v, str):
        return STR
    return None

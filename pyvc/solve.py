"""Discharging obligations: z3 (python API) first, cvc5 (binary, SMT-LIB2) for what z3 leaves open,
then a finite-universe search for a counter-model."""
import os
import subprocess
import tempfile
import time
import z3

from . import sorts as S
from . import fuel as FUEL

Z3_TIMEOUT_MS = int(os.environ.get('PYVC_Z3_TIMEOUT_MS', '8000'))
CVC5_TIMEOUT_MS = int(os.environ.get('PYVC_CVC5_TIMEOUT_MS', '6000'))
CVC5 = '/usr/bin/cvc5'


def load_scale():
    """wall-clock budgets are stretched when the machine is oversubscribed (several checks running
    at once): a query that needs 1 s of CPU must not become `unknown` because it waited for a
    core.  1 on an idle machine, at most 10."""
    try:
        l = os.getloadavg()[0] / float(os.cpu_count() or 1)
    except (OSError, AttributeError):
        l = 1.0
    return max(1.0, min(10.0, l))


def background(axioms):
    fs = list(axioms)
    lits = list(S.all_str_lits().values())
    if len(lits) > 1:
        fs.append(z3.Distinct(lits))
    return fs


def mk_solver(axioms, pc, goal, seed=0, timeout=None, fuel=2):
    s = z3.Solver()
    s.set('timeout', int((timeout or Z3_TIMEOUT_MS) * load_scale()))
    if seed:
        s.set('random_seed', seed % 1000)
    fs = background(axioms) + list(pc) + [z3.Not(goal)]
    for f in fs:
        s.add(f)
    eqs = FUEL.unfold(fs, fuel)
    for f in eqs:
        s.add(f)
    s.num_unfolded = len(eqs)
    return s


def run_cvc5(smt2, timeout_ms):
    if not os.path.exists(CVC5):
        return 'unknown', 0.0
    t0 = time.time()
    with tempfile.NamedTemporaryFile('w', suffix='.smt2', delete=False,
                                     dir=os.environ.get('PYVC_TMP', None)) as f:
        f.write('(set-logic ALL)\n' + smt2)
        fn = f.name
    try:
        p = subprocess.run([CVC5, '--lang=smt2', '--tlimit=%d' % timeout_ms, fn],
                           capture_output=True, text=True, timeout=timeout_ms / 1000 + 10)
        out = p.stdout.strip().split('\n')[0] if p.stdout.strip() else 'unknown'
    except Exception:
        out = 'unknown'
    finally:
        try:
            os.unlink(fn)
        except OSError:
            pass
    if out not in ('sat', 'unsat'):
        out = 'unknown'
    return out, time.time() - t0


def finite_closure(pc_goal_terms, sizes):
    """domain-closure axioms making the uninterpreted sorts finite (counter-model search)"""
    out = []
    for sort, n in sizes.items():
        consts = [z3.Const('fin!%s!%d' % (sort.name(), i), sort) for i in range(n)]
        x = z3.Const('fin!x!' + sort.name(), sort)
        out.append(z3.ForAll([x], z3.Or([x == c for c in consts])))
    return out


FUELS = (2, 3, 4, 6)


def split_goal(goal):
    """goal = And(g1..gn) or Implies(a, And(g1..gn)) -> list of sub-goals, else None"""
    if z3.is_and(goal) and goal.num_args() > 1:
        return list(goal.children())
    if z3.is_implies(goal) and z3.is_and(goal.arg(1)) and goal.arg(1).num_args() > 1:
        return [z3.Implies(goal.arg(0), g) for g in goal.arg(1).children()]
    return None


class _Sub:
    def __init__(self, pc, goal):
        self.pc, self.goal = pc, goal


def discharge(axioms, obl, seed=0, want_model=True, cross=False, quick_only=False):
    parts = split_goal(obl.goal) if not quick_only else None
    if not parts:
        return discharge1(axioms, obl, seed, want_model, cross, quick_only)
    # a conjunction is proved conjunct by conjunct (measured: the conjuncts go through in
    # milliseconds where the conjunction times out)
    t0 = time.time()
    out = None
    for g in parts:
        r = discharge(axioms, _Sub(obl.pc, g), seed, want_model, cross, False)
        if out is None:
            out = dict(r)
        if r['status'] == 'refuted':
            out = dict(r)
            break
        if r['status'] != 'discharged' and out['status'] == 'discharged':
            out = dict(r)
    out['time'] = round(time.time() - t0, 4)
    out['split'] = len(parts)
    return out


def discharge1(axioms, obl, seed=0, want_model=True, cross=False, quick_only=False):
    """-> dict(status=discharged|refuted|undecided, backend, time, model)

    `unsat` at any fuel = discharged.  `sat` is a refutation only when the query mentions no
    recursively defined function (then z3's model is a model of the whole query), or when the model
    survives re-evaluation with full unfolding; otherwise the obligation is undecided."""
    t0 = time.time()
    res = {'backend': 'z3-' + z3.get_version_string(), 'model': None}
    r = None
    s = None
    uses_defs = False
    for fuel in FUELS:
        s = mk_solver(axioms, obl.pc, obl.goal, seed, timeout=2500 if quick_only else None,
                      fuel=fuel)
        uses_defs = s.num_unfolded > 0
        if fuel == FUELS[0] and not quick_only:
            # short first attempt, then the relevance pass, then the full budget: the few
            # obligations whose full query times out but whose slim query is immediate no longer
            # sit at the edge of the wall-clock budget
            s.set('timeout', int(2000 * load_scale()))
            r = s.check()
            s.set('timeout', int(Z3_TIMEOUT_MS * load_scale()))
        else:
            r = s.check()
        res['fuel'] = fuel
        if r != z3.unsat and fuel == FUELS[0] and not quick_only:
            # relevance pass: many obligations need none of the quantified hypotheses
            # (definitions of ghost predicates, rely conditions); fewer hypotheses is sound
            slim = [f for f in obl.pc if not _has_quant(f)]
            if len(slim) < len(obl.pc):
                s0 = mk_solver(axioms, slim, obl.goal, seed, timeout=1500, fuel=2)
                if s0.check() == z3.unsat:
                    res.update(status='discharged', time=round(time.time() - t0, 4), slim=True)
                    return res
            if r == z3.unknown:
                r = s.check()       # full budget
        if r == z3.unsat or not uses_defs:
            break
        if r == z3.unknown and time.time() - t0 > (Z3_TIMEOUT_MS * load_scale() / 1000.0):
            break
    res['time'] = round(time.time() - t0, 4)
    if r == z3.unsat:
        res['status'] = 'discharged'
        if cross:
            r2, dt2 = run_cvc5(s.to_smt2(), int(CVC5_TIMEOUT_MS * load_scale()))
            res['cross'] = r2
            res['cross_time'] = round(dt2, 3)
        return res
    if quick_only:
        res['status'] = 'undecided'
        res['reason'] = 'quick attempt'
        return res
    if r == z3.unknown:
        # seed portfolio (round 4): a query that is answered in 0.1 s on most runs and times out
        # on a few is unstable in the instantiation order, not hard -- a few short attempts with
        # other random seeds (and the quantifier-instantiation order they imply) before giving up.
        # Only `unsat` is taken from these attempts, so this can discharge, never refute.
        for alt in (7, 31, 113, 257, 509):
            sa = mk_solver(axioms, obl.pc, obl.goal, (seed or 0) + alt, timeout=4000,
                           fuel=res.get('fuel', FUELS[0]))
            sa.set('smt.random_seed', ((seed or 0) + alt) % 1000)
            if sa.check() == z3.unsat:
                res.update(status='discharged', time=round(time.time() - t0, 4), portfolio=alt)
                return res
        try:
            r2, dt2 = run_cvc5(s.to_smt2(), int(CVC5_TIMEOUT_MS * load_scale()))
        except Exception:
            r2, dt2 = 'unknown', 0.0
        if r2 == 'unsat':
            res.update(status='discharged', backend='cvc5-1.0.3',
                       time=round(time.time() - t0, 4))
            return res
    model = None
    if r == z3.sat:
        model = s.model()
    elif not uses_defs:
        for n in (4,):
            sizes = {S.StrS: n + 1, S.ObjS: 2}
            s2 = mk_solver(list(axioms) + finite_closure(None, sizes), obl.pc, obl.goal, seed,
                           timeout=4000)
            if s2.check() == z3.sat:
                model = s2.model()
                res['finite_universe'] = n
                break
    res['time'] = round(time.time() - t0, 4)
    if model is not None and uses_defs:
        ok = validate_model(model, obl)
        if not ok:
            res['status'] = 'undecided'
            res['reason'] = 'sat under bounded unfolding; model not confirmed by full evaluation'
            if want_model:
                res['candidate_model'] = model_to_dict(model)
            return res
        res['validated'] = True
    if model is not None:
        res['status'] = 'refuted'
        if want_model:
            res['model'] = model_to_dict(model)
    else:
        res['status'] = 'undecided'
        res['reason'] = s.reason_unknown() if r == z3.unknown else 'no model'
    return res


def validate_model(model, obl):
    """plug the model's values for the free constants into pc and goal and evaluate by full
    unfolding; True only if every pc formula evaluates to true and the goal to false"""
    try:
        subs = []
        for d in model.decls():
            if d.arity() == 0:
                subs.append((d(), model[d]))
        fs = [z3.substitute(f, *subs) for f in obl.pc if not _has_quant(f)]
        g = z3.substitute(obl.goal, *subs)
        for f in fs:
            v = FUEL.evalc(f, budget=3000, model=model)
            if not z3.is_true(v):
                return False
        v = FUEL.evalc(g, budget=3000, model=model)
        return z3.is_false(v)
    except Exception:
        return False


def _has_quant(f):
    stack = [f]
    seen = set()
    while stack:
        x = stack.pop()
        if x.get_id() in seen:
            continue
        seen.add(x.get_id())
        if z3.is_quantifier(x):
            return True
        stack.extend(x.children())
    return False


def model_to_dict(model, limit=60):
    out = {}
    for d in model.decls():
        n = d.name()
        if n.startswith(('qx!', 'qk!', 'qi!', 'fin!')):
            continue
        if d.arity() == 0:
            try:
                out[n] = str(model[d])
            except Exception:
                pass
        if len(out) >= limit:
            break
    return out

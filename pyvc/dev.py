"""developer helper: python3-vt -m pyvc.dev func <qualname> | lemma <name> | lemmas"""
import sys, json
from . import run


def show(res, verbose=False):
    if res['error']:
        print('ERROR', res['error'])
    if res['unsupported']:
        print('UNSUPPORTED', res['unsupported'])
    n = len(res['obligations'])
    bad = [o for o in res['obligations'] if o['status'] != 'discharged']
    print('%s %s: %d obligations, %d not discharged, wall %.2fs' % (res['task'][0], res['task'][1], n, len(bad), res.get('wall', 0)))
    for o in res['obligations']:
        if o['status'] != 'discharged' or verbose:
            print('  %-10s %s  %.3fs %s' % (o['status'], o['name'], o['time'], o.get('path','')))
            if o['status'] != 'discharged':
                print('      goal:', o.get('goal'))
                if o.get('model'):
                    print('      model:', json.dumps(o['model'])[:1500])
                if o.get('reason'):
                    print('      reason:', o['reason'])


if __name__ == '__main__':
    kind = sys.argv[1]
    run.setup()
    C = run._STATE['contracts']
    verbose = '-v' in sys.argv
    if kind == 'lemmas':
        for n in C.LEMMAS:
            show(run.run_task(('lemma', n, 0, 'quick')), verbose)
    elif kind == 'funcs':
        for n in C.VERIFY:
            if len(sys.argv) > 2 and sys.argv[2] not in n:
                continue
            show(run.run_task(('func', n, 0, 'quick')), verbose)
    else:
        name = sys.argv[2]
        if kind == 'func' and name not in C.VERIFY:
            name = [q for q in C.VERIFY if q.endswith(name)][0]
        show(run.run_task((kind, name, 0, 'quick')), verbose)

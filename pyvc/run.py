"""Task runner: symbolic execution + discharge of one function or lemma (worker process)."""
import os
import sys
import time
import traceback

import z3

from . import axioms as AX
from . import solve
from .engine import Engine, Obl
from .program import Program
from .values import Unsupported

_STATE = {}


def setup():
    if 'prog' in _STATE:
        return
    import contracts
    contracts.load()
    from .libfs import FsIntrinsics
    _STATE['prog'] = Program()
    _STATE['contracts'] = contracts


def resolve_axioms(names):
    """-> (formulas, assumed_names, lemma_names)"""
    C = _STATE['contracts']
    fs, assumed, lem = [], [], []
    for n in names:
        if n in AX.GROUPS or n == 'DICT_KEYS':
            fs.extend(AX.group(n))
            assumed.append('axiom-group:' + n)
        elif n in C.LEMMAS:
            fs.extend(C.LEMMAS[n].axioms())
            lem.append(n)
        elif n in C.ASSUMED:
            fs.append(C.ASSUMED[n][0])
            assumed.append('assumed:' + n)
        else:
            raise KeyError('unknown axiom/lemma ' + n)
    return fs, assumed, lem


def lemma_deps(name, acc=None):
    C = _STATE['contracts']
    acc = acc if acc is not None else []
    order = list(C.LEMMAS.keys())
    for u in C.LEMMAS[name].uses:
        if u in C.LEMMAS:
            if order.index(u) >= order.index(name):
                raise ValueError('lemma %s uses later lemma %s' % (name, u))
            if u not in acc:
                lemma_deps(u, acc)
                acc.append(u)
    return acc


def fork_map(fn, items, nproc):
    """map in forked children (they inherit the z3 terms of this process); results are pickled
    back through pipes.  Falls back to a serial map for short lists."""
    import pickle
    if nproc <= 1 or len(items) < 6:
        return [fn(x) for x in items]
    chunks = [items[i::nproc] for i in range(nproc)]
    kids = []
    for ch in chunks:
        if not ch:
            continue
        r, w = os.pipe()
        pid = os.fork()
        if pid == 0:
            code = 0
            try:
                os.close(r)
                res = []
                for x in ch:
                    try:
                        res.append((x, fn(x)))
                    except Exception as e:      # never let a child die silently
                        res.append((x, {'status': 'undecided', 'backend': 'z3', 'time': 0.0,
                                        'model': None, 'reason': 'discharge crashed: %s' % e,
                                        'name': 'obligation#%s' % x, 'props': [], 'kind': '?',
                                        'func': '?', 'label': '?', 'line': None, 'path': ''}))
                with os.fdopen(w, 'wb') as f:
                    pickle.dump(res, f)
            except BaseException:
                code = 1
            finally:
                os._exit(code)
        os.close(w)
        kids.append((pid, r))
    got = {}
    for pid, r in kids:
        with os.fdopen(r, 'rb') as f:
            data = f.read()
        os.waitpid(pid, 0)
        if data:
            for x, v in pickle.loads(data):
                got[x] = v
    missing = [x for x in items if x not in got]
    for x in missing:
        got[x] = fn(x)
    return [got[x] for x in items]


def run_task(task):
    """task = (kind, name, seed, tier) -> result dict (picklable)"""
    kind, name, seed, tier = task
    t0 = time.time()
    out = {'task': [kind, name], 'obligations': [], 'unsupported': None, 'error': None,
           'assumed': [], 'lemmas_used': [], 'info': {}}
    try:
        setup()
        C = _STATE['contracts']
        cross = tier == 'thorough'
        if kind == 'lemma':
            lem = C.LEMMAS[name]
            axs, assumed, used = resolve_axioms(lem.uses)
            out['assumed'], out['lemmas_used'] = assumed, used
            for (label, diag, ground, quant, goal) in lem.cases():
                # quantified induction hypothesis + a few ground instances first (E-matching over
                # uninterpreted spec functions answers in ms); the larger ground pool as fall-back
                o = Obl('lemma/%s/%s' % (name, label), lem.props, diag + quant, goal, 'lemma',
                        'lemma:' + name, label, '')
                r = solve.discharge(axs, o, seed, cross=cross, want_model=False, quick_only=True)
                if r['status'] != 'discharged':
                    o.pc = ground
                    r = solve.discharge(axs, o, seed, cross=cross, want_model=False,
                                        quick_only=True)
                if r['status'] != 'discharged':
                    o.pc = ground + quant
                    r = solve.discharge(axs, o, seed, cross=cross)
                r.update(name=o.name, props=o.props, kind='lemma', func='lemma:' + name,
                         label=label, line=None)
                out['obligations'].append(r)
        else:
            from .libfs import FsIntrinsics
            prog = _STATE['prog']
            con = C.VERIFY[name]
            key = name
            name = con.target
            eng = Engine(prog, C.CONTRACTS, C.FIELDS, FsIntrinsics(), [])
            eng.GHOST_SORTS = C.GHOSTS
            eng.SCRATCH_GHOSTS = getattr(C, 'SCRATCH_GHOSTS', ())
            eng.variant = getattr(con, 'variant', None)
            fi = prog.funcs.get(name)
            if fi is None:
                out['unsupported'] = 'function %s not found in /repo' % name
                return out
            import ast as _ast
            out['info'] = {'file': os.path.relpath(fi.path, prog.repo), 'qualname': name,
                           'lines': [fi.lineno, fi.end_lineno], 'sha256': fi.sha256,
                           # loop invariants are keyed by loop ordinal: the number of loops is
                           # part of what a sidecar contract assumes about the function
                           'n_loops': sum(isinstance(x, (_ast.For, _ast.While))
                                          for x in _ast.walk(fi.node))}
            axs, assumed, used = resolve_axioms(con.lemmas)
            out['assumed'], out['lemmas_used'] = assumed, used
            try:
                obls = eng.verify(name, con)
            except Unsupported as e:
                out['unsupported'] = str(e)
                return out
            out['info'].update(paths=eng.stats['paths'], cover=bool(eng.cover),
                               feas_checks=eng.stats['feas_checks'],
                               feas_unknown=eng.stats.get('feas_unknown', 0),
                               inlined=sorted(eng.stats['inlined']),
                               callees=sorted(eng.stats['callee_contracts']),
                               unverified_termination=sorted(eng.unverified_termination),
                               model_notes=sorted(eng.intr.notes),
                               assumed_preconditions=sorted(eng.stats.get(
                                   'assumed_preconditions', [])))
            def one(i):
                o = obls[i]
                r = solve.discharge(axs, o, seed, cross=cross)
                r.update(name=o.name, props=o.props, kind=o.kind, func=o.func, label=o.label,
                         line=o.line, path=o.path)
                if (o.extra or {}).get('uncertain_path'):
                    r['uncertain_path'] = True
                if (o.extra or {}).get('weak_path'):
                    r['weak_path'] = True
                if r['status'] != 'discharged':
                    r['goal'] = str(z3.simplify(o.goal))[:600]
                return r
            out['obligations'].extend(fork_map(one, list(range(len(obls))),
                                               int(os.environ.get('PYVC_INNER_JOBS', '8'))))
    except Exception as e:     # checker error, never a violation
        out['error'] = '%s: %s\n%s' % (type(e).__name__, e, traceback.format_exc()[-1500:])
    out['wall'] = round(time.time() - t0, 3)
    return out

"""Regenerates MANIFEST.json from the claims table below (run by hand after changing claims)."""
import json

CLAIMS = {
 'C18': dict(
  text="Deductive proof, for all inputs: the four JsonUtil functions are symbolically executed from /repo's current source against sidecar contracts whose postconditions are the statement's spec functions (json round trip rt, JSON equality jeq, hashable form hsh); the code-independent spec lemmas (jeq is an equivalence, 1==1.0, bool!=number, list==tuple, key lemma hsh-equal <=> jeq, rt yields sanitized values) are proved by structural induction; every obligation is discharged by z3 (cvc5 for z3's unknowns).",
  note="Assumes: the PyV value model of spec/json_spec.py (dicts up to insertion order, -0.0==0.0, subclass instances do not override __eq__/__hash__ (overridden __str__/__int__/__float__ are modelled: str(v)/int(v)/float(v) of a subclass instance are unknown, str.__str__ & co. read the contents); strings are uninterpreted, so json's combination of surrogate pairs is outside the model (bounded stand-in json_laws)), Python dict/tuple ==/hash, no assumed axiom (the finite pigeonhole used in is_equal's dict branch is proved by induction as lemmas pigeonhole_*), termination not verified.",
  ref="DESIGN.md 4.1, 5 C18"),
 'C15': dict(
  text="Deductive proof over all paths of build_versioned, clean and Cache.read_immutable (read from /repo on every run): every exceptional exit of clean and read_immutable has an empty effect trace, no callback and an unchanged ghost file system; in build_versioned the first mutating primitive (mkdtemp of the backup directory) carries a guard obligation that every validation fact holds (name is a str, func callable, versions a JSON dict, cache path not a directory, stored build name equal) and that nothing happened before; every exceptional exit either has no effect or starts with that mkdtemp.",
  note="Assumes the OS/library model of pyvc/libfs.py (isfile/isdir/gzip.open('rt')/json.load are read-only; which library calls mutate is part of the trusted base; the mode literal of gzip.open is read from the source), _build's frame contract (verified under C02 when claimed), Cache._operations_from_json's frame (trusted, bounded stand-in planned).",
  ref="DESIGN.md 5 C15"),
 'C17': dict(
  text="Deductive proof, per method: for each of the 12 public instance methods a contract variant with precondition 'this builder's function has finished' is verified: the only outcomes are RuntimeError (or TypeError for an ill-typed argument checked first), with empty effect trace, no callback and no change to any pre-existing object (frame obligations); _assert_not_finished and _append_suboperation are verified against exact contracts (append happens iff not finished, under the owner's lock: lockset obligation).",
  note="Sequential semantics: of the racing clause (straggler thread between its check and its append) only the structural half is proved -- every result or OSError of _exec_simple_operation, subbuild and build_file_with_comparison leaves through _append_suboperation's re-check under the lock (marker ghost fence_n); the interleaving argument is not machine-checked. Z2 (is_finished set on every exit of the code that ran the callback) is verified only for build_versioned's finally so far.",
  ref="DESIGN.md 5 C17"),
 'C11': dict(
  text="Deductive proof of ownership (region) obligations at every value-carrying API edge, on all paths: values returned by build_file_with_comparison, subbuild and _exec_simple_operation (all query methods) are fresh copies (provenance flag of the interpreter: created by copy.deepcopy/JsonUtil.sanitize after entry, or provably an immutable atom); every JSON argument handed to a user function in _rebuild_file and _subbuild is a fresh copy (obligation at the callback call site); JsonUtil.sanitize's result shares no mutable structure with its argument; arguments stored in records are sanitize results.",
  note="Assumes copy.deepcopy returns an equal value sharing no mutable structure; container fields are uniquely owned (value semantics); user code reaches records only through the API (no private attribute access).",
  ref="DESIGN.md 5 C11"),
 'C03': dict(
  text="Deductive proof of one ghost-precondition (guard) obligation per destructive call site, on all paths: every os.remove / os.rmdir / os.rename(via back_up_and_remove) / rmtree / cache write reached in clean, _commit, _roll_back, _rebuild_file (failed target), _make_dirs, _make_room, _build_file, _build and build_versioned carries the statement's condition (only outputs recorded by the previous build, targets of this build or the cache file are removed or moved; only directories recorded as created by this or the previous build are rmdir'ed; rmtree only on the mkdtemp result; only the cache file is written); a destructive primitive reached at a site without a guard is itself a failing obligation.",
  note="FileBackups.back_up_and_remove/restore_all are verified (moves only into the backup directory, restores only recorded backups to their origin; that a backup path is not yet in use is the bounded stand-in file_backups); BuildDirs' scan is a trusted contract backed by the bounded stand-in dir_scan; OS axioms of pyvc/libfs.py (rmdir succeeds only on empty directories; no symlinks); user functions write only their target (hypothesis of the statement).",
  ref="DESIGN.md 5 C03"),
 'C12': dict(
  text="Deductive proof for clean, on all paths: any exception leaves the effect trace empty; removals only of files recorded as created in the cache read from the cache file, plus the cache file; rmdir only of recorded created directories, after validation of the build name; the recorded created-directory set is exactly BuildDirs' created map plus the directories made for the cache file (_set_created_dirs, Cache.add_created_dirs, BuildDirs.created_dirs verified); coverage: at every normal exit each recorded output and the cache file is no regular file any more or had its removal attempted, each recorded directory had its rmdir attempted and is gone, still not empty (logged witness) or was refused by the OS; Cache.write hands every root record to the serialiser.",
  note="Not decided: idempotence as a theorem, and that BuildDirs' created map equals what a from-scratch build would create (needs C01's composition; BuildDirs reservation machine is a trusted contract with a bounded stand-in).",
  ref="DESIGN.md 5 C12"),
 'C02': dict(
  text="Deductive proof over _build, _roll_back and the backup call sites, on all paths: every Exception leaving the try block of _build (directory set-up, root function, bookkeeping, cache write) closes the builder, runs _roll_back (backups consumed) and re-raises; _roll_back cannot raise (no exceptional path) and only removes files built by this build and directories made by this build, recreates only directories recorded by the previous build; every move-aside is of the cache file, an old output or the call's own target (backed up before destroyed); the cache file is rewritten only after the root function returned and the old one was moved aside; post-rollback tree (R4) as necessary conditions: the cache records which files this build built (Cache._built_files: start_building_file adds, __init__ starts empty), the rollback loop invariant 'every registered file that is not a reused result of the previous build is no regular file any more or had its removal attempted', restore_all is called only while no backed-up position was turned into a directory by the rollback, and _roll_back is called only when a cache file opened by this build is gone / had its removal attempted / will be overwritten by the backed-up previous one (three defects found by these obligations were repaired: 074b760, 7d6a9dc, ba05d4b).",
  note="Not decided: the post-rollback tree as one equality theorem (what restore_all puts back is a trusted contract); BaseException other than Exception is outside the statement.",
  ref="DESIGN.md 5 C02"),
 'C06': dict(
  text="Deductive proof that a function is skipped only if its version is unchanged, for all record trees: the ghost predicate versions_ok (own version JSON-equal and versions_ok of every complex suboperation, least fixpoint) is implied by a True result of _is_build_file_operation_cached / _is_subbuild_operation_cached, by every hit of _build_file_cache_lookup / _subbuild_cache_lookup, by the loop invariant of _are_suboperations_cached, and by the reuse branches of _subbuild and _try_to_reuse_cached_file; get_func_version returns None for absent names; version comparison is JsonUtil.is_equal whose contract is the spec jeq (C18 lemmas: 1 == 1.0, True != 1, key order irrelevant); build_versioned gives the new cache exactly rt(versions) (first-effect guard).",
  note="Assumes records read from the cache file are well-typed (ghost predicate RWF, an assumption on the input) and immutable during the build; persistence of versions through the cache file is the trusted file layer (bounded stand-in cache_forest); 'result equals from-scratch' is C01.",
  ref="DESIGN.md 5 C06"),
 'C08': dict(
  text="Deductive proof, sequential: _build_file raises RuntimeError with empty effect trace, no callback and no change to any existing object when its path is already claimed or finished in this build (or is the cache file); _subbuild likewise when the subbuild key is taken; claims are single map updates under the documented lock (lockset obligations on Cache); a True result of the replay functions implies the record is not setup-failed and its path is unclaimed; attempts are recorded on the caller's record, closed; subbuild keys are the hashable form of [name, args, kwargs] (key lemma of C18); a failed attempt is marked setup_failed exactly when no user function was called (only such records are retried by the next build), and leaves no claim in progress.",
  note="Threads: the atomic-section (lockset) obligations are decided, plus ONE rely condition: Cache.start_subbuild / start_building_file may refuse although the caller's unlocked early check passed (another thread claimed the key in between); under it _subbuild keeps its exception clauses (a refusal is not recorded as a failure of the user function) and _build_file must hold the claim before it moves the target aside - the latter FAILS on the unchanged tree and is the open known finding of this property (replayed with one forced two-thread schedule). Other interleavings are not decided. Registration of a reused subtree is verified (round 4): Cache.use_cached_operation returns only if no key of the subtree (relation in_subtree, defined through its prefix version) was claimed or registered, then every non-setup-failed record of the subtree is registered, entries of earlier calls are untouched, the only exceptional exit (RuntimeError) leaves the cache unchanged, and the check and the registration run under both locks (lockset obligations at the two helper calls).",
  ref="DESIGN.md 5 C08"),
 'C10': dict(
  text="Deductive proof over _build_file, _rebuild_file, _prepare_file_creation, _make_dirs, _make_room and build_file_with_comparison, on all paths including OSError from every mutating primitive: normal return implies the record is closed, not raised and registered, the user function was called once with fresh copies of the sanitized arguments; any Exception closes the record and marks it raised (KeyboardInterrupt passes through); a failing _make_dirs has attempted rmdir on every directory it created; the error-created directories returned by _set_created_dirs are exactly BuildDirs' error set; every Exception exit of _build_file/_rebuild_file gives the reservation of the target back (ghost bd_resv) and the function receives abspath of the given name.",
  note="BuildDirs' reservation bookkeeping (virtual removal of directories on failure) is a trusted contract with a bounded stand-in; 'target absent when the function starts' is proved only as 'moved aside / not a directory'.",
  ref="DESIGN.md 5 C10"),
 'C14': dict(
  text="Deductive proof with fault injection in the model: every mutating primitive (mkdir, rmdir, remove, rename, replace, makedirs, cache write) may raise an OSError subclass without effect on every call; under that model _make_dirs leaves no directory without an rmdir attempt, _build_file/_rebuild_file/_subbuild/_apply_cached_suboperations keep the record invariants on every exceptional exit, _build turns any such Exception into close + roll back + re-raise, _roll_back itself never raises.",
  note="BuildDirs' reservation machine and scan are trusted contracts (bounded stand-ins); FileBackups is verified except for the freshness of backup paths (stand-in); a failed build_file gives its reservation back and leaves no claim in progress (exc-post of _build_file, scratch ghost bd_resv); failures during commit are outside the statement.",
  ref="DESIGN.md 5 C14"),
 'C04': dict(
  text="Deductive proof that the executor's queries equal the statement's virtual view, written from the statement (VFile: not the cache file; a path passed to build_file in this build is a file iff its function has returned and the file exists; otherwise iff it is not an old output and is a regular file; VDir: a real directory not virtually gone; the replay overlay takes precedence): _is_file_no_read, is_file, is_dir, exists, _assert_exists, _assert_is_dir, read (incl. which OSError subclass), get_size, list_dir (every listed name exists in the view) and _list_dir_superset are verified against it on all paths; _rebuild_file proves that the target is claimed while its function runs and registered (visible, or failed and invisible) on every exit; query methods pass no overlay.",
  note="'Virtually gone' is the answer of BuildDirs' directory scan (is_removed_norm_case), a trusted contract with the bounded stand-in dir_scan (14 external changes of a recorded tree); the reservation machine has the bounded stand-in build_dirs_machine; walk/_append_walk are not under contract (not decided); completeness of list_dir (every existing child is listed) is proved only for _list_dir_superset; the cache-only-directory latitude is built into the view.",
  ref="DESIGN.md 5 C04"),
 'C05': dict(
  text="Deductive proof of the effectiveness mechanisms: replay queries never need the real file system for paths that exist only in the overlay (_list_dir_superset; get_size is a listed known finding); listings are sorted (deterministic); reuse does not call the function and records the current comparison result; the replay functions leave the file system untouched and keep the CreatedFiles invariant (overlay evolves as recorded: counts never drop); lookups hit only the old record of the same key.",
  note="The 'only if' direction (a record is rejected only for one of the listed reasons) and the read-footprint argument are not decided; composition over whole builds is informal (see C01).",
  ref="DESIGN.md 5 C05"),
 'C13': dict(
  text="Deductive proof of the comparison primitives: _file_metadata returns exactly {size: st_size, timeNs: st_mtime_ns} of the file (IsADirectoryError / FileNotFoundError exactly for directories / missing paths); file_comparison_result dispatches METADATA/HASH and rejects other names with ValueError; _file_hash either hashes the file now and memoises (hash, built-flag) or serves a memo entry whose built-flag equals the current one and whose path is still a regular file; read returns that result only for virtual files; _is_build_file_cached is JsonUtil.is_equal(recorded, current-or-None) and implies the output exists; _rebuild_file records the result taken after the function returned; reuse records the current result; the public methods read_text/read_binary/declare_read (and list_dir, walk, is_file, is_dir, exists, get_size) are verified to record exactly one simple operation carrying the sanitized path and the name of the comparison kind that was asked for. Coverage of a look-up (nested in a reused subtree): the replay functions return True only after every recorded suboperation was handed to its replay function (ghost `replayed`, loop invariant over the visited prefix), so no recorded read is skipped and the walk is not cut short.",
  note="SHA-256 is an uninterpreted digest (content -> hash injectivity assumed); the memo invariant 'entry equals the hash of the current content' needs the history of writes and is not decided (design candidate M7); which bytes _file_hash feeds to the digest and the integer exactness of timeNs are pinned by the comparison_cases replay only (bounded), which decides when the body regresses or leaves the analysable subset.",
  ref="DESIGN.md 5 C13"),
 'C16': dict(
  text="Proof + bounded: Cache.read_immutable is verified to have no effect on any path and to build a Cache whose maps are what _operations_from_json registered; Cache.write is verified to perform exactly one effect (opening the file it was given for writing) and _build proves it is called only after the root function returned, after the created directories were recorded and with the previous cache file moved aside, and that the text handed to the text-mode stream is ASCII (stated precondition of the assumed file.write model: json.dumps with ensure_ascii on); the record serialisation round trip (write o read_immutable over record forests, versions incl. falsy values, unicode names, big ints) is a bounded stand-in (cache_forest), not a proof.",
  note="_operation_to_json/_operations_from_json/json/gzip are the trusted file layer; 'if writing fails and there was no cache file, none is left' is the guard _build/guard._roll_back.cache-file-written-by-this-build-is-not-left-behind (defect D5 found by it, repaired in ba05d4b).",
  ref="DESIGN.md 5 C16"),
 'C07': dict(
  text="Deductive proof: subbuild_key is the hashable form of [name, args, kwargs] (verified against spec hsh); lemma subbuild_key_identity (from the key lemma of C18): two such keys select the same dict slot iff same name and JSON-equal args and kwargs; Cache addresses subbuilds only through that slot (start/finish/has/get verified); _build_file_cache_lookup hits only the record stored under the same sanitized path with the same function name and JSON-equal arguments; arguments are sanitized (JSON round trip rt) before they are stored and the function receives fresh copies of the stored values; _sanitize_filename is abspath(fsdecode(x)).",
  note="Assumes Python dict lookup = ==/hash on tuples of atoms (axiom DICT_KEYS), os.path.abspath/fsdecode; the C18 assumptions.",
  ref="DESIGN.md 5 C07"),
 'C01': dict(
  text="Deductive proof of the necessary conditions that carry cache transparency, function by function: a lookup hit is the old record of the same key, not raised, same function name, JSON-equal arguments, unchanged versions in the whole subtree, intact output; a True replay answer implies not setup-failed, path/key unclaimed, and leaves the file system untouched; the CreatedFiles overlay satisfies its representation invariant after every operation (directories = those with a live file below); reuse does not call the function, closes the record, re-reserves every recorded output (count NBF of non-raised build-file records in the subtree, also below raised ones) or releases everything on failure; commit removes only old outputs that are not virtually files and old/error directories; a recorded query is accepted by _is_simple_operation_cached only if executor.exec was called in that call and its outcome (ghost log of exec's contract) has the recorded exception class and a JSON-equal value.",
  note="The end-to-end statement (incremental build equals from-scratch build for every program and history) is a simulation argument over arbitrary user callbacks: composition is informal and NOT machine-checked (a differential replay template, 360 two-build histories against from-scratch builds, is run only to confirm a failed obligation); BuildDirs' scan and reservation release are trusted contracts with bounded stand-ins (Cache.use_cached_operation / _assert_no_repeats / _use_cached_operation are verified since round 4).",
  ref="DESIGN.md 5 C01"),
}
NA_REASON = {
 'C09': "quantifies over thread schedules between critical sections; pyvc has sequential semantics and contracts cannot express or explore interleavings (DESIGN.md section 7)",
}
TECH = "contract-based deductive verification: Python AST -> z3/cvc5 verification conditions (pyvc), sidecar contracts, induction lemmas"


def main():
    props = [json.loads(l) for l in open('/verif/properties.jsonl')]
    m = {
        "version": 1,
        "setup_cmd": "cd /verif && ./check --selfcheck",
        "hooks": {"guard": "FILE_BUILDER_VERIF",
                  "enable": "no source hooks: contracts are sidecars under /verif/contracts keyed by qualified name; pyvc reads /repo/file_builder/*.py on every run",
                  "baseline_off_cmd": "cd /repo && /venv/bin/python -m pytest -ra -q -p no:cacheprovider --timeout=900 --continue-on-collection-errors",
                  "source_commits": [], "add_only": True},
        "engines": [{"name": "pyvc", "path": "/verif/pyvc", "serves_properties": sorted(CLAIMS),
                     "kind_free_text": "Python ast -> SMT verification-condition generator with sidecar contracts; z3 5.1 / cvc5 1.0.3 back ends"}],
        "checks": [], "not_applicable": [],
        "notes": "One entry point: /verif/check <ID> [--tier quick|thorough]. Exit 0 held / 1 violation / 2 undecided / 3 checker error.",
    }
    for p in props:
        pid = p['id']
        if pid in CLAIMS:
            c = CLAIMS[pid]
            m['checks'].append({
                "property_id": pid, "quick_cmd": "cd /verif && ./check %s --tier quick" % pid,
                "thorough_cmd": "cd /verif && ./check %s --tier thorough" % pid,
                "evidence_file": "/verif/evidence/%s.json" % pid,
                "replay_cmd_template": "cd /verif && ./check %s --replay {path}" % pid,
                "engine": "pyvc",
                "level_claimed": {"category": "proof", "text": c['text'], "design_ref": c['ref']},
                "level_note": c['note'], "technique": c.get('technique', TECH)})
        else:
            m['not_applicable'].append({"property_id": pid, "reason": NA_REASON.get(
                pid, "contracts not built yet in this round (work in progress, DESIGN.md section 9); not decided by any other technique")})
    json.dump(m, open('/verif/MANIFEST.json', 'w'), indent=1)


if __name__ == '__main__':
    main()

"""Regenerates MANIFEST.json from the claims table below (run by hand after changing claims)."""
import json

CLAIMS = {
 'C18': dict(
  text="Deductive proof, for all inputs: the four JsonUtil functions are symbolically executed from /repo's current source against sidecar contracts whose postconditions are the statement's spec functions (json round trip rt, JSON equality jeq, hashable form hsh); the code-independent spec lemmas (jeq is an equivalence, 1==1.0, bool!=number, list==tuple, key lemma hsh-equal <=> jeq, rt yields sanitized values) are proved by structural induction; every obligation is discharged by z3 (cvc5 for z3's unknowns).",
  note="Assumes: the PyV value model of spec/json_spec.py (dicts up to insertion order, -0.0==0.0, subclass instances do not override __str__/__int__/__float__/__eq__), Python dict/tuple ==/hash, one assumed axiom PIGEONHOLE (finite pigeonhole on sorted association lists, used only in is_equal's dict branch), termination not verified.",
  ref="DESIGN.md 4.1, 5 C18"),
 'C15': dict(
  text="Deductive proof over all paths of build_versioned, clean and Cache.read_immutable (read from /repo on every run): every exceptional exit of clean and read_immutable has an empty effect trace, no callback and an unchanged ghost file system; in build_versioned the first mutating primitive (mkdtemp of the backup directory) carries a guard obligation that every validation fact holds (name is a str, func callable, versions a JSON dict, cache path not a directory, stored build name equal) and that nothing happened before; every exceptional exit either has no effect or starts with that mkdtemp.",
  note="Assumes the OS/library model of pyvc/libfs.py (isfile/isdir/gzip.open('rt')/json.load are read-only; which library calls mutate is part of the trusted base; the mode literal of gzip.open is read from the source), _build's frame contract (verified under C02 when claimed), Cache._operations_from_json's frame (trusted, bounded stand-in planned).",
  ref="DESIGN.md 5 C15"),
 'C17': dict(
  text="Deductive proof, per method: for each of the 12 public instance methods a contract variant with precondition 'this builder's function has finished' is verified: the only outcomes are RuntimeError (or TypeError for an ill-typed argument checked first), with empty effect trace, no callback and no change to any pre-existing object (frame obligations); _assert_not_finished and _append_suboperation are verified against exact contracts (append happens iff not finished, under the owner's lock: lockset obligation).",
  note="Sequential semantics: the racing clause (straggler thread between its check and its append) is not decided. Z2 (is_finished set on every exit of the code that ran the callback) is verified only for build_versioned's finally so far.",
  ref="DESIGN.md 5 C17"),
 'C11': dict(
  text="Deductive proof of ownership (region) obligations at every value-carrying API edge, on all paths: values returned by build_file_with_comparison, subbuild and _exec_simple_operation (all query methods) are fresh copies (provenance flag of the interpreter: created by copy.deepcopy/JsonUtil.sanitize after entry, or provably an immutable atom); every JSON argument handed to a user function in _rebuild_file and _subbuild is a fresh copy (obligation at the callback call site); JsonUtil.sanitize's result shares no mutable structure with its argument; arguments stored in records are sanitize results.",
  note="Assumes copy.deepcopy returns an equal value sharing no mutable structure; container fields are uniquely owned (value semantics); user code reaches records only through the API (no private attribute access).",
  ref="DESIGN.md 5 C11"),
}
NA_REASON = {
 'C09': "quantifies over thread schedules between critical sections; pyvc has sequential semantics and contracts cannot express or explore interleavings (DESIGN.md section 7)",
}
TECH = "contract-based deductive verification: Python AST -> z3/cvc5 verification conditions (pyvc), sidecar contracts, induction lemmas"


def main():
    props = [json.loads(l) for l in open('/verif/properties.jsonl')]
    m = {
        "version": 1,
        "setup_cmd": "cd /verif && ./check --selfcheck",
        "hooks": {"guard": "FILE_BUILDER_VERIF",
                  "enable": "no source hooks: contracts are sidecars under /verif/contracts keyed by qualified name; pyvc reads /repo/file_builder/*.py on every run",
                  "baseline_off_cmd": "cd /repo && /venv/bin/python -m pytest -ra -q -p no:cacheprovider --timeout=900 --continue-on-collection-errors",
                  "source_commits": [], "add_only": True},
        "engines": [{"name": "pyvc", "path": "/verif/pyvc", "serves_properties": sorted(CLAIMS),
                     "kind_free_text": "Python ast -> SMT verification-condition generator with sidecar contracts; z3 5.1 / cvc5 1.0.3 back ends"}],
        "checks": [], "not_applicable": [],
        "notes": "One entry point: /verif/check <ID> [--tier quick|thorough]. Exit 0 held / 1 violation / 2 undecided / 3 checker error.",
    }
    for p in props:
        pid = p['id']
        if pid in CLAIMS:
            c = CLAIMS[pid]
            m['checks'].append({
                "property_id": pid, "quick_cmd": "cd /verif && ./check %s --tier quick" % pid,
                "thorough_cmd": "cd /verif && ./check %s --tier thorough" % pid,
                "evidence_file": "/verif/evidence/%s.json" % pid,
                "replay_cmd_template": "cd /verif && ./check %s --replay {path}" % pid,
                "engine": "pyvc",
                "level_claimed": {"category": "proof", "text": c['text'], "design_ref": c['ref']},
                "level_note": c['note'], "technique": c.get('technique', TECH)})
        else:
            m['not_applicable'].append({"property_id": pid, "reason": NA_REASON.get(
                pid, "contracts not built yet in this round (work in progress, DESIGN.md section 9); not decided by any other technique")})
    json.dump(m, open('/verif/MANIFEST.json', 'w'), indent=1)


if __name__ == '__main__':
    main()

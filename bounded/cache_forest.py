"""Bounded stand-in for the tree-recursive Cache functions whose contracts are trusted by the
proofs: use_cached_operation / _assert_no_repeats / _use_cached_operation (all-or-nothing
registration, setup-failed records never registered) and write o read_immutable (every registered
record written exactly once and read back field by field).  All record forests with <= MAXOPS complex
operations, depth <= 3, over a small alphabet of names/paths/arguments/flags are built on the REAL
classes.  Not a proof."""
import itertools
import json
import os
import shutil
import sys
import tempfile
import time

MAXOPS = int(os.environ.get('CF_MAXOPS', '6'))


def main():
    from file_builder.cache import Cache
    from file_builder.file_comparison import FileComparison
    from file_builder.operation import BuildFileOperation, SimpleOperation, SubbuildOperation
    t0 = time.time()
    tmp = tempfile.mkdtemp(prefix='cf_', dir=os.path.join(os.path.dirname(os.path.dirname(
        os.path.abspath(__file__))), 'replays', 'tmp') if os.path.isdir(os.path.join(
            os.path.dirname(os.path.dirname(os.path.abspath(__file__))), 'replays', 'tmp')) else None)
    n = 0
    failures = []
    values = [None, 1, 1.5, 'x', [1, [2.0, 'é']], {'k': {'n': 2 ** 70}}, True, '\U0001f600 a b',
              0, 0.0, False, '', [], {}, '\ud83d lone surrogate', -0.0, 1e300,
              {'preface': 1, 'basics': {'z': 0, 'y': [{'b': 1, 'a': 2}]}, 'advanced': 3}]
    paths = ['/p/a b.txt', '/p/.dot', '/p/ü/o', '/q/x', '/q/caf\udce9 latin-1', '/q/z w', '/r/1',
             '/r/2']

    def leaf_variants(kind, idx):
        for raised, setup_failed in ((False, False), (True, False), (True, True)):
            if kind == 'f':
                yield lambda subs, r=raised, s=setup_failed: BuildFileOperation(
                    paths[idx], FileComparison.HASH if idx % 2 else
                    FileComparison.METADATA, 'fn%d' % (idx % 2), [values[idx % len(values)]],
                    {'kw': values[(idx + 3) % len(values)]}, subs,
                    None if r else values[(idx + 1) % len(values)],
                    None if r else {'size': idx, 'timeNs': 10 ** 18 + idx}, r, s, True)
            else:
                yield lambda subs, r=raised, s=setup_failed: SubbuildOperation(
                    'sub%d' % (idx % 2), [idx, values[idx % len(values)]], {}, subs,
                    None if r else values[(idx + 2) % len(values)], r, s, True)

    def simple(idx):
        return SimpleOperation('list_dir' if idx % 2 else 'is_file', ['/in/%d' % idx],
                               ['a', 'b'] if idx % 2 else True,
                               # failure markers: the class name of ANY OSError the query raised
                               (None, 'FileNotFoundError', 'OSError', None, 'PermissionError',
                                'NotADirectoryError', None, 'IsADirectoryError',
                                'BlockingIOError')[idx % 9], True)

    # tree shapes as nested tuples of child-shapes, total complex nodes <= MAXOPS, depth <= 3
    def shapes(nodes, depth):
        if nodes == 0:
            return
        if depth == 1:
            yield ()
            return
        yield ()
        for k in range(1, nodes):
            for first in shapes(k, depth - 1):
                size_first = count(first)
                for rest in shapes_list(nodes - 1 - size_first, depth - 1):
                    yield (first,) + rest

    def shapes_list(nodes, depth):
        yield ()
        for k in range(1, nodes + 1):
            for first in shapes(k, depth):
                for rest in shapes_list(nodes - count(first), depth):
                    yield (first,) + rest

    def count(shape):
        return 1 + sum(count(c) for c in shape)

    # every value of the alphabet at every value-carrying position of a record, every path name
    for vi, v in enumerate(values):
        for pi in (vi % len(paths), (vi + 3) % len(paths)):
            n += 1
            try:
                json.dumps(v)
            except (TypeError, ValueError):
                continue
            bf = BuildFileOperation(paths[pi], FileComparison.HASH, 'fn', [v], {'kw': v},
                                    [SimpleOperation('list_dir', [paths[pi]], [v], None, True)],
                                    v, {'size': vi, 'timeNs': 1}, False, False, True)
            sb = SubbuildOperation('sub', [v, [v]], {'a': {'b': v}}, [bf], v, False, False, True)
            bad = check_forest(Cache, sb, tmp, BuildFileOperation, SubbuildOperation,
                               SimpleOperation)
            if bad:
                failures.append({'value': repr(v), 'path': paths[pi], 'problem': bad})
                break
        if failures:
            break
    seen_shapes = set()
    for total in range(1, MAXOPS + 1):
        for shape in shapes(total, 3):
            if count(shape) != total or shape in seen_shapes:
                continue
            seen_shapes.add(shape)
            counter = [0]

            def build(sh, flags):
                idx = counter[0]
                counter[0] += 1
                kind = 'f' if idx % 2 == 0 else 's'
                variant = list(leaf_variants(kind, idx))[flags[idx % len(flags)]]
                subs = [simple(idx)]
                if flags[idx % len(flags)] == 2 and sh:
                    # a record whose set-up failed never ran its function nor reused a cached
                    # subtree: it has no complex suboperations (unreachable shape, skipped)
                    raise SkipShape()
                for c in sh:
                    subs.append(build(c, flags))
                subs.append(simple(idx + 7))
                return variant(subs)
            for flags in itertools.product(range(3), repeat=min(total, 4)):
                counter[0] = 0
                try:
                    rootop = build(shape, flags)
                except SkipShape:
                    continue
                n += 1
                bad = check_forest(Cache, rootop, tmp, BuildFileOperation, SubbuildOperation,
                                   SimpleOperation)
                if bad:
                    failures.append({'shape': repr(shape), 'flags': flags, 'problem': bad})
                    break
            if failures:
                break
        if failures:
            break
    shutil.rmtree(tmp, ignore_errors=True)
    print(json.dumps({'evaluations': n, 'failures': failures[:3], 'exhaustive': True,
                      'wall_s': round(time.time() - t0, 2)}))


VERSIONS = {'fn0': [1, {'a': None}], 'v_zero': 0, 'v_false': False, 'v_empty_str': '',
            'v_empty_list': [], 'v_empty_dict': {}, 'v_none': None, 'v_float0': 0.0, 'v_true': True,
            'v_one': 1, 'v_big': 2 ** 70, 'v_text': 'é \U0001f600'}


class SkipShape(Exception):
    pass


def complex_ops(op, acc, BFO, SBO):
    if isinstance(op, (BFO, SBO)):
        acc.append(op)
        for s in op.suboperations:
            complex_ops(s, acc, BFO, SBO)
    return acc


def same(a, b, BFO, SBO, SO):
    from file_builder.json_util import JsonUtil
    if type(a) is not type(b):
        return 'record kind %s vs %s' % (type(a).__name__, type(b).__name__)
    if isinstance(a, SO):
        if (a.name, a.exception_type_str) != (b.name, b.exception_type_str) or \
                not JsonUtil.is_equal(a.args, b.args) or \
                not JsonUtil.is_equal(a.return_value, b.return_value):
            return 'simple operation differs'
        return None
    if (a.func_name, bool(a.raised), bool(a.setup_failed)) != (b.func_name, bool(b.raised),
                                                               bool(b.setup_failed)):
        return 'name/raised/setup_failed differ: %r vs %r' % (
            (a.func_name, a.raised, a.setup_failed), (b.func_name, b.raised, b.setup_failed))
    if json.dumps([a.args, a.kwargs, a.return_value], sort_keys=True) != \
            json.dumps([b.args, b.kwargs, b.return_value], sort_keys=True):
        return 'args/kwargs/return value differ'
    # dicts keep their insertion order and a caller that iterates a returned dict sees it: the value
    # that comes back from the cache file must list its keys in the order the executed call did
    if json.dumps([a.args, a.kwargs, a.return_value]) != \
            json.dumps([b.args, b.kwargs, b.return_value]):
        return 'dict key order of args/kwargs/return value differs'
    if isinstance(a, BFO):
        if (a.filename, a.file_comparison) != (b.filename, b.file_comparison) or \
                a.file_comparison_result != b.file_comparison_result:
            return 'build-file fields differ'
    if len(a.suboperations) != len(b.suboperations):
        return 'number of suboperations differs'
    for x, y in zip(a.suboperations, b.suboperations):
        r = same(x, y, BFO, SBO, SO)
        if r:
            return r
    return None


def check_forest(Cache, rootop, tmp, BFO, SBO, SO):
    ops = complex_ops(rootop, [], BFO, SBO)
    live = [o for o in ops if not o.setup_failed]
    keys = []
    for o in live:
        keys.append(('f', o.filename) if isinstance(o, BFO) else ('s', Cache.subbuild_key(o)))
    if len(set(keys)) != len(keys):
        return 'generator produced duplicate keys (test bug)'
    # C08.D6: a subtree one of whose keys is already taken (claimed or finished) is rejected as a
    # whole and nothing of it is registered
    for o, k in zip(live, keys):
        c0 = Cache.create_empty_mutable('n', {})
        if k[0] == 'f':
            c0.start_building_file(k[1])
        else:
            c0.start_subbuild(k[1], o)
        before = (dict(c0._files), dict(c0._norm_cased_files), dict(c0._subbuilds))
        try:
            c0.use_cached_operation(rootop)
            return 'reuse accepted although the key of %r was already taken' % (k[1],)
        except RuntimeError:
            pass
        if (dict(c0._files), dict(c0._norm_cased_files), dict(c0._subbuilds)) != before:
            return 'rejected reuse left entries behind'
    c = Cache.create_empty_mutable('n', dict(VERSIONS))
    try:
        c.use_cached_operation(rootop)
    except RuntimeError:
        return 'reuse of a duplicate-free subtree into an empty cache was rejected'
    for o, k in zip(live, keys):
        got = c.get_file(k[1]) if k[0] == 'f' else c.get_subbuild(k[1])
        if got is not o:
            return 'record not registered under its key'
    if len(c._files) + len(c._subbuilds) != len(live):
        return 'setup-failed or foreign records registered'
    if any(v is None for v in list(c._files.values()) + list(c._norm_cased_files.values())
           + list(c._subbuilds.values())):
        return 'a reuse left a claim in progress (None entry)'
    # a second reuse of the same tree must be rejected and change nothing (C08.D5/D6)
    before = (dict(c._files), dict(c._subbuilds))
    if live:
        try:
            c.use_cached_operation(rootop)
            return 'second reuse of the same subtree accepted'
        except RuntimeError:
            pass
        if (dict(c._files), dict(c._subbuilds)) != before:
            return 'rejected second reuse changed the cache'
    # C16: write / read round trip
    c.add_created_dirs(['/p', '/p/ü'])
    fn = os.path.join(tmp, 'cache.gz')
    try:
        c.write(fn)
    except Exception as e:
        return 'Cache.write raised %s on recorded JSON data: %s' % (type(e).__name__, str(e)[:120])
    try:
        r = Cache.read_immutable(fn)
    except Exception as e:
        return 'Cache.read_immutable raised %s on a file Cache.write just wrote: %s' % (
            type(e).__name__, str(e)[:120])
    if sorted(r.created_dirs()) != ['/p', '/p/ü'] or r.build_name() != 'n':
        return 'header fields not preserved'
    for name, ver in VERSIONS.items():
        got = r.get_func_version(name)
        if got != ver or type(got) is not type(ver):
            return 'function version %r read back as %r, written %r' % (name, got, ver)
    if r.get_func_version('zz') is not None:
        return 'absent version is not None'
    if sorted(r._files) != sorted(c._files) or set(r._subbuilds) != set(c._subbuilds):
        return 'registered keys differ after the round trip'
    for k, o in list(c._files.items()) + list(c._subbuilds.items()):
        o2 = r._files[k] if isinstance(o, BFO) else r._subbuilds[k]
        bad = same(o, o2, BFO, SBO, SO)
        if bad:
            return 'round trip: ' + bad
    if live and not rootop.setup_failed:
        with __import__('gzip').open(fn, 'rt') as f:
            roots = json.load(f)['rootOperations']
        if len(roots) != 1:
            return 'root detection wrote %d roots for one tree' % len(roots)
    return None


if __name__ == '__main__':
    main()

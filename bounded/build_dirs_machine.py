"""Bounded stand-in for the BuildDirs reservation machine (started_building_file /
error_building_file / created_dirs / norm_cased_error_created_dirs), whose contracts are trusted by
the proofs.  Every protocol-respecting call sequence up to the stated length over a small path
universe is run on the REAL class and compared with a reference model that keeps *sets* of reserved
children instead of counts.  Bound: 5 files in 4 nested directories, sequences of <= LEN calls, the
`created_dirs` argument = the ancestors that are not yet virtually present.  Not a proof."""
import json
import os
import sys
import time

LEN = int(os.environ.get('BD_LEN', '6'))


def ancestors(p):
    out = []
    q = os.path.dirname(p)
    while True:
        out.append(q)
        n = os.path.dirname(q)
        if n == q:
            break
        q = n
    return out


def main():
    from file_builder.build_dirs import BuildDirs
    root = os.path.abspath(os.sep)
    files = [os.path.join(root, 'a', 'f1'), os.path.join(root, 'a', 'f2'),
             os.path.join(root, 'a', 'b', 'f3'), os.path.join(root, 'a', 'b', 'c', 'f4'),
             os.path.join(root, 'd', 'f5')]
    dirs = [os.path.join(root, 'a'), os.path.join(root, 'a', 'b'), os.path.join(root, 'a', 'b', 'c'),
            os.path.join(root, 'd')]
    n = [0]
    failures = []
    t0 = time.time()

    def replay(seq):
        bd = BuildDirs([], [])
        kids, created, err, vdirs = {}, {}, set(), {root}
        for (op, i) in seq:
            if op == 'q':
                # a query in between (what the executor does for is_dir/exists): the scan memoises
                # in _removed_dirs, which later bookkeeping must not mistake for "nothing to do".
                # The paths do not exist on disk, so a directory is virtually present iff reserved.
                d = dirs[i]
                got = bd.is_removed_norm_case(d)
                exp = (d not in kids) and (d in err)
                if got != exp:
                    return 'is_removed_norm_case(%s) = %r, expected %r' % (d, got, exp)
                continue
            f = files[i]
            if op == 's':
                made = [a for a in reversed(ancestors(f)) if a not in vdirs]
                got = bd.started_building_file(f, made)
                exp_locked = []
                child = f
                for a in ancestors(f):
                    first = a not in kids
                    kids.setdefault(a, set()).add(child)
                    if not first:
                        break
                    if a in made:
                        created[a] = a
                        err.discard(a)
                        exp_locked.append(a)
                    child = a
                vdirs.update(ancestors(f))
                if got != exp_locked:
                    return 'started_building_file returned %r, expected %r' % (got, exp_locked)
            else:
                bd.error_building_file(f)
                child = f
                for a in ancestors(f):
                    kids[a].discard(child)
                    if kids[a]:
                        break
                    del kids[a]
                    if a in created:
                        del created[a]
                        err.add(a)
                        vdirs.discard(a)
                    child = a
            if sorted(bd.created_dirs()) != sorted(created.values()):
                return 'created_dirs %r, expected %r' % (sorted(bd.created_dirs()),
                                                         sorted(created.values()))
            if sorted(bd.norm_cased_error_created_dirs()) != sorted(err):
                return 'error-created dirs %r, expected %r' % (
                    sorted(bd.norm_cased_error_created_dirs()), sorted(err))
            if bd._build_dir_counts != {d: len(k) for d, k in kids.items()}:
                return 'reservation counts %r, expected %r' % (bd._build_dir_counts,
                                                               {d: len(k) for d, k in kids.items()})
        return None

    def explore(seq, state):
        n[0] += 1
        try:
            bad = replay(seq)
        except Exception as e:
            bad = 'raised %s: %s' % (type(e).__name__, e)
        if bad:
            failures.append({'sequence': [(op, (dirs if op == 'q' else files)[i]) for op, i in seq],
                             'problem': bad})
            return True
        if len(seq) >= LEN:
            return False
        if sum(1 for (op, _) in seq if op == 'q') < 2:
            for j in range(len(dirs)):
                if explore(seq + [('q', j)], state):
                    return True
        for i in range(len(files)):
            for op, frm, to in (('s', 0, 1), ('e', 1, 2), ('s', 2, 1)):
                if state[i] == frm:
                    st2 = list(state)
                    st2[i] = to
                    if explore(seq + [(op, i)], tuple(st2)):
                        return True
        return False
    explore([], (0,) * len(files))
    print(json.dumps({'evaluations': n[0], 'failures': failures[:3], 'exhaustive': True,
                      'wall_s': round(time.time() - t0, 2)}))


if __name__ == '__main__':
    main()

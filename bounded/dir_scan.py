"""Bounded stand-in for BuildDirs' directory scan (is_removed_norm_case / _check_maybe_removed_dir /
handle_norm_cased_dir_exists), whose contract ("the answer is whether the directory is gone in the
from-scratch view") is trusted by the C04 proofs.  A previous build's outputs and created directories
are materialised in a scratch directory, one of MUTATIONS external changes is applied, and a fresh
SimpleOperationExecutor is asked is_dir / is_file / exists / list_dir about every path, for every
order of the four key paths (the scan memoises, so answers must not depend on the order of queries).
Reference = plain os.path answers on a copy of the tree from which the previous outputs, the cache
file and the then-empty created directories were removed.  Not a proof."""
import itertools
import json
import os
import shutil
import sys
import tempfile
import time


def main():
    from file_builder.build_dirs import BuildDirs
    from file_builder.cache import Cache
    from file_builder.file_comparison import FileComparison
    from file_builder.operation import BuildFileOperation
    from file_builder.simple_operation_executor import SimpleOperationExecutor
    here = os.path.dirname(os.path.dirname(os.path.abspath(__file__)))
    base = os.path.join(here, 'replays', 'tmp')
    os.makedirs(base, exist_ok=True)
    t0 = time.time()
    n = 0
    failures = []

    def w(p, text='x'):
        os.makedirs(os.path.dirname(p), exist_ok=True)
        with open(p, 'w') as f:
            f.write(text)

    def setup(root):
        A, B, C = os.path.join(root, 'A'), os.path.join(root, 'A', 'B'), os.path.join(root, 'C')
        f, g, h = os.path.join(B, 'f.txt'), os.path.join(A, 'g.txt'), os.path.join(C, 'h.txt')
        for p in (f, g, h):
            w(p)
        cache = os.path.join(root, 'cachedir', 'c.gz')
        w(cache)
        return dict(A=A, B=B, C=C, f=f, g=g, h=h, cache=cache,
                    old_dirs=[A, B, C, os.path.dirname(cache)], old_files=[f, g, h])

    MUTATIONS = {
        'none': lambda t: None,
        'delete f': lambda t: os.remove(t['f']),
        'delete all outputs': lambda t: [os.remove(t[k]) for k in 'fgh'],
        'B replaced by a foreign file': lambda t: (shutil.rmtree(t['B']), w(t['B'], 'foreign')),
        'foreign file in B': lambda t: w(os.path.join(t['B'], 'foreign.txt')),
        'foreign dir in A': lambda t: os.makedirs(os.path.join(t['A'], 'fd')),
        'foreign file in C, h deleted': lambda t: (os.remove(t['h']),
                                                 w(os.path.join(t['C'], 'keep.txt'))),
        'f replaced by a directory': lambda t: (os.remove(t['f']), os.makedirs(t['f'])),
        'A removed': lambda t: shutil.rmtree(t['A']),
        'C replaced by a foreign file': lambda t: (shutil.rmtree(t['C']), w(t['C'], 'foreign')),
        'g replaced by a dir with a file': lambda t: (os.remove(t['g']),
                                                    w(os.path.join(t['g'], 'inner.txt'))),
    }

    def reference(root, t):
        ref = tempfile.mkdtemp(prefix='ref_', dir=base)
        shutil.rmtree(ref)
        shutil.copytree(root, ref, symlinks=True)
        m = lambda p: os.path.join(ref, os.path.relpath(p, root))
        for p in t['old_files'] + [t['cache']]:
            if os.path.isfile(m(p)):
                os.remove(m(p))
        changed = True
        while changed:
            changed = False
            for d in t['old_dirs']:
                if os.path.isdir(m(d)) and not os.listdir(m(d)):
                    os.rmdir(m(d))
                    changed = True
        return ref, m

    for mname, mut in MUTATIONS.items():
        root = tempfile.mkdtemp(prefix='scan_', dir=base)
        try:
            t = setup(root)
            mut(t)
            ref, m = reference(root, t)
            paths = [root, t['A'], t['B'], t['C'], t['f'], t['g'], t['h'],
                     os.path.join(t['A'], 'fd'), os.path.join(t['B'], 'foreign.txt'),
                     os.path.dirname(t['cache']), t['cache'], os.path.join(t['g'], 'inner.txt')]
            expected = {}
            for p in paths:
                expected[p] = (os.path.isfile(m(p)), os.path.isdir(m(p)),
                               sorted(os.listdir(m(p))) if os.path.isdir(m(p)) else None)
            for order in itertools.permutations([t['A'], t['B'], t['f'], t['g']]):
                n += 1
                files = {}
                for p in t['old_files']:
                    files[p] = BuildFileOperation(p, FileComparison.METADATA, 'fn', [], {}, [], None,
                                                  {'size': 1, 'timeNs': 1}, False, False, True)
                old = Cache('n', files, {}, set(t['old_dirs']), {}, {}, False)
                new = Cache.create_empty_mutable('n', {})
                bd = BuildDirs(old.created_dirs(), old.created_files() + [t['cache']])
                ex = SimpleOperationExecutor(t['cache'], old, new, bd)
                bad = None
                for p in list(order) + paths:
                    got = (ex.is_file(p), ex.is_dir(p))
                    if got != expected[p][:2] or ex.exists(p) != (got[0] or got[1]):
                        bad = 'is_file/is_dir(%s) = %r, from-scratch view %r' % (
                            os.path.relpath(p, root), got, expected[p][:2])
                        break
                    try:
                        l = ex.list_dir(p)
                    except NotADirectoryError:
                        l = 'NotADirectoryError'
                    except FileNotFoundError:
                        l = 'FileNotFoundError'
                    exp = expected[p][2] if expected[p][1] else (
                        'NotADirectoryError' if expected[p][0] else 'FileNotFoundError')
                    if l != exp:
                        bad = 'list_dir(%s) = %r, from-scratch view %r' % (
                            os.path.relpath(p, root), l, exp)
                        break
                if bad:
                    failures.append({'mutation': mname, 'problem': bad,
                                     'query_order': [os.path.relpath(p, root) for p in order]})
                    break
            shutil.rmtree(ref, ignore_errors=True)
        finally:
            shutil.rmtree(root, ignore_errors=True)
        if failures:
            break
    print(json.dumps({'evaluations': n, 'failures': failures[:3], 'exhaustive': True,
                      'wall_s': round(time.time() - t0, 2)}))


if __name__ == '__main__':
    main()

"""Bounded stand-in for FileBackups.back_up_and_remove / restore_all / __enter__ / __exit__ (trusted
contracts).  Runs the REAL class in a scratch directory: every kind of path (regular file, missing,
directory, file in a missing directory at restore time, target replaced by a directory), backup
indices 0..N_IDX plus the carry positions of the base-128 path arithmetic, a failing rename.
Not a proof."""
import json
import os
import shutil
import sys
import tempfile
import time

N_IDX = int(os.environ.get('FB_IDX', '800'))


def main():
    from file_builder.file_backups import FileBackups
    here = os.path.dirname(os.path.dirname(os.path.abspath(__file__)))
    base = os.path.join(here, 'replays', 'tmp')
    os.makedirs(base, exist_ok=True)
    root = tempfile.mkdtemp(prefix='fb_', dir=base)
    t0 = time.time()
    n = 0
    failures = []

    def fail(msg, **kw):
        failures.append(dict(problem=msg, **kw))
    try:
        # 1. index -> path map: distinct paths, all inside the temp dir, files restorable
        with FileBackups() as b:
            tmpdir = b._temp_dir
            seen = set()
            idxs = list(range(N_IDX)) + [128 * 128 - 1, 128 * 128, 128 * 128 + 1, 128 ** 3 - 1,
                                         128 ** 3, 128 ** 3 + 5, 128 ** 4 + 128 + 1]
            for i in idxs:
                n += 1
                p = os.path.join(root, 'f%d' % i)
                with open(p, 'w') as f:
                    f.write(str(i))
                b._next_backup_index = i
                if b.back_up_and_remove(p) is not True:
                    fail('regular file not backed up', index=i)
                    break
                src, dst = b._backups[-1]
                if src != p or not dst.startswith(tmpdir + os.sep) or dst in seen \
                        or os.path.exists(p) or not os.path.isfile(dst):
                    fail('bad backup path or file still present', index=i, dst=dst)
                    break
                seen.add(dst)
            b.restore_all()
            for i in idxs:
                p = os.path.join(root, 'f%d' % i)
                if not os.path.isfile(p) or open(p).read() != str(i):
                    fail('file not restored with its content', index=i)
                    break
            if b._backups:
                fail('restore_all left entries')
        if os.path.exists(tmpdir):
            fail('temporary directory not removed on exit')
        # 2. kinds of paths
        with FileBackups() as b:
            n += 1
            if b.back_up_and_remove(os.path.join(root, 'missing')) is not False or b._backups:
                fail('missing path: expected False and nothing recorded')
            d = os.path.join(root, 'adir')
            os.makedirs(os.path.join(d, 'sub'))
            n += 1
            if b.back_up_and_remove(d) is not False or b._backups:
                fail('directory: expected False and nothing recorded')
            # restore into a directory that was removed meanwhile, and onto a replaced target
            p1 = os.path.join(root, 'gone', 'x.txt')
            os.makedirs(os.path.dirname(p1))
            open(p1, 'w').write('one')
            st1 = os.stat(p1)
            p2 = os.path.join(root, 'y.txt')
            open(p2, 'w').write('two')
            p3 = os.path.join(root, 'z.txt')
            open(p3, 'w').write('three')
            for p in (p1, p2, p3):
                n += 1
                if not b.back_up_and_remove(p):
                    fail('file not backed up', path=p)
            shutil.rmtree(os.path.dirname(p1))
            open(p2, 'w').write('replacement')
            os.makedirs(p3)                      # target became a directory: skipped, no raise
            b.restore_all()
            if not os.path.isfile(p1) or open(p1).read() != 'one' or \
                    os.stat(p1).st_mtime_ns != st1.st_mtime_ns:
                fail('restore into a removed directory failed or changed mtime')
            if open(p2).read() != 'two':
                fail('restore did not overwrite the replacement')
            if not os.path.isdir(p3):
                fail('restore touched a directory target')
        # 3. rename failing with another OSError propagates, records nothing
        with FileBackups() as b:
            n += 1
            real = os.rename
            p = os.path.join(root, 'w.txt')
            open(p, 'w').write('w')

            def boom(a, c):
                raise PermissionError('injected')
            os.rename = boom
            try:
                try:
                    b.back_up_and_remove(p)
                    fail('injected rename failure was swallowed')
                except PermissionError:
                    pass
            finally:
                os.rename = real
            if b._backups or not os.path.isfile(p):
                fail('failed backup recorded something or lost the file')
    finally:
        shutil.rmtree(root, ignore_errors=True)
    print(json.dumps({'evaluations': n, 'failures': failures[:3], 'exhaustive': False,
                      'wall_s': round(time.time() - t0, 2)}))


if __name__ == '__main__':
    main()

"""Bounded stand-in for the parts of the JSON laws (C18, C07, C16) that the string model of the
proofs cannot see: z3 strings are uninterpreted there and `json.loads(json.dumps(s)) == s` is an
axiom of the model, which is false for strings that hold a surrogate PAIR as two code points (json
combines them).  Runs the differential search of replay/replay_json.py (sanitize vs the real json
round trip, is_equal vs JSON equality, hashable forms) over the collision atom set, including
surrogate pairs, lone surrogates, subclasses that override __str__/__int__/__float__, and non-JSON
values.  Not a proof."""
import json
import os
import sys
import time

HERE = os.path.dirname(os.path.abspath(__file__))
sys.path.insert(0, os.path.join(os.path.dirname(HERE), 'replay'))


def main():
    import replay_json
    t0 = time.time()
    tier = 'thorough' if os.environ.get('JL_DEEP') else 'quick'
    r = replay_json.replay({'func': 'json_util.JsonUtil.sanitize', 'tier': tier})
    out = {'evaluations': r.get('evaluations', 0), 'exhaustive': True,
           'failures': [r] if r.get('reproduced') else [], 'wall_s': round(time.time() - t0, 2)}
    print(json.dumps(out, default=repr))


if __name__ == '__main__':
    main()

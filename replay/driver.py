"""Replay driver: run under /venv/bin/python with PYTHONPATH=<repo>.  Reads a JSON request on stdin
({property, label, func, model, tier, seed}) and prints one JSON line {reproduced, ...}.

Each template drives the *real* code and checks the property's observable, not the contract."""
import json
import os
import sys

HERE = os.path.dirname(os.path.abspath(__file__))
sys.path.insert(0, HERE)


def main():
    # a private temporary directory for this process: the templates look for left-over
    # `file_builder_*` backup directories, and other processes (other checks, other users of the
    # machine) create and remove such directories in the shared /tmp at the same time
    import atexit
    import shutil
    import tempfile
    base = os.path.join(os.path.dirname(HERE), 'replays', 'tmp')
    os.makedirs(base, exist_ok=True)
    private = tempfile.mkdtemp(prefix='tmp%d_' % os.getpid(), dir=base)
    tempfile.tempdir = private
    os.environ['TMPDIR'] = private
    atexit.register(shutil.rmtree, private, True)
    req = json.loads(sys.stdin.read() or '{}')
    func = req.get('func', '')
    try:
        if req.get('mode') == 'all':
            import replay_build
            res = replay_build.replay_all(req)
        elif func.startswith('json_util.') or func.startswith('lemma:'):
            import replay_json
            res = replay_json.replay(req)
        else:
            import replay_build
            res = replay_build.replay(req)
    except Exception as e:
        import traceback
        res = {'reproduced': False, 'note': 'replay template crashed: %s' % e,
               'trace': traceback.format_exc()[-1200:]}
    print(json.dumps(res, default=repr))


if __name__ == '__main__':
    main()

"""Bounded differential replay of the JSON helper laws (C18/C07) on the real JsonUtil.

Oracle = the property statement: json.loads(json.dumps(v)) with exact types, a reference JSON
equality written from the statement, and Python's own ==/hash on the hashable forms."""
import enum
import itertools
import json
import math


class Color(enum.IntEnum):
    RED = 1


class MyStr(str):
    pass


class MyInt(int):
    def __repr__(self):
        return 'MyInt(%d)' % int(self)


class MyFloat(float):
    def __repr__(self):
        return 'MyFloat(%r)' % float(self)


class MyList(list):
    pass


class MyDict(dict):
    pass


class StrEnum_(str, enum.Enum):        # str mix-in: str(StrEnum_.RED) is not 'red'
    RED = 'red'


class LoudStr(str):
    def __str__(self):
        return 'overridden'


class LoudInt(int):
    def __int__(self):
        return 99

    def __index__(self):
        return 99


class LoudFloat(float):
    def __float__(self):
        return 9.5


ATOMS = [None, False, True, 0, 1, 2, 1.0, -0.0, 2.5, '', '0', '1', 'a', 'true', 2 ** 63, 2 ** 53,
         2 ** 53 + 1,
         float('inf'), -float('inf'),
         # a surrogate PAIR as two code points (json combines it), lone surrogates (kept)
         '\ud83d\ude00', 'x\ud83d\ude00y', '\ud83d', '\ude00\ud83d']
SUBS = [Color.RED, MyStr('a'), MyInt(1), MyFloat(1.0), MyList([1]), MyDict({'a': 1}),
        StrEnum_.RED, LoudStr('abc'), LoudInt(5), LoudFloat(2.5)]
KEYS = ['a', '0', '1', 1, 1.0, True, None, 2.5, Color.RED, MyInt(1), MyFloat(2.5), MyStr('a'),
        float('inf'), -float('inf'), float('nan'), False, 0, 0.0, -0.0, StrEnum_.RED, LoudStr('abc'),
        LoudInt(5), LoudFloat(2.5),
        # plain-str keys that hold a surrogate pair / lone surrogates (json combines the pair)
        '\ud83d\ude00', 'k\ud83d\ude00', '\ud83d', '\ude00\ud83d']


def typed_eq(a, b):
    if type(a) is not type(b):
        return False
    if isinstance(a, float):
        return (math.isnan(a) and math.isnan(b)) or a == b
    if isinstance(a, list):
        return len(a) == len(b) and all(typed_eq(x, y) for x, y in zip(a, b))
    if isinstance(a, dict):
        return set(a) == set(b) and all(type(k) is str for k in a) and \
            all(typed_eq(a[k], b[k]) for k in a)
    return a == b


def containers(v, acc):
    if isinstance(v, (list, dict)):
        acc.add(id(v))
    if isinstance(v, (list, tuple)):
        for x in v:
            containers(x, acc)
    elif isinstance(v, dict):
        for x in v.values():
            containers(x, acc)
    return acc


def ref_jeq(a, b):
    """JSON equality from the statement of C18/C07"""
    la, lb = isinstance(a, (list, tuple)), isinstance(b, (list, tuple))
    if la or lb:
        return la and lb and len(a) == len(b) and all(ref_jeq(x, y) for x, y in zip(a, b))
    if isinstance(a, dict) or isinstance(b, dict):
        return isinstance(a, dict) and isinstance(b, dict) and set(a) == set(b) and \
            all(ref_jeq(a[k], b[k]) for k in a)
    if isinstance(a, bool) or isinstance(b, bool):
        return isinstance(a, bool) and isinstance(b, bool) and a == b
    return a == b


def values(depth, with_subs):
    base = list(ATOMS) + (list(SUBS) if with_subs else [])
    out = list(base)
    if depth == 0:
        return out
    inner = values(depth - 1, with_subs)
    small = inner[:10] if depth > 1 else inner
    out.append([])
    out.append({})
    out.append(())
    for x in small:
        out.append([x])
        out.append((x,))
    for x, y in itertools.product(small[:7], repeat=2):
        out.append([x, y])
    keys = KEYS if with_subs else ['a', '0', '1']
    for k in keys:
        for x in small[:8]:
            out.append({k: x})
    for k1, k2 in itertools.permutations(keys[:9], 2):
        try:
            out.append({k1: 0, k2: [1]})
        except TypeError:
            pass
    return out


def check_sanitize(JsonUtil, v):
    try:
        expected = json.loads(json.dumps(v))
        ok = True
    except (TypeError, ValueError):
        ok = False
    try:
        got = JsonUtil.sanitize(v)
    except TypeError:
        if ok:
            return 'sanitize raised TypeError on a JSON value', None, expected
        return None
    except Exception as e:
        # any other exception is a failure of the law, not of the search
        return ('sanitize raised %s' % type(e).__name__, repr(e),
                expected if ok else 'TypeError')
    if not ok:
        return 'sanitize accepted a non-JSON value', got, 'TypeError'
    if not typed_eq(got, expected):
        return 'sanitize differs from json.loads(json.dumps(v))', got, expected
    again = JsonUtil.sanitize(got)
    if not typed_eq(again, got):
        return 'sanitize is not idempotent', again, got
    if containers(got, set()) & containers(v, set()):
        return 'sanitize result shares a mutable container with its argument', got, expected
    return None


class Opaque:
    pass


def replay(req):
    from file_builder.json_util import JsonUtil
    tier = req.get('tier', 'quick')
    n = 0
    vals = values(2 if tier == 'thorough' else 1, True) + [Opaque(), [Opaque()], {'a': Opaque()},
                                                          {(1, 2): 1}, {1, 2}]
    # non-JSON sequences, mappings and numbers (json.dumps refuses them; so must sanitize)
    import collections
    import decimal
    import fractions
    vals = [b'v2', bytearray(b'x'), range(2), [b'a'], {'k': range(1)}, frozenset([1]),
            collections.deque([1]), collections.UserList([1]), collections.UserDict({'a': 1}),
            decimal.Decimal('1.5'), fractions.Fraction(1, 2), 1j, iter([1]), (x for x in [1]),
            memoryview(b'ab'), {b'k': 1}] + vals
    for v in vals:
        n += 1
        bad = check_sanitize(JsonUtil, v)
        if bad:
            return {'reproduced': True, 'check': bad[0], 'input': repr(v), 'observed': repr(bad[1]),
                    'expected': repr(bad[2]), 'evaluations': n,
                    'how': 'JsonUtil.sanitize(%r)' % (v,)}
    for k in KEYS + [Opaque(), (1,)]:
        n += 1
        try:
            exp = list(json.loads(json.dumps({k: None})).keys())[0]
        except TypeError:
            exp = TypeError
        try:
            got = JsonUtil._key_to_str(k)
        except TypeError:
            got = TypeError
        except Exception as e:
            got = type(e)
        if got != exp or (got is not TypeError and type(got) is not str):
            return {'reproduced': True, 'check': '_key_to_str differs from json', 'input': repr(k),
                    'observed': repr(got), 'expected': repr(exp), 'evaluations': n,
                    'how': 'JsonUtil._key_to_str(%r)' % (k,)}
    san = []
    for v in values(2 if tier == 'thorough' else 1, False):
        try:
            san.append(json.loads(json.dumps(v)))
            if isinstance(v, tuple) or (isinstance(v, list) and any(isinstance(x, tuple)
                                                                      for x in v)):
                san.append(v)
        except (TypeError, ValueError):
            pass
    if tier != 'thorough':
        san = san[:140]
    # lists vs tuples below dicts (is_equal equates them at every depth)
    san = [{'k': (1,)}, {'k': [1]}, {'k': {'j': (1, 2)}}, {'k': {'j': [1, 2]}}, [{'k': ()}],
           [{'k': []}], {'k': (True,)}, {'k': [1.0]}] + san

    def has_tuple(v):
        if isinstance(v, tuple):
            return True
        if isinstance(v, list):
            return any(has_tuple(x) for x in v)
        if isinstance(v, dict):
            return any(has_tuple(x) for x in v.values())
        return False
    for a in san:
        n += 1
        if not JsonUtil.is_equal(a, a):
            return {'reproduced': True, 'check': 'is_equal not reflexive', 'input': repr(a),
                    'evaluations': n}
    hs = {}
    for a, b in itertools.product(san, repeat=2):
        n += 1
        e = JsonUtil.is_equal(a, b)
        r = ref_jeq(a, b)
        if e != r:
            return {'reproduced': True, 'check': 'is_equal differs from JSON equality',
                    'input': repr((a, b)), 'observed': e, 'expected': r, 'evaluations': n,
                    'how': 'JsonUtil.is_equal(%r, %r)' % (a, b)}
        if has_tuple(a) or has_tuple(b):
            continue
        ha, hb = JsonUtil.to_hashable(a), JsonUtil.to_hashable(b)
        h = (ha == hb)
        if h != r or (h and hash(ha) != hash(hb)):
            return {'reproduced': True, 'check': 'to_hashable equality differs from JSON equality',
                    'input': repr((a, b)), 'observed': repr((ha, hb)), 'expected': r,
                    'evaluations': n,
                    'how': 'JsonUtil.to_hashable(%r) == JsonUtil.to_hashable(%r)' % (a, b)}
    return {'reproduced': False, 'evaluations': n,
            'note': 'bounded differential search over the collision atom set found no failing input'}

"""Replay templates for the stateful classes and the FileBuilder API (run under /venv/bin/python).

Every template drives the real code in a scratch directory under /verif/replays/tmp/<pid> (removed
afterwards) and checks the property's observable."""
import itertools
import os
import shutil
import sys
import tempfile

HERE = os.path.dirname(os.path.abspath(__file__))
TMPROOT = os.path.join(os.path.dirname(HERE), 'replays', 'tmp')


def scratch():
    os.makedirs(TMPROOT, exist_ok=True)
    return tempfile.mkdtemp(prefix='r%d_' % os.getpid(), dir=TMPROOT)


def replay(req):
    func = req.get('func', '')
    if func.startswith('created_files.'):
        return created_files_search(req)
    return {'reproduced': False, 'note': 'no replay template for %s' % func}


# -------------------------------------------------------------------------------------------------
def created_files_search(req):
    """all sequences (length <= 6) of started/finished/error over 4 nested paths, respecting the
    call protocol of FileBuilder (_is_build_file_operation_cached: start, nested operations,
    then finish or fail); oracle: directories = ancestors of live files, files = finished files"""
    from file_builder.created_files import CreatedFiles
    root = os.path.abspath(os.sep)
    paths = [os.path.join(root, 'd', 'f1'), os.path.join(root, 'd', 'e', 'f2'),
             os.path.join(root, 'd', 'e', 'f3'), os.path.join(root, 'g')]
    universe = set()
    for p in paths:
        q = p
        while True:
            universe.add(q)
            nq = os.path.dirname(q)
            if nq == q:
                break
            q = nq
    n = 0
    maxlen = 6 if req.get('tier') != 'thorough' else 7
    # state: tuple per path: 0 untouched, 1 started, 2 finished, 3 failed

    def explore(seq, state):
        nonlocal n
        n += 1
        cf = CreatedFiles()
        try:
            for (op, i) in seq:
                getattr(cf, op)(paths[i])
        except Exception as e:
            return {'reproduced': True, 'check': 'CreatedFiles raised %s' % type(e).__name__,
                    'input': repr([(op, paths[i]) for op, i in seq]), 'observed': repr(e),
                    'how': 'cf = CreatedFiles(); ' + '; '.join(
                        'cf.%s(%r)' % (op, paths[i]) for op, i in seq)}
        live = [paths[i] for i, s_ in enumerate(state) if s_ in (1, 2)]
        fin = [paths[i] for i, s_ in enumerate(state) if s_ == 2]
        dirs = set()
        for p in live:
            q = os.path.dirname(p)
            while True:
                dirs.add(q)
                nq = os.path.dirname(q)
                if nq == q:
                    break
                q = nq
        for u in universe:
            exp_d, exp_f = u in dirs, u in fin
            got_d, got_f = cf.has_norm_cased_dir(u), cf.has_norm_cased_file(u)
            if exp_d != got_d or exp_f != got_f:
                return {'reproduced': True, 'check': 'overlay disagrees with the set of live files',
                        'input': repr([(op, paths[i]) for op, i in seq]),
                        'observed': 'has_dir(%s)=%s has_file=%s' % (u, got_d, got_f),
                        'expected': 'dir=%s file=%s' % (exp_d, exp_f)}
            exp_l = sorted(set(os.path.basename(x) for x in list(dirs) + fin
                               if os.path.dirname(x) == u and x != u))
            got_l = sorted(cf.list_dir(u))
            if exp_l != got_l:
                return {'reproduced': True, 'check': 'list_dir disagrees with the live files',
                        'input': repr([(op, paths[i]) for op, i in seq]),
                        'observed': repr(got_l), 'expected': repr(exp_l), 'dir': u}
        if len(seq) >= maxlen:
            return None
        for i in range(len(paths)):
            for op, frm, to in (('started_building_file', 0, 1), ('finished_building_file', 1, 2),
                                ('error_building_file', 1, 3)):
                if state[i] == frm:
                    st2 = list(state)
                    st2[i] = to
                    r = explore(seq + [(op, i)], tuple(st2))
                    if r:
                        return r
        return None
    r = explore([], (0, 0, 0, 0))
    if r:
        r['evaluations'] = n
        return r
    return {'reproduced': False, 'evaluations': n,
            'note': 'exhaustive over call sequences up to length %d on 4 nested paths' % maxlen}

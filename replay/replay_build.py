"""Replay templates for the stateful classes and the FileBuilder API (run under /venv/bin/python).

Every template drives the real code in a scratch directory under /verif/replays/tmp/<pid> (removed
afterwards) and checks the property's observable."""
import itertools
import os
import shutil
import sys
import tempfile

HERE = os.path.dirname(os.path.abspath(__file__))
TMPROOT = os.path.join(os.path.dirname(HERE), 'replays', 'tmp')


def scratch():
    os.makedirs(TMPROOT, exist_ok=True)
    return tempfile.mkdtemp(prefix='r%d_' % os.getpid(), dir=TMPROOT)


def replay(req):
    """the template written for the function first; if that does not reproduce, every template
    that bears on the property (the failing input may need a scenario of another template)"""
    r = _replay_specific(req)
    if r.get('reproduced') or r.get('templates_run') or not property_templates(req.get('property')):
        return r
    r2 = replay_all(req)
    r2['evaluations'] = (r2.get('evaluations') or 0) + (r.get('evaluations') or 0)
    return r2


def _replay_specific(req):
    func = req.get('func', '')
    if func.startswith('created_files.'):
        return created_files_search(req)
    if req.get('property') == 'C11' or '/region.' in req.get('label', ''):
        return aliasing_cases(req)
    if req.get('property') == 'C12' and func.split('#')[0] in (
            'file_builder.FileBuilder.clean', 'cache.Cache.write',
            'file_builder.FileBuilder._remove_empty_dirs', 'cache.Cache.created_files',
            'cache.Cache.created_dirs', 'cache.Cache.read_immutable'):
        return clean_cases(req)
    if req.get('property') == 'C03':
        r = foreign_cases(req)
        if r.get('reproduced'):
            return r
    if func.split('#')[0] in ('file_builder.FileBuilder._make_dirs',
                              'file_builder.FileBuilder._prepare_file_creation',
                              'file_builder.FileBuilder._dirs_to_make'):
        r = failed_setup_cases(req)
        if r.get('reproduced') or not (req.get('property') == 'C02' or
                                       'never-moves' in req.get('label', '')):
            return r
        r2 = rollback_cases(req)
        r2['evaluations'] = r2.get('evaluations', 0) + r.get('evaluations', 0)
        return r2
    if func.split('#')[0] in ('cache.Cache._operation_to_json', 'cache.Cache._simple_operation_to_json',
                              'cache.Cache._complex_operation_to_json'):
        return serialiser_cases(req)
    if func.split('#')[0] in ('cache.Cache.use_cached_operation', 'cache.Cache._assert_no_repeats',
                              'cache.Cache._use_cached_operation'):
        return reuse_registration_cases(req)
    if func.split('#')[0] in ('file_builder.FileBuilder._apply_cached_suboperations',
                              'file_builder.FileBuilder._unapply_cached_suboperations'):
        return failed_reuse_case(req)
    if func.split('#')[0] in ('file_builder.FileBuilder._roll_back', 'file_builder.FileBuilder._build',
                              'file_builder.FileBuilder._create_dirs', 'cache.Cache.write',
                              'cache.Cache.start_building_file') or req.get('property') == 'C02':
        return rollback_cases(req)
    if req.get('property') == 'C07' or func.split('#')[0] in (
            'file_builder.FileBuilder._sanitize_filename', 'cache.Cache.subbuild_key'):
        return identity_cases(req)
    if req.get('property') == 'C13':
        return comparison_cases(req)
    if req.get('property') == 'C06':
        return version_cases(req)
    if req.get('property') == 'C05':
        return effectiveness_cases(req)
    if func.startswith('simple_operation_executor.') and req.get('property') in ('C04', None):
        return view_cases(req)
    r = replay_extra(req)
    if r is not None:
        return r
    if req.get('property') == 'C01' or func.split('#')[0] in (
            'file_builder.FileBuilder._is_simple_operation_cached',):
        return transparency_cases(req)
    # no template written for this function: every template that bears on the property
    if property_templates(req.get('property')):
        return replay_all(req)
    return {'reproduced': False, 'note': 'no replay template for %s' % func}


# -------------------------------------------------------------------------------------------------
def created_files_search(req):
    """all sequences (length <= 6) of started/finished/error over 4 nested paths, respecting the
    call protocol of FileBuilder (_is_build_file_operation_cached: start, nested operations,
    then finish or fail); oracle: directories = ancestors of live files, files = finished files"""
    from file_builder.created_files import CreatedFiles
    root = os.path.abspath(os.sep)
    paths = [os.path.join(root, 'd', 'f1'), os.path.join(root, 'd', 'e', 'f2'),
             os.path.join(root, 'd', 'e', 'f3'), os.path.join(root, 'g')]
    universe = set()
    for p in paths:
        q = p
        while True:
            universe.add(q)
            nq = os.path.dirname(q)
            if nq == q:
                break
            q = nq
    n = 0
    maxlen = 6 if req.get('tier') != 'thorough' else 7
    # state: tuple per path: 0 untouched, 1 started, 2 finished, 3 failed

    def explore(seq, state):
        nonlocal n
        n += 1
        cf = CreatedFiles()
        try:
            for (op, i) in seq:
                getattr(cf, op)(paths[i])
        except Exception as e:
            return {'reproduced': True, 'check': 'CreatedFiles raised %s' % type(e).__name__,
                    'input': repr([(op, paths[i]) for op, i in seq]), 'observed': repr(e),
                    'how': 'cf = CreatedFiles(); ' + '; '.join(
                        'cf.%s(%r)' % (op, paths[i]) for op, i in seq)}
        live = [paths[i] for i, s_ in enumerate(state) if s_ in (1, 2)]
        fin = [paths[i] for i, s_ in enumerate(state) if s_ == 2]
        dirs = set()
        for p in live:
            q = os.path.dirname(p)
            while True:
                dirs.add(q)
                nq = os.path.dirname(q)
                if nq == q:
                    break
                q = nq
        for u in universe:
            exp_d, exp_f = u in dirs, u in fin
            got_d, got_f = cf.has_norm_cased_dir(u), cf.has_norm_cased_file(u)
            if exp_d != got_d or exp_f != got_f:
                return {'reproduced': True, 'check': 'overlay disagrees with the set of live files',
                        'input': repr([(op, paths[i]) for op, i in seq]),
                        'observed': 'has_dir(%s)=%s has_file=%s' % (u, got_d, got_f),
                        'expected': 'dir=%s file=%s' % (exp_d, exp_f)}
            exp_l = sorted(set(os.path.basename(x) for x in list(dirs) + fin
                               if os.path.dirname(x) == u and x != u))
            got_l = sorted(cf.list_dir(u))
            if exp_l != got_l:
                return {'reproduced': True, 'check': 'list_dir disagrees with the live files',
                        'input': repr([(op, paths[i]) for op, i in seq]),
                        'observed': repr(got_l), 'expected': repr(exp_l), 'dir': u}
        if len(seq) >= maxlen:
            return None
        for i in range(len(paths)):
            for op, frm, to in (('started_building_file', 0, 1), ('finished_building_file', 1, 2),
                                ('error_building_file', 1, 3)):
                if state[i] == frm:
                    st2 = list(state)
                    st2[i] = to
                    r = explore(seq + [(op, i)], tuple(st2))
                    if r:
                        return r
        return None
    r = explore([], (0, 0, 0, 0))
    if r:
        r['evaluations'] = n
        return r
    return {'reproduced': False, 'evaluations': n,
            'note': 'exhaustive over call sequences up to length %d on 4 nested paths' % maxlen}


# -------------------------------------------------------------------------------------------------
# shared helpers for API-level templates
import gzip
import json
import stat as _stat


def snapshot(root):
    out = {}
    for dirpath, dirnames, filenames in os.walk(root):
        out[dirpath] = ('dir', os.lstat(dirpath).st_mtime_ns)
        for f in filenames:
            p = os.path.join(dirpath, f)
            st = os.lstat(p)
            with open(p, 'rb') as fh:
                out[p] = ('file', fh.read(), st.st_mtime_ns, st.st_ino)
    return out


def write(path, text):
    os.makedirs(os.path.dirname(path), exist_ok=True)
    with open(path, 'w') as f:
        f.write(text)


def tmp_listing():
    d = tempfile.gettempdir()
    return sorted(x for x in os.listdir(d) if x.startswith('file_builder_'))


def basic_build(builder, root, log):
    def mk(b, filename, text):
        log.append(('mk', filename))
        write(filename, text)
        return len(text)

    def sub(b, n):
        log.append(('sub', n))
        b.build_file(os.path.join(root, 'out', 'd', 'o%d.txt' % n), 'mk', mk, 'x' * n)
        return [n]
    log.append(('root',))
    return [builder.subbuild('sub', sub, 1), builder.subbuild('sub', sub, 2)]


def replay_extra(req):
    func = req.get('func', '')
    short = func.split('#')[0]
    if short in ('file_builder.FileBuilder.build_versioned', 'file_builder.FileBuilder.clean',
                 'cache.Cache.read_immutable', 'file_builder.FileBuilder.build',
                 'file_builder.FileBuilder._sanitize_versions'):
        return refusal_cases(req)
    if func.endswith('#finished') or short in ('file_builder.FileBuilder._assert_not_finished',
                                               'file_builder.FileBuilder._append_suboperation',
                                               'file_builder.FileBuilder._exec_simple_operation'):
        return fence_cases(req)
    if req.get('property') == 'C17':
        return fence_cases(req)
    if 'claimed-before' in req.get('label', ''):
        return race_cases(req)
    return None


def refusal_cases(req):
    """C15: every refused build/clean leaves the tree bit-identical, no temp dir, no callback"""
    from file_builder import FileBuilder
    root = scratch()
    n = 0
    try:
        cache = os.path.join(root, 'c', 'cache.gz')
        log = []
        FileBuilder.build(cache, 'name', basic_build, root, log)
        write(os.path.join(root, 'foreign.txt'), 'foreign')
        good = open(cache, 'rb').read()
        data = json.loads(gzip.decompress(good))
        other = dict(data, software='someone else')
        newer = dict(data, cacheFileVersion=[99])
        corruptions = {
            'truncated-1': good[:1], 'truncated-half': good[:len(good) // 2],
            'truncated-last': good[:-1], 'empty': b'', 'not-gzip': b'hello world',
            'bitflip': good[:20] + bytes([good[20] ^ 0xff]) + good[21:],
            'gzip-not-json': gzip.compress(b'{not json'),
            'json-list': gzip.compress(b'[1,2]'), 'json-null': gzip.compress(b'null'),
            'other-software': gzip.compress(json.dumps(other).encode()),
            'newer-format': gzip.compress(json.dumps(newer).encode()),
        }
        calls = []
        if 'json-value-is' in req.get('label', ''):
            # valid gzip + JSON written by this software, but a field of the wrong shape (only for
            # the obligations about the shape of what read_immutable hands on)
            def shaped(**kw):
                return gzip.compress(json.dumps(dict(data, **kw)).encode())
            calls.append(('wrong-shape createdDirs=[null]/clean', shaped(createdDirs=[None]),
                          lambda lg: FileBuilder.clean(cache, 'name')))
            calls.append(('wrong-shape funcVersions=[]', shaped(funcVersions=[]),
                          lambda lg: FileBuilder.build(cache, 'name', basic_build, root, lg)))
            calls.append(('wrong-shape createdDirs=[5]', shaped(createdDirs=[5]),
                          lambda lg: FileBuilder.build(cache, 'name', basic_build, root, lg)))
        for cname, blob in corruptions.items():
            calls.append((cname, blob, lambda lg: FileBuilder.build(cache, 'name', basic_build,
                                                                    root, lg)))
            calls.append((cname + '/clean', blob, lambda lg: FileBuilder.clean(cache, 'name')))
        calls.append(('wrong-name', good, lambda lg: FileBuilder.build(cache, 'other',
                                                                       basic_build, root, lg)))
        calls.append(('wrong-name/clean', good, lambda lg: FileBuilder.clean(cache, 'other')))
        calls.append(('name-not-str', good, lambda lg: FileBuilder.build(cache, 5, basic_build,
                                                                         root, lg)))
        calls.append(('func-not-callable', good, lambda lg: FileBuilder.build(cache, 'name', 7)))
        calls.append(('path-not-pathlike', good, lambda lg: FileBuilder.build(3.5, 'name',
                                                                              basic_build, root,
                                                                              lg)))
        calls.append(('versions-not-dict', good, lambda lg: FileBuilder.build_versioned(
            cache, 'name', [1], basic_build, root, lg)))
        calls.append(('versions-not-json', good, lambda lg: FileBuilder.build_versioned(
            cache, 'name', {'a': object()}, basic_build, root, lg)))
        calls.append(('clean-name-not-str', good, lambda lg: FileBuilder.clean(cache, 5)))
        calls.append(('clean-empty-name', good, lambda lg: FileBuilder.clean(cache, '')))
        newdir_cache = os.path.join(root, 'fresh', 'deep', 'cache.gz')
        calls.append(('func-not-callable-new-cache-dir', None, lambda lg: FileBuilder.build(
            newdir_cache, 'name', 7)))
        calls.append(('name-not-str-new-cache-dir', None, lambda lg: FileBuilder.build(
            newdir_cache, None, basic_build, root, lg)))
        calls.append(('versions-not-json-new-cache-dir', None,
                      lambda lg: FileBuilder.build_versioned(newdir_cache, 'name', {'a': {1, 2}},
                                                             basic_build, root, lg)))
        calls.append(('cache-is-dir', None, lambda lg: FileBuilder.build(
            os.path.join(root, 'out'), 'name', basic_build, root, lg)))
        calls.append(('cache-is-dir/clean', None, lambda lg: FileBuilder.clean(
            os.path.join(root, 'out'), 'name')))
        # the same process read the intact cache file a moment ago (refused wrong-name call); the
        # file is then corrupted in place, same size, same mtime: it must still be refused (what
        # is on disk counts, not what an earlier call saw)
        def corrupt_in_place():
            with open(cache, 'wb') as f:
                f.write(good)
            os.utime(cache, ns=(10 ** 18, 10 ** 18))
            try:
                FileBuilder.build(cache, 'other', basic_build, root, [])
            except Exception:
                pass
            try:
                FileBuilder.clean(cache, 'other')
            except Exception:
                pass
            with open(cache, 'wb') as f:
                f.write(corruptions['bitflip'])
            os.utime(cache, ns=(10 ** 18, 10 ** 18))
        calls.append(('bitflip-same-size-and-mtime-after-an-earlier-read', corrupt_in_place,
                      lambda lg: FileBuilder.build(cache, 'name', basic_build, root, lg)))
        calls.append(('bitflip-same-size-and-mtime-after-an-earlier-read/clean', corrupt_in_place,
                      lambda lg: FileBuilder.clean(cache, 'name')))
        for (cname, blob, call) in calls:
            n += 1
            if callable(blob):
                blob()
            elif blob is not None:
                with open(cache, 'wb') as f:
                    f.write(blob)
            before, tmp_before = snapshot(root), tmp_listing()
            lg = []
            try:
                call(lg)
                raised = None
            except Exception as e:
                raised = type(e).__name__
            after, tmp_after = snapshot(root), tmp_listing()
            problem = None
            if raised is None:
                problem = 'call was not refused'
            elif before != after:
                diff = sorted(set(before) ^ set(after)) or [k for k in before
                                                             if before[k] != after.get(k)]
                problem = 'tree changed: %r' % diff[:3]
            elif tmp_before != tmp_after:
                problem = 'temporary directory left behind'
            elif lg:
                problem = 'user function was called: %r' % lg[:2]
            if problem:
                return {'reproduced': True, 'check': 'refused call has side effects (%s)' % cname,
                        'observed': problem, 'raised': raised, 'evaluations': n, 'input': cname}
        return {'reproduced': False, 'evaluations': n,
                'note': '%d refusal cases left the tree bit-identical' % n}
    finally:
        shutil.rmtree(root, ignore_errors=True)


def race_cases(req):
    """C08, two threads issuing build_file for the same path, with ONE forced schedule (the
    duplicate passes the unlocked early check, then the other thread runs its whole call, then the
    duplicate continues): the duplicate must be refused without disturbing the winner's output.
    The schedule is forced by a pass-through wrapper around os.path.isdir; the library is
    untouched."""
    import threading
    from file_builder import FileBuilder
    root = scratch()
    real_isdir = os.path.isdir
    try:
        target = os.path.join(root, 'out.txt')
        cache = os.path.join(root, 'cache.gz')
        b_passed, a_done = threading.Event(), threading.Event()
        calls, results, b_ident, observed = {'A': 0, 'B': 0}, {}, [], {}

        def isdir(path):
            if b_ident and threading.get_ident() == b_ident[0] and path == target \
                    and not b_passed.is_set():
                b_passed.set()
                a_done.wait(20)
            return real_isdir(path)

        def fa(b, filename):
            calls['A'] += 1
            write(filename, 'written by A')
            return 'A'

        def fb(b, filename):
            calls['B'] += 1
            write(filename, 'written by B')
            return 'B'

        def ta(b):
            b_passed.wait(20)
            try:
                results['A'] = ('returned', b.build_file(target, 'make', fa))
            except Exception as e:
                results['A'] = ('raised', type(e).__name__)
            a_done.set()

        def tb(b):
            b_ident.append(threading.get_ident())
            try:
                results['B'] = ('returned', b.build_file(target, 'make', fb))
            except Exception as e:
                results['B'] = ('raised', type(e).__name__)

        def build(b):
            t1, t2 = threading.Thread(target=ta, args=(b,)), threading.Thread(target=tb, args=(b,))
            t1.start()
            t2.start()
            t1.join()
            t2.join()
            observed['is_file'] = b.is_file(target)
            observed['on_disk'] = os.path.isfile(target) and open(target).read()
        os.path.isdir = isdir
        try:
            FileBuilder.build(cache, 'n', build)
        finally:
            os.path.isdir = real_isdir
        ok = (results.get('A') == ('returned', 'A') and results.get('B') == ('raised', 'RuntimeError')
              and calls == {'A': 1, 'B': 0} and observed.get('on_disk') == 'written by A'
              and observed.get('is_file') is True and os.path.isfile(target))
        if not ok:
            return {'reproduced': True,
                    'check': 'a duplicate build_file that loses the race disturbs the output of '
                             'the call that won',
                    'input': 'threads A and B call build_file(out.txt); B passes the early '
                             'duplicate check, A runs its whole call, B continues',
                    'observed': {'A': results.get('A'), 'B': results.get('B'), 'calls': calls,
                                 'after': observed, 'on_disk_after_build': os.path.isfile(target)},
                    'evaluations': 1}
        return {'reproduced': False, 'evaluations': 1}
    finally:
        os.path.isdir = real_isdir
        shutil.rmtree(root, ignore_errors=True)


def fence_cases(req):
    """C17: every method of a builder whose function has finished raises RuntimeError, no effect"""
    from file_builder import FileBuilder
    root = scratch()
    n = 0
    try:
        cache = os.path.join(root, 'cache.gz')
        write(os.path.join(root, 'in.txt'), 'input')
        held = {}

        def mkfile(b, filename):
            held['file'] = b
            write(filename, 'x')

        def sub(b):
            held['sub'] = b
            return 1

        def sub_raises(b):
            held['sub_raised'] = b
            raise ValueError('x')

        def sub_args(b, *a, **k):
            held['sub_with_args'] = b
            return 2

        def mkfile_args(b, filename, *a, **k):
            held['file_with_args'] = b
            write(filename, 'y')

        def rootf(b):
            held['root'] = b
            b.subbuild('sub', sub)
            b.build_file(os.path.join(root, 'o.txt'), 'mk', mkfile)
            # records with non-string arguments of every JSON kind (the fence builds its message
            # from the record)
            b.subbuild('sub_args', sub_args, 7, [1, 'a'], {'k': None}, 1.5, True, None, key=[2])
            b.build_file(os.path.join(root, 'o2.txt'), 'mk_args', mkfile_args, 7, [1], None,
                         key={'a': 1})
            try:
                b.subbuild('sub_raises', sub_raises)
            except ValueError:
                pass
        FileBuilder.build(cache, 'n', rootf)

        def root_interrupted(b):
            held['root_interrupted'] = b
            raise KeyboardInterrupt()
        try:
            FileBuilder.build(os.path.join(root, 'cache2.gz'), 'n', root_interrupted)
        except KeyboardInterrupt:
            pass
        logs = []

        def cb(b, *a):
            logs.append('called')
            return 1
        target = os.path.join(root, 'new', 'x.txt')
        methods = {
            'build_file': lambda b: b.build_file(target, 'cb', cb),
            'build_file_with_comparison': lambda b: b.build_file_with_comparison(
                target, __import__('file_builder').FileComparison.HASH, 'cb', cb),
            'subbuild': lambda b: b.subbuild('cb', cb),
            'read_text': lambda b: b.read_text(os.path.join(root, 'in.txt')),
            'read_binary': lambda b: b.read_binary(os.path.join(root, 'in.txt')),
            'declare_read': lambda b: b.declare_read(os.path.join(root, 'in.txt')),
            'list_dir': lambda b: b.list_dir(root),
            'walk': lambda b: b.walk(root),
            'is_file': lambda b: b.is_file(os.path.join(root, 'in.txt')),
            'is_dir': lambda b: b.is_dir(root),
            'exists': lambda b: b.exists(root),
            'get_size': lambda b: b.get_size(os.path.join(root, 'in.txt')),
            # paths with a constant answer (the build's own cache file) are fenced like any other
            'is_file(cache file)': lambda b: b.is_file(cache),
            'is_dir(cache file)': lambda b: b.is_dir(cache),
            'exists(cache file)': lambda b: b.exists(cache),
            'is_file(pathlib cache file)': lambda b: b.is_file(__import__('pathlib').Path(cache)),
        }
        for kind, b in sorted(held.items()):
            for mname, call in sorted(methods.items()):
                n += 1
                before = snapshot(root)
                nsub = len(b._operation.suboperations) if b._operation is not None else None
                try:
                    call(b)
                    raised = None
                except Exception as e:
                    raised = type(e).__name__
                after = snapshot(root)
                nsub2 = len(b._operation.suboperations) if b._operation is not None else None
                problem = None
                if raised != 'RuntimeError':
                    problem = 'raised %s instead of RuntimeError' % raised
                elif before != after:
                    problem = 'tree changed'
                elif logs:
                    problem = 'user function was called'
                elif nsub != nsub2:
                    problem = 'an operation was attached to a closed record'
                if problem:
                    return {'reproduced': True, 'input': '%s builder, %s' % (kind, mname),
                            'check': 'finished builder is not fenced off', 'observed': problem,
                            'evaluations': n}
        return {'reproduced': False, 'evaluations': n,
                'note': '%d method x builder-kind cases raised RuntimeError without effect' % n}
    finally:
        shutil.rmtree(root, ignore_errors=True)


# -------------------------------------------------------------------------------------------------
def aliasing_cases(req):
    """C11: mutate every value that crossed the API and rebuild unchanged; return values and the
    invocation log must not depend on the mutations"""
    from file_builder import FileBuilder
    root = scratch()
    n = 0
    try:
        os.makedirs(os.path.join(root, 'in', 'sub'))
        write(os.path.join(root, 'in', 'a.txt'), 'a')
        write(os.path.join(root, 'in', 'sub', 'b.txt'), 'b')

        def program(mutate):
            log = []

            def lister(b):
                log.append('lister')
                l = b.list_dir(os.path.join(root, 'in'))
                w = b.walk(os.path.join(root, 'in'))
                if mutate:
                    l.pop()
                    w[0][1].clear()
                    w.append('junk')
                return 'listed'

            def producer(b, arg):
                log.append('producer')
                if mutate:
                    arg.append('mutated-arg')
                return [1, {'k': [2]}]

            def mk(b, filename, arg):
                log.append('mk')
                if mutate:
                    arg['x'].append(9)
                write(filename, 'out')
                return {'v': [3]}

            def dict_arg(b, d, l):
                # a dict passed positionally, mutated by the callee
                log.append('dict_arg')
                if mutate:
                    d['added'] = 1
                    d['inner'].append(2)
                    l.append(3)
                return 'd'

            def twice(b, x, y):
                # the caller passed the same list object twice: the callee gets two values
                log.append('twice')
                if mutate:
                    x.append(5)
                return [len(x) - (1 if mutate else 0), len(y)]

            def pair(b):
                log.append('pair')
                inner = [0]
                return [inner, inner, {'a': inner}]

            def rootf(b):
                r1 = b.subbuild('producer', producer, ['a'])
                r2 = b.build_file(os.path.join(root, 'out.txt'), 'mk', mk, {'x': [1]})
                r3 = b.subbuild('lister', lister)
                snapshot_ = json.loads(json.dumps([r1, r2, r3]))
                if mutate:
                    r1.append(9)
                    r1[1]['k'].append(9)
                    r2['v'].append(9)
                snapshot_.append(b.subbuild('dict_arg', dict_arg, {'inner': [1]}, [0]))
                shared = [1]
                snapshot_.append(b.subbuild('twice', twice, shared, shared))
                r4 = b.subbuild('pair', pair)
                if mutate:
                    r4[0].append(7)
                    snapshot_.append(json.loads(json.dumps([r4[0][:-1], r4[1], r4[2]])))
                else:
                    snapshot_.append(json.loads(json.dumps(r4)))
                return snapshot_
            return rootf, log
        results = []
        for variant in ('mutating', 'reference'):
            cache = os.path.join(root, 'cache_%s.gz' % variant)
            runs = []
            for i in range(3):
                n += 1
                rootf, log = program(variant == 'mutating')
                val = FileBuilder.build(cache, 'n', rootf)
                runs.append((val, list(log)))
            results.append(runs)
        mut, ref = results
        for i in range(3):
            if mut[i][0] != ref[i][0]:
                return {'reproduced': True, 'check': 'a mutated value leaked into a later result',
                        'input': 'build #%d of the mutating program' % (i + 1),
                        'observed': repr(mut[i][0]), 'expected': repr(ref[i][0]), 'evaluations': n}
            if mut[i][1] != ref[i][1]:
                return {'reproduced': True,
                        'check': 'a mutated value changed what is re-executed',
                        'input': 'build #%d of the mutating program' % (i + 1),
                        'observed': repr(mut[i][1]), 'expected': repr(ref[i][1]), 'evaluations': n}
        return {'reproduced': False, 'evaluations': n,
                'note': 'three unchanged rebuilds of a program that mutates every value it '
                        'receives behave like the non-mutating twin'}
    finally:
        shutil.rmtree(root, ignore_errors=True)


# -------------------------------------------------------------------------------------------------
def reuse_registration_cases(req):
    """C08/C01, Cache.use_cached_operation on the real class (round 4): every tree of <= 4 complex
    records (build-file / subbuild, each raised or not, set-up failed or not) with simple
    operations interleaved, in a fresh mutable cache and in caches where one key of the tree is
    already claimed or finished.  Expected: a taken key => RuntimeError and the cache is exactly as
    before; otherwise every non-setup-failed record is registered (also raised ones) and nothing
    else changes"""
    import itertools
    from file_builder.cache import Cache
    from file_builder.operation import BuildFileOperation, SubbuildOperation, SimpleOperation
    from file_builder.file_comparison import FileComparison
    n = 0

    def simple():
        return SimpleOperation('is_file', ['/x/q'], False, None, True)

    def mk(shape, flags, counter):
        """shape: nested tuples ('b'|'s', children...)"""
        kind, kids = shape[0], shape[1:]
        i = counter[0]
        counter[0] += 1
        raised, sf = flags[i]
        subs = []
        for j, k in enumerate(kids):
            subs.append(simple())                 # a simple operation before every child
            subs.append(mk(k, flags, counter))
        subs.append(simple())
        if kind == 'b':
            return BuildFileOperation('/x/f%d' % i, FileComparison.METADATA, 'fn', [i], {}, subs,
                                      None, 'r', raised, sf, True)
        return SubbuildOperation('sb', [i], {}, subs, None, raised, sf, True)

    def walk(op, out):
        if isinstance(op, (BuildFileOperation, SubbuildOperation)):
            out.append(op)
            for s_ in op.suboperations:
                walk(s_, out)
        return out

    def state(c):
        return (dict(c._files), dict(c._norm_cased_files), dict(c._subbuilds))

    shapes = [('s',), ('b',), ('s', ('b',)), ('b', ('b',)), ('s', ('b',), ('b',)),
              ('s', ('s', ('b',))), ('s', ('b', ('s',))), ('b', ('s', ('b',)), ('b',)),
              ('s', ('b',), ('s', ('b',)))]

    def size(sh):
        return 1 + sum(size(k) for k in sh[1:])
    for sh in shapes:
        m = size(sh)
        for flags in itertools.product([(False, False), (True, False), (True, True)], repeat=m):
            tree = mk(sh, flags, [0])
            recs = walk(tree, [])
            live = [r for r in recs if not r.setup_failed]
            for taken in [None] + live:
                for how in ('claimed', 'finished'):
                    if taken is None and how == 'finished':
                        continue
                    n += 1
                    c = Cache.create_empty_mutable('n', {})
                    if taken is not None:
                        if isinstance(taken, BuildFileOperation):
                            c.start_building_file(taken.filename)
                            if how == 'finished':
                                c.finish_building_file(BuildFileOperation(
                                    taken.filename, FileComparison.METADATA, 'other', [], {}, [],
                                    None, 'r', False, False, True))
                        else:
                            key = Cache.subbuild_key(taken)
                            c.start_subbuild(key, taken)
                            if how == 'finished':
                                c.finish_subbuild(key, SubbuildOperation(
                                    'sb', taken.args, {}, [], 7, False, False, True))
                    before = state(c)
                    try:
                        c.use_cached_operation(tree)
                        err = None
                    except RuntimeError as e:
                        err = e
                    desc = 'use_cached_operation(tree %r flags %r) with %s %s' % (
                        sh, flags, 'nothing taken' if taken is None else
                        ('%s key of record #%d' % (how, recs.index(taken))), '')
                    if taken is not None:
                        if err is None or state(c) != before:
                            return {'reproduced': True, 'input': desc, 'evaluations': n,
                                    'check': 'a key of the reused subtree was already taken: '
                                             'RuntimeError and the cache unchanged',
                                    'observed': {'raised': repr(err),
                                                 'cache_changed': state(c) != before}}
                        continue
                    missing = []
                    for r in live:
                        if isinstance(r, BuildFileOperation):
                            ok = c.has_norm_cased_file(r.filename) and c.get_file(r.filename) is r
                        else:
                            ok = c.get_subbuild(Cache.subbuild_key(r)) is r
                        if not ok:
                            missing.append(recs.index(r))
                    extra = (len(c._files) != len([r for r in live
                                                   if isinstance(r, BuildFileOperation)])
                             or len(c._subbuilds) != len([r for r in live if isinstance(
                                 r, SubbuildOperation)]))
                    if err is not None or missing or extra:
                        return {'reproduced': True, 'input': desc, 'evaluations': n,
                                'check': 'every non-setup-failed record of the reused subtree is '
                                         'registered, nothing else',
                                'observed': {'raised': repr(err), 'records_not_registered': missing,
                                             'other_entries': extra}}
    return {'reproduced': False, 'evaluations': n}


# -------------------------------------------------------------------------------------------------
def serialiser_cases(req):
    """C16, the hand-written (de)serialisers on the real class (round 4): records of the three
    classes with return values / arguments from a pool that includes every falsy JSON value,
    failure flags and exception names; the record written by `_operation_to_json`, passed through
    json text and read back by `_operation_from_json` is compared field by field (exact types)
    with the original.  Only the round trip is judged -- the statement of C16 -- not the layout
    of the JSON: a change of format that both halves agree on is not a failing input"""
    import itertools
    import json
    from file_builder.cache import Cache
    from file_builder.operation import BuildFileOperation, SubbuildOperation, SimpleOperation
    from file_builder.file_comparison import FileComparison
    pool = [None, 0, False, '', [], {}, 'x', 1.5, 10 ** 30, 'na\u00efve \u2603', [0, [None]],
            {'k': False}]
    c = Cache.create_empty_mutable('n', {})
    n = 0

    def bad(what, op_desc, observed):
        return {'reproduced': True, 'input': op_desc, 'check': what, 'observed': observed,
                'evaluations': n}

    def same(a, b):
        return type(a) is type(b) and a == b

    for rv in pool:
        for exc in (None, 'FileNotFoundError', 'IsADirectoryError'):
            n += 1
            op = SimpleOperation('read_text', ['/x/a', rv], rv, exc, True)
            j = c._operation_to_json(op)
            desc = 'SimpleOperation(read_text, args=%r, return_value=%r, exception=%r)' % (
                op.args, rv, exc)
            back = Cache._operation_from_json(json.loads(json.dumps(j)), {}, {})
            if not (isinstance(back, SimpleOperation) and same(back.args, op.args)
                    and same(back.return_value, rv) and back.name == 'read_text'
                    and back.exception_type_str == exc and back.is_finished):
                return bad('a simple record survives write/read', desc, vars(back))
    for rv, kw in itertools.product(pool, [{}, {'z': 0, 'a': None}]):
        for raised, sf in ((False, False), (True, False), (True, True)):
            for kind in ('b', 's'):
                n += 1
                child = SimpleOperation('is_file', ['/x/q'], False, None, True)
                if kind == 'b':
                    op = BuildFileOperation('/x/d \u00e9/.f', FileComparison.HASH, 'fn', [rv], kw,
                                            [child], rv, rv if rv is not None else 'r', raised, sf,
                                            True)
                else:
                    op = SubbuildOperation('fn', [rv], kw, [child], rv, raised, sf, True)
                j = c._operation_to_json(op)
                desc = '%s(args=%r, kwargs=%r, return_value=%r, raised=%r, setup_failed=%r)' % (
                    type(op).__name__, op.args, kw, rv, raised, sf)
                files, subs = {}, {}
                back = Cache._operation_from_json(json.loads(json.dumps(j)), files, subs)
                ok = (type(back) is type(op) and same(back.args, op.args)
                      and same(back.kwargs, kw) and back.func_name == 'fn'
                      and same(back.return_value, rv) and back.raised == raised
                      and back.setup_failed == sf and back.is_finished
                      and len(back.suboperations) == 1
                      and isinstance(back.suboperations[0], SimpleOperation))
                if ok and kind == 'b':
                    ok = (back.filename == op.filename
                          and back.file_comparison is FileComparison.HASH
                          and same(back.file_comparison_result, op.file_comparison_result)
                          and ((op.filename in files) == (not sf)))
                if ok and kind == 's':
                    ok = (len(subs) == 1) == (not sf)
                if not ok:
                    return bad('a build-file / subbuild record survives write/read', desc,
                               {k: repr(v) for k, v in vars(back).items()})
    return {'reproduced': False, 'evaluations': n}


# -------------------------------------------------------------------------------------------------
def failed_setup_cases(req):
    """C10/C14: a build_file whose parent directories cannot all be created (over-long component,
    a regular file in the way) fails; when the caller catches the error nothing of it remains"""
    from file_builder import FileBuilder
    root = scratch()
    n = 0
    try:
        write(os.path.join(root, 'plain.txt'), 'plain')
        targets = {
            'over-long-component': os.path.join(root, 'T', 'a', 'b' * 300, 'c', 'o.txt'),
            'foreign-file-in-the-way': os.path.join(root, 'U', 'x', '..', '..', 'plain.txt', 'sub',
                                                    'o.txt'),
        }
        for name, target in targets.items():
            n += 1
            seen = {}

            def mk(b, filename):
                write(filename, 'x')

            def rootf(b):
                try:
                    b.build_file(target, 'mk', mk)
                    seen['raised'] = None
                except OSError as e:
                    seen['raised'] = type(e).__name__
                seen['virtual'] = [d for d in (os.path.join(root, 'T'), os.path.join(root, 'T', 'a'),
                                               os.path.join(root, 'U'))
                                   if b.exists(d)]
                return 1
            cache = os.path.join(root, 'cache_%s.gz' % name[:4])
            before = set(snapshot(root))
            FileBuilder.build(cache, 'n', rootf)
            after = set(snapshot(root)) - {cache}
            if seen.get('raised') is None:
                continue
            leaked = sorted(after - before)
            if leaked or seen['virtual']:
                return {'reproduced': True, 'input': 'build_file(%r) caught by the caller' % target,
                        'check': 'a failed build_file leaves directories behind',
                        'observed': {'on_disk_after_commit': leaked,
                                     'visible_in_the_virtual_view': seen['virtual'],
                                     'raised': seen['raised']}, 'evaluations': n}
        return {'reproduced': False, 'evaluations': n}
    finally:
        shutil.rmtree(root, ignore_errors=True)


# -------------------------------------------------------------------------------------------------
def view_cases(req):
    """C04: mutual consistency of the virtual view at several points of a second build over a tree
    with stale outputs, stale directories (empty / holding foreign content) and new outputs"""
    from file_builder import FileBuilder
    root = scratch()
    n = 0
    try:
        cache = os.path.join(root, 'cache.gz')
        write(os.path.join(root, 'in', 'a.txt'), 'a')

        def mk(b, filename, text='x'):
            write(filename, text)

        def first(b):
            b.build_file(os.path.join(root, 'd1', 'o1.txt'), 'mk', mk)
            b.build_file(os.path.join(root, 'd2', 'sub', 'o2.txt'), 'mk', mk)
            b.build_file(os.path.join(root, 'd3', 'o3.txt'), 'mk', mk)
        FileBuilder.build(cache, 'n', first)
        write(os.path.join(root, 'd2', 'foreign.txt'), 'foreign')     # stale dir with foreign file
        problems = []

        def probe(b, label):
            nonlocal n
            paths = [root, os.path.join(root, 'in'), os.path.join(root, 'in', 'a.txt'),
                     os.path.join(root, 'd1'), os.path.join(root, 'd1', 'o1.txt'),
                     os.path.join(root, 'd2'), os.path.join(root, 'd2', 'sub'),
                     os.path.join(root, 'd2', 'sub', 'o2.txt'),
                     os.path.join(root, 'd2', 'foreign.txt'), os.path.join(root, 'd3'),
                     os.path.join(root, 'd3', 'o3.txt'), os.path.join(root, 'new'),
                     os.path.join(root, 'new', 'n.txt'), os.path.join(root, 'nope'), cache,
                     # paths below a regular file "do not exist"
                     os.path.join(root, 'in', 'a.txt', 'below'),
                     os.path.join(root, 'd2', 'foreign.txt', 'x', 'y')]
            for p in paths:
                n += 1
                f, d, e = b.is_file(p), b.is_dir(p), b.exists(p)
                if e != (f or d) or (f and d):
                    problems.append((label, p, 'exists=%s is_file=%s is_dir=%s' % (e, f, d)))
                try:
                    fh = b.read_binary(p)
                    fh.close()
                    r = 'ok'
                except IsADirectoryError:
                    r = 'IsADirectoryError'
                except FileNotFoundError:
                    r = 'FileNotFoundError'
                except OSError as e_:
                    r = type(e_).__name__
                exp = 'ok' if f else ('IsADirectoryError' if d else 'FileNotFoundError')
                if r != exp:
                    problems.append((label, p, 'read gave %s but is_file=%s is_dir=%s' % (r, f, d)))
                try:
                    b.get_size(p)
                    r = 'ok'
                except FileNotFoundError:
                    r = 'FileNotFoundError'
                if (r == 'ok') != e:
                    problems.append((label, p, 'get_size gave %s but exists=%s' % (r, e)))
                if e and p != root and not b.is_dir(os.path.dirname(p)):
                    problems.append((label, p, 'exists but its parent is not a directory'))
                try:
                    l = b.list_dir(p)
                    r = 'ok'
                except NotADirectoryError:
                    r = 'NotADirectoryError'
                except FileNotFoundError:
                    r = 'FileNotFoundError'
                exp = 'ok' if d else ('NotADirectoryError' if f else 'FileNotFoundError')
                if r != exp:
                    problems.append((label, p, 'list_dir gave %s but is_file=%s is_dir=%s'
                                     % (r, f, d)))
                if r == 'ok':
                    for name in l:
                        if not b.exists(os.path.join(p, name)):
                            problems.append((label, p, 'list_dir lists %r which does not exist'
                                             % name))

        def second(b):
            probe(b, 'start of second build')
            b.build_file(os.path.join(root, 'd3', 'o3.txt'), 'mk', mk)       # reused
            b.build_file(os.path.join(root, 'new', 'n.txt'), 'mk', mk)

            def failing(b2, filename):
                write(filename, 'partial')
                probe(b2, 'inside a failing build_file')
                raise ValueError('x')
            try:
                b.build_file(os.path.join(root, 'fail', 'deep', 'f.txt'), 'failing', failing)
            except ValueError:
                pass
            probe(b, 'after a failed build_file')
        FileBuilder.build(cache, 'n', second)
        if problems:
            return {'reproduced': True, 'check': 'virtual view is inconsistent',
                    'input': 'second build over stale outputs/directories; point: %s; path: %s'
                             % (problems[0][0], os.path.relpath(problems[0][1], root)),
                    'observed': problems[0][2], 'more': [list(map(str, p)) for p in problems[1:4]],
                    'evaluations': n}
        return {'reproduced': False, 'evaluations': n}
    finally:
        shutil.rmtree(root, ignore_errors=True)


# -------------------------------------------------------------------------------------------------
def effectiveness_cases(req):
    """C05: unchanged rebuilds re-execute nothing (except calls that raised out of the build);
    includes a caught failure that queried its own freshly created directory"""
    from file_builder import FileBuilder
    root = scratch()
    n = 0
    try:
        write(os.path.join(root, 'in', 'a.txt'), 'a')
        write(os.path.join(root, 'other', 'unobserved.txt'), 'u')
        log = []

        def failing(b, filename):
            log.append('failing')
            b.list_dir(os.path.dirname(filename))
            b.is_dir(os.path.dirname(filename))
            raise ValueError('boom')

        def catcher(b):
            log.append('catcher')
            try:
                b.build_file(os.path.join(root, 'nd', 'x.txt'), 'failing', failing)
            except ValueError:
                pass
            return 'caught'

        def mk(b, filename):
            log.append('mk')
            with b.read_text(os.path.join(root, 'in', 'a.txt')) as f:
                data = f.read()
            write(filename, data)
            return len(data)

        def lister(b):
            log.append('lister')
            return [b.list_dir(os.path.join(root, 'in')), b.exists(os.path.join(root, 'zzz')),
                    b.walk(os.path.join(root, 'in'))]

        def mk_probe(b, filename):
            # a function that looks at its own (build-created) output directory before writing
            log.append('mk_probe')
            d = os.path.dirname(filename)
            seen = [b.is_dir(d), b.list_dir(d), b.exists(filename), b.walk(os.path.dirname(d))]
            write(filename, repr(seen))
            return seen

        def rootf(b):
            return [b.subbuild('catcher', catcher),
                    b.build_file(os.path.join(root, 'out', 'o.txt'), 'mk', mk),
                    b.subbuild('lister', lister),
                    b.build_file(os.path.join(root, 'fresh', 'deep', 'p.txt'), 'mk_probe',
                                 mk_probe)]
        cache = os.path.join(root, 'cache.gz')
        first = FileBuilder.build(cache, 'n', rootf)
        ino = os.stat(os.path.join(root, 'out', 'o.txt'))
        for i in range(2):
            n += 1
            del log[:]
            if i == 1:
                write(os.path.join(root, 'other', 'unobserved.txt'), 'changed')
            val = FileBuilder.build(cache, 'n', rootf)
            st = os.stat(os.path.join(root, 'out', 'o.txt'))
            if log:
                return {'reproduced': True, 'check': 'unjustified re-execution',
                        'input': 'unchanged rebuild #%d' % (i + 1), 'observed': list(log),
                        'expected': [], 'evaluations': n}
            if val != first:
                return {'reproduced': True, 'check': 'rebuild returned a different value',
                        'observed': repr(val), 'expected': repr(first), 'evaluations': n}
            if (st.st_ino, st.st_mtime_ns) != (ino.st_ino, ino.st_mtime_ns):
                return {'reproduced': True, 'check': 'reused output was rewritten',
                        'evaluations': n}
        return {'reproduced': False, 'evaluations': n}
    finally:
        shutil.rmtree(root, ignore_errors=True)


# -------------------------------------------------------------------------------------------------
def failed_reuse_case(req):
    """C14/C01: a cached subtree with two outputs is reused; creating the directory of the second
    output fails (injected OSError) and user code catches the error: nothing of the reuse may
    remain visible or on disk"""
    from file_builder import FileBuilder
    root = scratch()
    try:
        def mk(b, filename):
            write(filename, 'x')

        def sub(b):
            b.build_file(os.path.join(root, 'A', 'a.txt'), 'mk', mk)
            b.build_file(os.path.join(root, 'B', 'b.txt'), 'mk', mk)
            return 1
        seen = {}

        def rootf(b):
            try:
                return b.subbuild('S', sub)
            except OSError as e:
                seen['raised'] = type(e).__name__
                seen['virtual'] = [d for d in ('A', 'B') if b.exists(os.path.join(root, d))]
                return 'caught'
        cache = os.path.join(root, 'c.gz')
        FileBuilder.build(cache, 'n', rootf)
        real = os.mkdir

        def mkdir(p, *a, **k):
            if os.path.basename(p) == 'B':
                raise PermissionError('injected')
            return real(p, *a, **k)
        os.mkdir = mkdir
        try:
            FileBuilder.build(cache, 'n', rootf)
        finally:
            os.mkdir = real
        left = sorted(os.path.relpath(p, root) for p in snapshot(root)
                      if p not in (root, cache))
        if seen.get('raised') and (seen['virtual'] or left):
            return {'reproduced': True, 'check': 'a failed reuse leaves reservations behind',
                    'input': 'cached subbuild with outputs A/a.txt and B/b.txt; os.mkdir(B) raises '
                             'PermissionError during reuse; the caller catches it',
                    'observed': {'visible_in_the_virtual_view': seen['virtual'],
                                 'on_disk_after_commit': left}, 'evaluations': 1}
    finally:
        shutil.rmtree(root, ignore_errors=True)
    # a reused subtree whose build_file raised AFTER a nested output was built (and whose caller
    # caught the error): the nested output stays reserved -- visible to queries and kept at commit
    root = scratch()
    ref = scratch()
    try:
        def prog(base):
            def make_b(b, filename):
                write(filename, 'b')

            def make_a(b, filename):
                b.build_file(os.path.join(base, 'out', 'sub', 'b.txt'), 'make_b', make_b)
                raise ValueError('a.txt cannot be built')

            def gen(b):
                try:
                    b.build_file(os.path.join(base, 'out', 'a.txt'), 'make_a', make_a)
                except ValueError:
                    return 'a failed'
                return 'a ok'

            def f(b):
                status = b.subbuild('gen', gen)
                out = os.path.join(base, 'out')
                return [status, b.is_dir(os.path.join(out, 'sub')),
                        b.is_file(os.path.join(out, 'sub', 'b.txt')),
                        [[os.path.relpath(d, base), sorted(ds), sorted(fs)]
                         for d, ds, fs in b.walk(out)]]
            return f
        cache = os.path.join(root, 'c.gz')
        r1 = FileBuilder.build(cache, 'n', prog(root))
        r2 = FileBuilder.build(cache, 'n', prog(root))
        r_ref = FileBuilder.build(os.path.join(ref, 'c.gz'), 'n', prog(ref))
        tree = sorted(os.path.relpath(p, root) for p in snapshot(root) if p not in (root, cache))
        tree_ref = sorted(os.path.relpath(p, ref) for p in snapshot(ref)
                          if p not in (ref, os.path.join(ref, 'c.gz')))
        if r2 != r_ref or tree != tree_ref:
            return {'reproduced': True,
                    'check': 'a reused subtree loses the outputs nested below a raised build_file',
                    'input': 'gen catches the failure of build_file(out/a.txt), whose function '
                             'built out/sub/b.txt first; second, unchanged build',
                    'observed': {'second_build': repr(r2), 'from_scratch': repr(r_ref),
                                 'tree': tree, 'tree_from_scratch': tree_ref}, 'evaluations': 2}
    finally:
        shutil.rmtree(root, ignore_errors=True)
        shutil.rmtree(ref, ignore_errors=True)
    # C14 ("the error surfaces as an exception from the API call in progress"): a top-level
    # build_file is answered from the cache; putting its nested output's directory in place fails
    # (injected OSError at os.mkdir) -- the call must raise that error, with and without a caller
    # that catches it, and must not quietly run the function instead
    for catching in (False, True):
        root = scratch()
        try:
            calls = []

            def part(b, filename):
                calls.append('part')
                write(filename, 'p')

            def whole(b, filename):
                calls.append('whole')
                b.build_file(os.path.join(root, 'parts', 'p.txt'), 'part', part)
                write(filename, 'w')
            got = {}

            def rootf(b):
                try:
                    b.build_file(os.path.join(root, 'whole.txt'), 'whole', whole)
                    got['outcome'] = 'returned'
                except OSError as e:
                    got['outcome'] = type(e).__name__
                    if not catching:
                        raise
                return 1
            cache = os.path.join(root, 'c.gz')
            FileBuilder.build(cache, 'n', rootf)
            del calls[:]
            real = os.mkdir

            def mkdir(p, *a, **k):
                if os.path.basename(p) == 'parts':
                    raise PermissionError('injected')
                return real(p, *a, **k)
            os.mkdir = mkdir
            try:
                FileBuilder.build(cache, 'n', rootf)
                result = 'build returned'
            except PermissionError:
                result = 'build raised PermissionError'
            finally:
                os.mkdir = real
            expected = 'build returned' if catching else 'build raised PermissionError'
            if got.get('outcome') != 'PermissionError' or calls or result != expected:
                return {'reproduced': True,
                        'check': 'an OSError while reusing a cached build_file does not surface '
                                 'from the call in progress',
                        'input': 'whole.txt (function builds parts/p.txt) is cached; second build '
                                 'with os.mkdir(parts) raising PermissionError; caller %s' % (
                                     'catches it' if catching else 'lets it propagate'),
                        'observed': {'build_file': got.get('outcome'), 'functions_called': calls,
                                     'build': result}, 'evaluations': 3}
        finally:
            shutil.rmtree(root, ignore_errors=True)
    return {'reproduced': False, 'evaluations': 4, 'note': repr(seen)}


# -------------------------------------------------------------------------------------------------
def rollback_cases(req):
    """C02: a build that raises leaves the pre-build state (bytes + mtime of every regular file,
    no new file or directory), on several histories; the exception propagates as the same object"""
    from file_builder import FileBuilder
    n = 0

    def files_only(snap):
        return {p: v for p, v in snap.items() if v[0] == 'file'}

    def run_case(name, prepare, failing_build, allow_old_dirs=()):
        nonlocal n
        n += 1
        root = scratch()
        try:
            ctx = prepare(root)
            before = snapshot(root)
            boom = ValueError('boom-%s' % name)
            try:
                failing_build(root, ctx, boom)
                return {'reproduced': True, 'check': 'failing build did not raise', 'input': name}
            except BaseException as e:
                if e is not boom:
                    return {'reproduced': True, 'check': 'a different exception propagated',
                            'input': name, 'observed': repr(e), 'expected': repr(boom)}
            after = snapshot(root)
            fb, fa = files_only(before), files_only(after)
            for p in sorted(set(fb) | set(fa)):
                if p not in fa:
                    return {'reproduced': True, 'check': 'a pre-existing file is gone after '
                            'rollback', 'input': name, 'observed': os.path.relpath(p, root)}
                if p not in fb:
                    return {'reproduced': True, 'check': 'a file created by the failed build '
                            'remains', 'input': name, 'observed': os.path.relpath(p, root)}
                if fb[p][1:3] != fa[p][1:3]:
                    return {'reproduced': True, 'check': 'bytes or mtime of a pre-existing file '
                            'changed', 'input': name, 'observed': os.path.relpath(p, root)}
            newdirs = [p for p in after if after[p][0] == 'dir' and p not in before
                       and os.path.relpath(p, root) not in allow_old_dirs]
            if newdirs:
                return {'reproduced': True, 'check': 'a directory created by the failed build '
                        'remains', 'input': name,
                        'observed': [os.path.relpath(p, root) for p in newdirs]}
            return None
        finally:
            shutil.rmtree(root, ignore_errors=True)

    def mk(b, filename, text='x'):
        write(filename, text)
        return len(text)

    # 1. plain: new outputs and a foreign file overwritten by build_file
    def prep1(root):
        write(os.path.join(root, 'foreign.txt'), 'foreign')
        return os.path.join(root, 'c.gz')

    def fail1(root, cache, boom):
        def f(b):
            b.build_file(os.path.join(root, 'out', 'a.txt'), 'mk', mk)
            b.build_file(os.path.join(root, 'foreign.txt'), 'mk', mk, 'overwritten')
            raise boom
        FileBuilder.build(cache, 'n', f)

    # 2. D4: an output of the previous build was deleted externally, is rebuilt, then the build fails
    def prep2(root):
        cache = os.path.join(root, 'c.gz')
        FileBuilder.build(cache, 'n', lambda b: b.build_file(os.path.join(root, 'o', 'a.txt'),
                                                             'mk', mk))
        os.remove(os.path.join(root, 'o', 'a.txt'))
        return cache

    def fail2(root, cache, boom):
        def f(b):
            b.build_file(os.path.join(root, 'o', 'a.txt'), 'mk', mk)
            raise boom
        FileBuilder.build(cache, 'n', f)

    # 3. the previous build recorded directory P; P is now a foreign file; build_file(P) fails
    def prep3(root):
        cache = os.path.join(root, 'c.gz')
        FileBuilder.build(cache, 'n', lambda b: b.build_file(os.path.join(root, 'P', 'x.txt'),
                                                             'mk', mk))
        shutil.rmtree(os.path.join(root, 'P'))
        write(os.path.join(root, 'P'), 'foreign file where a directory used to be')
        return cache

    def fail3(root, cache, boom):
        def f(b):
            def bad(b2, filename):
                write(filename, 'partial')
                raise boom
            b.build_file(os.path.join(root, 'P'), 'bad', bad)
        FileBuilder.build(cache, 'n', f)

    # 4. valid cache, reused + rebuilt outputs, failure after the last statement of a nested function
    def prep4(root):
        cache = os.path.join(root, 'c.gz')
        write(os.path.join(root, 'in.txt'), 'v1')

        def f(b):
            def cp(b2, filename):
                with b2.read_text(os.path.join(root, 'in.txt')) as fh:
                    write(filename, fh.read())
            b.build_file(os.path.join(root, 'o', 'copy.txt'), 'cp', cp)
            b.build_file(os.path.join(root, 'o', 'keep.txt'), 'mk', mk)
        FileBuilder.build(cache, 'n', f)
        write(os.path.join(root, 'in.txt'), 'v2-longer')
        return cache

    def fail4(root, cache, boom):
        def f(b):
            def cp(b2, filename):
                with b2.read_text(os.path.join(root, 'in.txt')) as fh:
                    write(filename, fh.read())
            b.build_file(os.path.join(root, 'o', 'copy.txt'), 'cp', cp)
            b.build_file(os.path.join(root, 'o', 'keep.txt'), 'mk', mk)
            b.build_file(os.path.join(root, 'o2', 'new.txt'), 'mk', mk)

            def sub(b2):
                b2.build_file(os.path.join(root, 'o3', 'deep', 'n.txt'), 'mk', mk)
                raise boom
            b.subbuild('sub', sub)
        FileBuilder.build(cache, 'n', f)

    # 7. directory P of the previous build was replaced by a foreign file; build_file(P) fails and
    #    is caught, build_file(P/q) then makes P a directory again, and the build raises
    def prep7(root):
        cache = os.path.join(root, 'c.gz')
        FileBuilder.build(cache, 'n', lambda b: b.build_file(os.path.join(root, 'P', 'x.txt'),
                                                             'mk', mk))
        shutil.rmtree(os.path.join(root, 'P'))
        write(os.path.join(root, 'P'), 'foreign file where a directory used to be')
        return cache

    def fail7(root, cache, boom):
        def f(b):
            def bad(b2, filename):
                raise KeyError('no')
            try:
                b.build_file(os.path.join(root, 'P'), 'bad', bad)
            except KeyError:
                pass
            b.build_file(os.path.join(root, 'P', 'q.txt'), 'mk', mk)
            raise boom
        FileBuilder.build(cache, 'n', f)

    # 8. directory -> file swap: build 1 made outputs below out/data; build 2 builds the FILE
    #    out/data (the old outputs are moved aside by _make_room) and then raises
    def prep8(root):
        cache = os.path.join(root, 'c.gz')
        FileBuilder.build(cache, 'n', lambda b: (
            b.build_file(os.path.join(root, 'out', 'data', 'a.txt'), 'mk', mk, 'alpha'),
            b.build_file(os.path.join(root, 'out', 'data', 'sub', 'b.txt'), 'mk', mk, 'beta'))[0])
        return cache

    def fail8(root, cache, boom):
        def f(b):
            b.build_file(os.path.join(root, 'out', 'data'), 'mk', mk, 'now a file')
            raise boom
        FileBuilder.build(cache, 'n', f)

    # 9/10. the function of a rebuilt output writes its file and then calls build_file for a path
    # BELOW that file (a script error). _make_dirs must not move the half-built output aside as if
    # it were the previous build's: the roll-back would then restore the failed build's bytes.
    def prep9(root, delete=False):
        cache = os.path.join(root, 'c.gz')
        out = os.path.join(root, 'out')
        FileBuilder.build(cache, 'n', lambda b: b.build_file(out, 'mk', mk, 'v1'))
        os.utime(out, ns=(10 ** 18, 10 ** 18))
        if delete:
            os.remove(out)
        return cache

    def fail9(root, cache, boom):
        out = os.path.join(root, 'out')

        def inner(b, filename, text):
            write(filename, text)
            try:
                b.build_file(os.path.join(filename, 'child'), 'mk', mk)
            except OSError:
                pass
            raise boom
        FileBuilder.build(cache, 'n', lambda b: b.build_file(out, 'inner', inner, 'v2'))

    cases = [('new outputs and an overwritten foreign file', prep1, fail1),
             ('nested build_file below the output being rebuilt', prep9, fail9),
             ('nested build_file below a deleted output being rebuilt',
              lambda root: prep9(root, True), fail9),
             ('directory of the previous build replaced by an output file', prep8, fail8),
             ('foreign file at a former directory; caught failure, then the directory is made '
              'again by this build', prep7, fail7),
             ('rebuilt output whose old copy was deleted externally', prep2, fail2, ('o',)),
             ('recorded directory replaced by a foreign file', prep3, fail3),
             ('reused and rebuilt outputs, nested failure', prep4, fail4)]
    # the case that exercises the failed obligation first (the others still run)
    label = req.get('label', '')
    if 'removed-first' in label:
        pass
    elif 'restore_all' in label:
        cases.insert(0, cases.pop(6))
    skip_to_write = 'cache-file-written' in label
    first = None
    for case in cases:
        r = run_case(*case)
        if r:
            r['evaluations'] = n
            if not skip_to_write:
                return r
            first = first or r
    # 5. D5: the cache write fails on a first build: no cache file may be left
    root = scratch()
    try:
        n += 1
        import gzip as _gz
        real_open = _gz.open
        cache = os.path.join(root, 'c.gz')

        class Failing:
            def __init__(self, f):
                self.f = f

            def __enter__(self):
                return self

            def __exit__(self, *a):
                self.f.close()

            def write(self, data):
                raise OSError(28, 'No space left on device (injected)')

        def bad_open(filename, mode='rb', *a, **k):
            f = real_open(filename, mode, *a, **k)
            return Failing(f) if 'w' in mode else f
        _gz.open = bad_open
        try:
            try:
                FileBuilder.build(cache, 'n', lambda b: b.build_file(
                    os.path.join(root, 'o', 'a.txt'), 'mk', mk))
                raised = None
            except OSError as e:
                raised = e
        finally:
            _gz.open = real_open
        left = sorted(os.path.relpath(p, root) for p in snapshot(root) if p != root)
        if raised is not None and left:
            return {'reproduced': True, 'check': 'a failed first cache write leaves files behind',
                    'input': 'first build; gzip write raises ENOSPC', 'observed': left,
                    'evaluations': n}
    finally:
        shutil.rmtree(root, ignore_errors=True)
    # 11. the backup directory is on another device (os.rename/os.replace into or out of it raise
    #     EXDEV) and the cache write fails: whatever the library does about EXDEV when moving a
    #     file aside, it must be able to undo it -- the previous outputs and cache file are back
    root = scratch()
    try:
        n += 1
        import errno
        import gzip as _gz
        cache = os.path.join(root, 'c.gz')
        out = os.path.join(root, 'o', 'a.txt')
        FileBuilder.build(cache, 'n', lambda b: b.build_file(out, 'mk', mk, 'v1'))
        before = snapshot(root)
        real_rename, real_replace, real_open = os.rename, os.replace, _gz.open

        def crossing(a, b_):
            ina = os.path.abspath(os.fsdecode(a)).startswith(root + os.sep)
            inb = os.path.abspath(os.fsdecode(b_)).startswith(root + os.sep)
            return ina != inb

        def rename(a, b_, *x, **k):
            if crossing(a, b_):
                raise OSError(errno.EXDEV, 'Invalid cross-device link (injected)')
            return real_rename(a, b_, *x, **k)

        def replace(a, b_, *x, **k):
            if crossing(a, b_):
                raise OSError(errno.EXDEV, 'Invalid cross-device link (injected)')
            return real_replace(a, b_, *x, **k)

        def bad_open(filename, mode='rb', *a, **k):
            if 'w' in mode:
                raise OSError(28, 'No space left on device (injected)')
            return real_open(filename, mode, *a, **k)
        os.rename, os.replace, _gz.open = rename, replace, bad_open
        try:
            try:
                FileBuilder.build(cache, 'n', lambda b: b.build_file(out, 'mk', mk, 'v2 longer'))
                raised = None
            except OSError as e:
                raised = e
        finally:
            os.rename, os.replace, _gz.open = real_rename, real_replace, real_open
        after = snapshot(root)
        if raised is not None and files_only(before) != files_only(after):
            return {'reproduced': True,
                    'check': 'files moved aside across devices are not put back by the rollback',
                    'input': 'second build rebuilds o/a.txt; os.rename/os.replace between the tree '
                             'and the backup directory raise EXDEV; the cache write raises ENOSPC',
                    'observed': sorted(os.path.relpath(p, root) for p in
                                       set(files_only(before)) ^ set(files_only(after)))
                    or 'bytes/mtime differ', 'evaluations': n}
    finally:
        shutil.rmtree(root, ignore_errors=True)
    if first is not None:
        return first
    # 6. the root function returns, the previous build had an output this build no longer makes,
    #    and the cache write fails (at the open, or at the write): nothing may have been committed
    import gzip as _gz
    for fail_at in ('open', 'write'):
        root = scratch()
        real_open = _gz.open
        try:
            n += 1
            cache = os.path.join(root, 'c.gz')
            FileBuilder.build(cache, 'n', lambda b: (
                b.build_file(os.path.join(root, 'o', 'a.txt'), 'mk', mk),
                b.build_file(os.path.join(root, 'old', 'stale.txt'), 'mk', mk))[0])
            before = snapshot(root)

            class FailingW:
                def __init__(self, f):
                    self.f = f

                def __enter__(self):
                    return self

                def __exit__(self, *a):
                    self.f.close()

                def write(self, data):
                    raise OSError(28, 'No space left on device (injected)')

            def bad_open(filename, mode='rb', *a, **k):
                if 'w' in mode and fail_at == 'open':
                    raise OSError(13, 'Permission denied (injected)')
                f = real_open(filename, mode, *a, **k)
                return FailingW(f) if 'w' in mode else f
            _gz.open = bad_open
            try:
                try:
                    FileBuilder.build(cache, 'n', lambda b: b.build_file(
                        os.path.join(root, 'o', 'a.txt'), 'mk', mk))
                    raised = None
                except OSError as e:
                    raised = e
            finally:
                _gz.open = real_open
            after = snapshot(root)
            fb, fa = files_only(before), files_only(after)
            if raised is not None:
                for p_ in sorted(set(fb) | set(fa)):
                    if p_ not in fa or p_ not in fb or fb[p_][1:3] != fa[p_][1:3]:
                        return {'reproduced': True,
                                'check': 'a failed cache write (%s) does not leave the pre-build '
                                         'state' % fail_at,
                                'input': 'build 1: o/a.txt + old/stale.txt; build 2: o/a.txt only; '
                                         'gzip %s raises' % fail_at,
                                'observed': os.path.relpath(p_, root), 'evaluations': n}
        finally:
            _gz.open = real_open
            shutil.rmtree(root, ignore_errors=True)
    return {'reproduced': False, 'evaluations': n}


# -------------------------------------------------------------------------------------------------
def identity_cases(req):
    """C07: same cache entry <=> same name, same normalised path, JSON-equal arguments"""
    import itertools
    from file_builder import FileBuilder
    root = scratch()
    n = 0
    try:
        args = [[], {}, True, 1, 1.0, 0, False, None, '1', [1], (1,), [True], [{}], {'a': 1},
                {'a': 1.0}, {'a': True}, {'1': 0}, {1: 0}, [[]], '']

        import replay_json

        def jeq(a, b):
            # JSON equality of the statement: 1 == 1.0, bool != number, lists == tuples
            return replay_json.ref_jeq(json.loads(json.dumps(a)), json.loads(json.dumps(b)))
        cache = os.path.join(root, 'c.gz')
        for a, b in itertools.combinations(args, 2):
            n += 1
            calls = []

            def f(bb, x):
                calls.append(x)
                return 1

            def rootf(bb):
                bb.subbuild('f', f, a)
                try:
                    bb.subbuild('f', f, b)
                    return 'both'
                except RuntimeError:
                    return 'duplicate'
            if os.path.exists(cache):
                os.remove(cache)
            r = FileBuilder.build(cache, 'n', rootf)
            same = (r == 'duplicate')
            if same != jeq(a, b):
                return {'reproduced': True, 'check': 'subbuild identity differs from JSON equality',
                        'input': repr((a, b)), 'observed': 'same entry' if same else 'different',
                        'expected': 'same entry' if jeq(a, b) else 'different', 'evaluations': n}
        # path spellings
        target = os.path.join(root, 'd', 'out', 'gen.txt')
        spellings = [target, os.path.join(root, 'd', 'out') + os.sep + os.sep + 'gen.txt',
                     os.path.join(root, 'd', 'out', '.', 'gen.txt'),
                     os.path.join(root, 'd', 'x', '..', 'out', 'gen.txt'), os.fsencode(target),
                     __import__('pathlib').Path(target)]
        cache2 = os.path.join(root, 'c2.gz')
        seen = []

        def mk(bb, filename):
            seen.append(filename)
            write(filename, 'x')
        for sp in spellings:
            n += 1
            del seen[:]
            FileBuilder.build(cache2, 'n', lambda bb: bb.build_file(sp, 'mk', mk))
            if sp is spellings[0]:
                if seen != [target]:
                    return {'reproduced': True, 'check': 'function did not get the normalised path',
                            'observed': repr(seen), 'evaluations': n}
            elif seen:
                return {'reproduced': True, 'check': 'another spelling of the same path is a '
                        'different cache entry', 'input': repr(sp), 'observed': repr(seen),
                        'evaluations': n}
        # the same relative spelling under two working directories names two files: the path is
        # made absolute at each call, relative to the cwd of that moment
        cwd0 = os.getcwd()
        try:
            got = []

            def mkrel(bb, filename):
                got.append(filename)
                write(filename, 'r')
            for sub in ('w1', 'w2'):
                n += 1
                wd = os.path.join(root, sub)
                os.makedirs(wd)
                os.chdir(wd)
                FileBuilder.build(os.path.join(wd, 'c.gz'), 'n',
                                  lambda bb: bb.build_file(os.path.join('rel', 'o.txt'), 'mk', mkrel))
            want = [os.path.join(root, sub, 'rel', 'o.txt') for sub in ('w1', 'w2')]
            if got != want or not all(os.path.isfile(w) for w in want):
                return {'reproduced': True, 'check': 'a relative path is not resolved against the '
                        'working directory of the call', 'input': "build_file('rel/o.txt') in w1, "
                        "then after os.chdir in w2", 'observed': repr(got), 'expected': repr(want),
                        'evaluations': n}
        finally:
            os.chdir(cwd0)
        return {'reproduced': False, 'evaluations': n}
    finally:
        shutil.rmtree(root, ignore_errors=True)


# -------------------------------------------------------------------------------------------------
def comparison_cases(req):
    """C13: HASH tracks content (also when size and mtime are preserved, also for appended NUL
    bytes and large files) and ignores pure timestamp changes; METADATA re-executes exactly when
    size or mtime_ns differ (also by 1 ns).  Inputs read top-level and nested in a reused subtree,
    and output integrity."""
    from file_builder import FileBuilder, FileComparison
    n = 0

    def scenario(mode, mutate, expect_rerun, what, nested, size=None):
        nonlocal n
        n += 1
        root = scratch()
        try:
            src = os.path.join(root, 'in.bin')
            with open(src, 'wb') as f:
                f.write(b'A' * (size or 10))
            os.utime(src, ns=(10 ** 18, 10 ** 18))
            log = []

            def reader(b):
                log.append('reader')
                with b.read_binary(src, mode) as fh:
                    return len(fh.read())

            def outer(b):
                log.append('outer')
                return b.subbuild('reader', reader)

            def rootf(b):
                return b.subbuild('outer', outer) if nested else b.subbuild('reader', reader)
            cache = os.path.join(root, 'c.gz')
            FileBuilder.build(cache, 'n', rootf)
            del log[:]
            mutate(src)
            FileBuilder.build(cache, 'n', rootf)
            reran = 'reader' in log
            if reran != expect_rerun:
                return {'reproduced': True, 'check': 'comparison mode %s: %s' % (
                    mode.name, 'change not detected' if expect_rerun else 'unjustified re-execution'),
                    'input': '%s, %s' % (what, 'nested in a reused subtree' if nested
                                         else 'top level'),
                    'observed': list(log), 'evaluations': n}
            return None
        finally:
            shutil.rmtree(root, ignore_errors=True)

    def same_meta_new_content(p):
        st = os.stat(p)
        data = open(p, 'rb').read()
        with open(p, 'wb') as f:
            f.write(b'B' + data[1:])
        os.utime(p, ns=(st.st_atime_ns, st.st_mtime_ns))

    def append_nul_keep_mtime(p):
        st = os.stat(p)
        with open(p, 'ab') as f:
            f.write(b'\x00' * 7)
        os.utime(p, ns=(st.st_atime_ns, st.st_mtime_ns))

    def repeat_tail_keep_mtime(p):
        st = os.stat(p)
        data = open(p, 'rb').read()
        with open(p, 'ab') as f:
            f.write(data[:5000])
        os.utime(p, ns=(st.st_atime_ns, st.st_mtime_ns))

    def touch_only(p):
        st = os.stat(p)
        os.utime(p, ns=(st.st_atime_ns, st.st_mtime_ns + 5 * 10 ** 9))

    def mtime_plus_1ns(p):
        st = os.stat(p)
        os.utime(p, ns=(st.st_atime_ns, st.st_mtime_ns + 1))

    H, Mt = FileComparison.HASH, FileComparison.METADATA
    cases = [(H, same_meta_new_content, True, 'content changed, size and mtime preserved', None),
             (H, append_nul_keep_mtime, True, 'NUL bytes appended, mtime preserved', None),
             (H, repeat_tail_keep_mtime, True, 'tail repeating earlier bytes appended to a 70 KiB '
              'file, mtime preserved', 70000),
             (H, touch_only, False, 'pure timestamp change', None),
             (Mt, mtime_plus_1ns, True, 'mtime_ns + 1', None),
             (Mt, touch_only, True, 'timestamp change', None),
             (Mt, same_meta_new_content, False, 'content changed, size and mtime preserved', None)]
    for nested in (False, True):
        for (mode, mut, exp, what, size) in cases:
            r = scenario(mode, mut, exp, what, nested, size)
            if r:
                return r
    # output integrity + read-back in a reused subtree with different modes
    for build_mode, read_mode, mut, exp, what in (
            (Mt, H, same_meta_new_content, True, 'output built with METADATA, read back with HASH, '
             'content changed with size/mtime preserved'),
            (H, Mt, touch_only, True, 'output built with HASH, read back with METADATA, '
             'timestamp changed'),
            (H, H, same_meta_new_content, True, 'output tampered, size and mtime preserved'),
            (H, H, touch_only, False, 'output touched only')):
        n += 1
        root = scratch()
        try:
            out = os.path.join(root, 'o', 'out.bin')
            log = []

            def mkout(b, filename):
                log.append('mkout')
                with open(filename, 'wb') as f:
                    f.write(b'A' * 10)

            def consumer(b):
                log.append('consumer')
                b.build_file_with_comparison(out, build_mode, 'mkout', mkout)
                with b.read_binary(out, read_mode) as fh:
                    return len(fh.read())
            cache = os.path.join(root, 'c.gz')
            FileBuilder.build(cache, 'n', lambda b: b.subbuild('consumer', consumer))
            del log[:]
            mut(out)
            FileBuilder.build(cache, 'n', lambda b: b.subbuild('consumer', consumer))
            reran = 'consumer' in log
            if reran != exp:
                return {'reproduced': True, 'check': 'comparison modes on an output read back: %s'
                        % ('change not detected' if exp else 'unjustified re-execution'),
                        'input': what, 'observed': list(log), 'evaluations': n}
        finally:
            shutil.rmtree(root, ignore_errors=True)
    # inputs read nested in a reused subtree, at positions a replay could skip: (a) after a nested
    # call that raised and was caught, (b) inside the function of a nested HASH output that is
    # itself intact
    for where in ('after a caught failing subbuild', 'after a caught failing build_file',
                  'inside the function of an intact nested HASH output',
                  'inside the function of an intact nested METADATA output'):
        for mode, mut in ((H, same_meta_new_content), (Mt, touch_only)):
            n += 1
            root = scratch()
            try:
                src = os.path.join(root, 'in.bin')
                with open(src, 'wb') as f:
                    f.write(b'A' * 10)
                os.utime(src, ns=(10 ** 18, 10 ** 18))
                out = os.path.join(root, 'o', 'gen.bin')
                log = []

                def boom(b, *a):
                    raise KeyError('nested failure')

                def gen(b, filename):
                    log.append('gen')
                    with b.read_binary(src, mode) as fh:
                        data = fh.read()
                    with open(filename, 'wb') as f:
                        f.write(b'derived from %d bytes' % len(data))

                def outer(b):
                    log.append('outer')
                    if where.startswith('after a caught failing subbuild'):
                        try:
                            b.subbuild('boom', boom)
                        except KeyError:
                            pass
                    elif where.startswith('after a caught failing build_file'):
                        try:
                            b.build_file(os.path.join(root, 'o', 'never.txt'), 'boom', boom)
                        except KeyError:
                            pass
                    else:
                        b.build_file_with_comparison(
                            out, H if 'HASH output' in where else Mt, 'gen', gen)
                        return 'built'
                    with b.read_binary(src, mode) as fh:
                        return len(fh.read())
                cache = os.path.join(root, 'c.gz')
                FileBuilder.build(cache, 'n', lambda b: b.subbuild('outer', outer))
                del log[:]
                mut(src)
                FileBuilder.build(cache, 'n', lambda b: b.subbuild('outer', outer))
                if not log:
                    return {'reproduced': True,
                            'check': 'a change of an input read nested in a reused subtree is not '
                                     'detected',
                            'input': 'input read with %s %s; %s' % (
                                mode.name, where, 'content changed, size and mtime preserved'
                                if mode == H else 'timestamp changed'),
                            'observed': 'nothing was re-executed', 'evaluations': n}
            finally:
                shutil.rmtree(root, ignore_errors=True)
    # a HASH output that a "reproducible" function rebuilds with the same size and a pinned mtime:
    # the rebuilt bytes are what is recorded; afterwards an unchanged tree rebuilds nothing and a
    # tampered output (old bytes put back, same size and mtime) is detected
    EPOCH = 1600000000 * 10 ** 9
    for tamper in (False, True):
        n += 1
        root = scratch()
        try:
            inp, out = os.path.join(root, 'in.txt'), os.path.join(root, 'out.txt')
            calls = []

            def make_out(b, filename, input_filename):
                calls.append('make_out')
                with b.read_text(input_filename, H) as fh:
                    text = fh.read()
                write(filename, text)
                os.utime(filename, ns=(EPOCH, EPOCH))

            def prog(b):
                b.build_file_with_comparison(out, H, 'make_out', make_out, inp)
            cache = os.path.join(root, 'c.gz')
            write(inp, 'AAAA')
            FileBuilder.build(cache, 'n', prog)
            write(inp, 'BBBB')
            FileBuilder.build(cache, 'n', prog)
            if tamper:
                write(out, 'AAAA')
                os.utime(out, ns=(EPOCH, EPOCH))
            del calls[:]
            FileBuilder.build(cache, 'n', prog)
            if bool(calls) != tamper or open(out).read() != 'BBBB':
                return {'reproduced': True,
                        'check': 'HASH output rebuilt with identical size and mtime: %s' % (
                            'tampering not detected' if tamper else 'unchanged output rebuilt'),
                        'input': 'function pins the mtime; input AAAA -> BBBB; then %s'
                                 % ('old bytes put back' if tamper else 'nothing changes'),
                        'observed': {'calls': list(calls), 'content': open(out).read()},
                        'evaluations': n}
        finally:
            shutil.rmtree(root, ignore_errors=True)
    # one operation declares the same input twice, METADATA first and then HASH: the HASH record
    # must still detect a content change that keeps size and mtime
    n += 1
    root = scratch()
    try:
        inp = os.path.join(root, 'in.txt')
        calls = []

        def reader(b):
            calls.append('reader')
            b.declare_read(inp, Mt)
            b.declare_read(inp, H)
            return open(inp).read()
        cache = os.path.join(root, 'c.gz')
        write(inp, 'AAAA')
        os.utime(inp, ns=(EPOCH, EPOCH))
        FileBuilder.build(cache, 'n', lambda b: b.subbuild('reader', reader))
        write(inp, 'BBBB')
        os.utime(inp, ns=(EPOCH, EPOCH))
        del calls[:]
        r = FileBuilder.build(cache, 'n', lambda b: b.subbuild('reader', reader))
        if r != 'BBBB' or not calls:
            return {'reproduced': True, 'check': 'a second declare_read of the same file with HASH '
                    'is not recorded', 'input': 'declare_read(f, METADATA); declare_read(f, HASH); '
                    'content changed with size and mtime kept', 'observed': r, 'evaluations': n}
    finally:
        shutil.rmtree(root, ignore_errors=True)
    return {'reproduced': False, 'evaluations': n}


# -------------------------------------------------------------------------------------------------
def transparency_cases(req):
    """C01 (differential): a history of two builds around an external change of one path; the
    incremental second build must give the outcome (value or exception class), the user-function
    side effects and the output tree of a from-scratch build on the same inputs.  The external
    changes cover every pair of {absent, file 'a', file 'b', empty dir, dir with a child} and every
    query kind, so recorded values AND recorded exception classes are exercised."""
    from file_builder import FileBuilder
    n = 0
    STATES = ['absent', 'file-a', 'file-b', 'dir', 'dir-child']

    def put(p, state):
        if os.path.isdir(p) and not os.path.islink(p):
            shutil.rmtree(p)
        elif os.path.lexists(p):
            os.remove(p)
        if state == 'file-a':
            write(p, 'a')
        elif state == 'file-b':
            write(p, 'bb')
        elif state == 'dir':
            os.makedirs(p)
        elif state == 'dir-child':
            os.makedirs(p)
            write(os.path.join(p, 'child'), 'c')

    def q_read(b, p):
        with b.read_text(p) as f:
            return f.read()
    QUERIES = {'read': q_read, 'is_file': lambda b, p: b.is_file(p),
               'is_dir': lambda b, p: b.is_dir(p), 'exists': lambda b, p: b.exists(p),
               'get_size': lambda b, p: b.get_size(p),
               'list_dir': lambda b, p: b.list_dir(p)}
    CAUGHT = {'none': (), 'FileNotFoundError': (FileNotFoundError,), 'OSError': (OSError,)}

    for qname, q in sorted(QUERIES.items()):
        for caught_name, caught in sorted(CAUGHT.items()):
            for s1 in STATES:
                for s2 in STATES:
                    if s1 == s2:
                        continue
                    n += 1
                    outcomes = []
                    roots = []
                    try:
                        for variant in ('incremental', 'scratch'):
                            root = scratch()
                            roots.append(root)
                            p = os.path.join(root, 'in', 'x')
                            os.makedirs(os.path.join(root, 'in'))
                            calls = []

                            def load(b, p):
                                calls.append('load')
                                try:
                                    return q(b, p)
                                except caught:
                                    return 'fallback'

                            def wr(b, filename, value):
                                calls.append('wr')
                                with open(filename, 'w') as f:
                                    f.write(repr(value))

                            def prog(b):
                                v = b.subbuild('load', load, p)
                                b.build_file(os.path.join(root, 'out', 'r.txt'), 'wr', wr, v)
                                return v

                            def run():
                                try:
                                    return ('ok', FileBuilder.build(
                                        os.path.join(root, 'cache.gz'), 'demo', prog))
                                except Exception as e:
                                    return ('raise', type(e).__name__)
                            if variant == 'incremental':
                                put(p, s1)
                                run()
                            put(p, s2)
                            del calls[:]
                            res = run()
                            snap = {k[len(root):]: v[:2] if v[0] == 'file' else v[0]
                                    for k, v in snapshot(root).items()
                                    if not k.endswith('cache.gz')}
                            outcomes.append((res, snap, variant == 'scratch' or None))
                        # a failing build is rolled back to the state before it (C02), so output
                        # trees are compared for successful builds only
                        if outcomes[0][0] != outcomes[1][0] or (
                                outcomes[0][0][0] == 'ok' and outcomes[0][1] != outcomes[1][1]):
                            return {'reproduced': True,
                                    'check': 'incremental build differs from a from-scratch build',
                                    'input': '%s(x) with %s caught; x: %s -> %s between the builds'
                                             % (qname, caught_name, s1, s2),
                                    'observed': {'incremental': repr(outcomes[0][0]),
                                                 'from_scratch': repr(outcomes[1][0])},
                                    'evaluations': n}
                    finally:
                        for r in roots:
                            shutil.rmtree(r, ignore_errors=True)
    # a caught failing nested build_file, then a regular file appears where its parent directory
    # would have to be made: from scratch the build_file call now fails in set-up with another
    # exception (NotADirectoryError escapes); the incremental build must do the same
    n += 1
    roots = []
    try:
        outs = []
        for variant in ('incremental', 'scratch'):
            root = scratch()
            roots.append(root)

            def bad(b, filename):
                raise KeyError('cannot build')

            def tolerant(b):
                try:
                    b.build_file(os.path.join(root, 'gen', 'sub', 'o.txt'), 'bad', bad)
                except KeyError:
                    return 'skipped'
                return 'built'

            def prog(b):
                return b.subbuild('tolerant', tolerant)

            def run():
                try:
                    return ('ok', FileBuilder.build(os.path.join(root, 'cache.gz'), 'demo', prog))
                except Exception as e:
                    return ('raise', type(e).__name__)
            if variant == 'incremental':
                run()
            write(os.path.join(root, 'gen'), 'a regular file where the directory would be')
            outs.append(run())
        if outs[0] != outs[1]:
            return {'reproduced': True,
                    'check': 'incremental build differs from a from-scratch build',
                    'input': 'subbuild tolerates a failing build_file(gen/sub/o.txt); then a regular '
                             'file gen appears',
                    'observed': {'incremental': repr(outs[0]), 'from_scratch': repr(outs[1])},
                    'evaluations': n}
    finally:
        for r in roots:
            shutil.rmtree(r, ignore_errors=True)
    # the directory of a recorded output is replaced by a regular file; the function tolerates the
    # OSError of that build_file call: from scratch it returns normally, and so must the
    # incremental build (the stale record is simply not reusable)
    n += 1
    roots = []
    try:
        outs = []
        for variant in ('incremental', 'scratch'):
            root = scratch()
            roots.append(root)

            def mkf(b, filename, text):
                write(filename, text)

            def reports(b):
                b.build_file(os.path.join(root, 'summary.txt'), 'mkf', mkf, 's')
                try:
                    b.build_file(os.path.join(root, 'reports', 'report.txt'), 'mkf', mkf, 'r')
                except OSError as e:
                    return 'summary only (%s)' % type(e).__name__
                return 'both'

            def prog(b):
                return b.subbuild('reports', reports)

            def run():
                try:
                    return ('ok', FileBuilder.build(os.path.join(root, 'cache.gz'), 'demo', prog))
                except Exception as e:
                    return ('raise', type(e).__name__)
            if variant == 'incremental':
                run()
                shutil.rmtree(os.path.join(root, 'reports'))
            write(os.path.join(root, 'reports'), 'a regular file')
            outs.append(run())
        if outs[0] != outs[1]:
            return {'reproduced': True,
                    'check': 'incremental build differs from a from-scratch build',
                    'input': 'subbuild builds reports/report.txt and tolerates OSError; the '
                             'directory reports is replaced by a regular file',
                    'observed': {'incremental': repr(outs[0]), 'from_scratch': repr(outs[1])},
                    'evaluations': n}
    finally:
        for r in roots:
            shutil.rmtree(r, ignore_errors=True)
    # a caught failing build_file inside a cached subbuild; then something foreign appears at the
    # target of the failed call: from scratch the call first removes a file standing there (or
    # fails with IsADirectoryError on a directory); the replay must not just repeat "failed"
    for planted in ('file', 'dir'):
        n += 1
        roots = []
        try:
            outs = []
            for variant in ('incremental', 'scratch'):
                root = scratch()
                roots.append(root)
                target = os.path.join(root, 'out', 'x.txt')

                def failing(b, filename):
                    raise ValueError('cannot build')

                def step(b):
                    try:
                        b.build_file(target, 'failing', failing)
                        return 'built'
                    except Exception as e:
                        return 'caught ' + type(e).__name__

                def prog(b):
                    return [b.subbuild('step', step), b.exists(target)]

                def run():
                    try:
                        return ('ok', FileBuilder.build(os.path.join(root, 'cache.gz'), 'demo',
                                                        prog))
                    except Exception as e:
                        return ('raise', type(e).__name__)
                if variant == 'incremental':
                    run()
                os.makedirs(os.path.join(root, 'out'), exist_ok=True)
                if planted == 'file':
                    write(target, 'foreign')
                else:
                    os.makedirs(target)
                    write(os.path.join(target, 'inner.txt'), 'foreign')
                res = run()
                outs.append((res, os.path.isfile(target)))
            if outs[0] != outs[1]:
                return {'reproduced': True,
                        'check': 'incremental build differs from a from-scratch build',
                        'input': 'cached subbuild tolerates a failing build_file(out/x.txt); a '
                                 'foreign %s is planted at out/x.txt' % planted,
                        'observed': {'incremental': repr(outs[0]), 'from_scratch': repr(outs[1])},
                        'evaluations': n}
        finally:
            for r in roots:
                shutil.rmtree(r, ignore_errors=True)
    return {'reproduced': False, 'evaluations': n}


# -------------------------------------------------------------------------------------------------
def version_cases(req):
    """C06: two builds whose version maps differ in one entry (or not at all).  A function is
    re-executed in the second build exactly when its own version, or the version of a function it
    (transitively) called, is not JSON-equal to the recorded one; a name absent from the map has
    version None; True != 1, 1 == 1.0, dict key order is irrelevant.  Also compared with a
    from-scratch build of the second configuration (return value and output bytes)."""
    from file_builder import FileBuilder
    from replay_json import ref_jeq
    ABSENT = object()
    vals = [ABSENT, None, 0, False, 1, True, 1.0, '', '1', [0, 1], [False, True], {'a': 1, 'b': 2},
            {'b': 2, 'a': 1}, {'a': 1, 'b': 2.0}, 2, [1], [[1]], {}]
    n = 0

    def val(v):
        return None if v is ABSENT else v

    def vmap(name, v):
        return {} if v is ABSENT else {name: v}

    for name in ('leaf', 'mk', 'top', 'other'):
        for v1 in vals:
            for v2 in vals:
                n += 1
                root = scratch()
                ref = scratch()
                try:
                    log = []

                    def make(base):
                        def leaf(b, k):
                            log.append('leaf')
                            return k * 7

                        def mk(b, filename, text):
                            log.append('mk')
                            write(filename, text)
                            return len(text)

                        def other(b):
                            log.append('other')
                            return 'o'

                        def top(b):
                            log.append('top')
                            x = b.subbuild('leaf', leaf, 3)
                            y = b.build_file(os.path.join(base, 'out', 'f.txt'), 'mk', mk,
                                             'v%d' % x)
                            return [x, y]

                        def prog(b):
                            return [b.subbuild('top', top), b.subbuild('other', other)]
                        return prog
                    cache = os.path.join(root, 'c.gz')
                    FileBuilder.build_versioned(cache, 'n', vmap(name, v1), make(root))
                    del log[:]
                    r2 = FileBuilder.build_versioned(cache, 'n', vmap(name, v2), make(root))
                    ran = sorted(set(log))
                    same = ref_jeq(val(v1), val(v2))
                    if same:
                        expect = []
                    else:
                        expect = {'leaf': ['leaf', 'top'], 'mk': ['mk', 'top'], 'top': ['top'],
                                  'other': ['other']}[name]
                    del log[:]
                    r_ref = FileBuilder.build_versioned(os.path.join(ref, 'c.gz'), 'n',
                                                        vmap(name, v2), make(ref))
                    if ran != sorted(expect) or r2 != r_ref:
                        return {'reproduced': True,
                                'check': 'version change of %r from %r to %r: re-executed %r, '
                                         'expected %r' % (name, 'absent' if v1 is ABSENT else v1,
                                                          'absent' if v2 is ABSENT else v2, ran,
                                                          sorted(expect)),
                                'input': 'build_versioned twice with versions %r then %r'
                                         % (vmap(name, v1), vmap(name, v2)),
                                'observed': {'ran': ran, 'result': repr(r2), 'scratch': repr(r_ref)},
                                'evaluations': n}
                finally:
                    shutil.rmtree(root, ignore_errors=True)
                    shutil.rmtree(ref, ignore_errors=True)
    # a deeper call graph: outputs built two subbuild levels down stay cached when only the version
    # of an unrelated function changes -- and that function, re-executed, must see them (virtual
    # view of reused outputs) exactly as in a build from scratch
    for changed in ('index', 'page', 'section', 'site', None):
        n += 1
        root = scratch()
        ref = scratch()
        try:
            log = []

            def make(base):
                def page(b, filename, i):
                    log.append('page')
                    write(filename, 'page %d' % i)

                def section(b):
                    log.append('section')
                    for i in (1, 2):
                        b.build_file(os.path.join(base, 'out', 'pages', 'p%d.txt' % i), 'page',
                                     page, i)
                    return 2

                def site(b):
                    log.append('site')
                    return b.subbuild('section', section)

                def index(b):
                    log.append('index')
                    d = os.path.join(base, 'out', 'pages')
                    return [b.is_dir(d), sorted(b.list_dir(d)) if b.is_dir(d) else None,
                            b.is_file(os.path.join(d, 'p1.txt'))]

                def prog(b):
                    return [b.subbuild('site', site), b.subbuild('index', index)]
                return prog
            cache = os.path.join(root, 'c.gz')
            v2 = {changed: 2} if changed else {}
            FileBuilder.build_versioned(cache, 'n', {}, make(root))
            del log[:]
            r2 = FileBuilder.build_versioned(cache, 'n', v2, make(root))
            ran = sorted(set(log))
            del log[:]
            r_ref = FileBuilder.build_versioned(os.path.join(ref, 'c.gz'), 'n', v2, make(ref))
            expect = {'index': ['index'], 'page': ['page', 'section', 'site'],
                      'section': ['section', 'site'], 'site': ['site'], None: []}[changed]
            tree = sorted(os.path.relpath(p, root) for p in snapshot(root) if p not in (root, cache))
            tree_ref = sorted(os.path.relpath(p, ref) for p in snapshot(ref)
                              if p not in (ref, os.path.join(ref, 'c.gz')))
            if ran != expect or r2 != r_ref or tree != tree_ref:
                return {'reproduced': True,
                        'check': 'version change of %r in a two-level call graph' % (changed,),
                        'input': 'site -> section -> build_file(out/pages/p1.txt, p2.txt); index '
                                 'lists out/pages; versions {} then %r' % (v2,),
                        'observed': {'ran': ran, 'expected_to_run': expect, 'result': repr(r2),
                                     'scratch': repr(r_ref), 'tree': tree, 'tree_scratch': tree_ref},
                        'evaluations': n}
        finally:
            shutil.rmtree(root, ignore_errors=True)
            shutil.rmtree(ref, ignore_errors=True)
    return {'reproduced': False, 'evaluations': n}


# -------------------------------------------------------------------------------------------------
def clean_cases(req):
    """C12: clean deletes the recorded outputs (even if modified), the cache file and the created
    directories that are empty afterwards, and nothing else; twice = once; a build after clean
    behaves like a first build"""
    from file_builder import FileBuilder
    n = 0

    def mk(b, filename, text='x'):
        write(filename, text)
        return len(text)

    def prog(root, log):
        def caught(b):
            log.append('caught')
            b.build_file(os.path.join(root, 'out', 'gen', 'partial.txt'), 'mk', mk, 'p')
            raise ValueError('after a nested output')

        def f(b):
            log.append('root')
            b.build_file(os.path.join(root, 'out', 'obj', 'a.txt'), 'mk', mk, 'a')
            b.build_file(os.path.join(root, 'out', 'longer-name', 'b.txt'), 'mk', mk, 'b')
            try:
                b.subbuild('caught', caught)
            except ValueError:
                pass
            return 1
        return f

    def rel(root, snap):
        return {os.path.relpath(p, root): (v[0] if v[0] == 'dir' else v[:2])
                for p, v in snap.items() if p != root}

    scenarios = [
        ('plain', lambda root: None),
        ('foreign file planted in a created directory',
         lambda root: write(os.path.join(root, 'out', 'longer-name', 'user.txt'), 'mine')),
        ('output modified after the build',
         lambda root: write(os.path.join(root, 'out', 'obj', 'a.txt'), 'changed by hand')),
        ('foreign directory planted in a created directory',
         lambda root: os.makedirs(os.path.join(root, 'out', 'obj', 'userdir'))),
    ]
    for name, tamper in scenarios:
        n += 1
        root = scratch()
        try:
            write(os.path.join(root, 'keep.txt'), 'pre-existing')
            cache = os.path.join(root, 'state', 'build', 'c.gz')
            log = []
            FileBuilder.build(cache, 'n', prog(root, log))
            tamper(root)
            foreign = {k: v for k, v in rel(root, snapshot(root)).items()
                       if k == 'keep.txt' or 'user' in k}
            FileBuilder.clean(cache, 'n')
            after = rel(root, snapshot(root))
            # expected: pre-existing + foreign entries, and the ancestors of foreign entries
            expect = dict(foreign)
            for k in list(foreign):
                d = os.path.dirname(k)
                while d:
                    expect[d] = 'dir'
                    d = os.path.dirname(d)
            if after != expect:
                extra = sorted(set(after) - set(expect))
                missing = sorted(set(expect) - set(after))
                return {'reproduced': True, 'check': 'clean leaves exactly the foreign entries',
                        'input': 'build (outputs in out/obj, out/longer-name, a nested output of a '
                                 'caught failing subbuild, cache in state/build), %s, clean' % name,
                        'observed': {'left_behind': extra, 'wrongly_removed': missing},
                        'evaluations': n}
            before2 = snapshot(root)
            FileBuilder.clean(cache, 'n')
            if snapshot(root) != before2:
                return {'reproduced': True, 'check': 'clean twice differs from clean once',
                        'input': name, 'evaluations': n}
            del log[:]
            FileBuilder.build(cache, 'n', prog(root, log))
            if sorted(log) != ['caught', 'root']:
                return {'reproduced': True, 'check': 'a build after clean is not a first build',
                        'input': name, 'observed': list(log), 'evaluations': n}
        finally:
            shutil.rmtree(root, ignore_errors=True)
    # no cache file: nothing happens
    n += 1
    root = scratch()
    try:
        write(os.path.join(root, 'keep.txt'), 'k')
        before = snapshot(root)
        FileBuilder.clean(os.path.join(root, 'nope', 'c.gz'), None)
        if snapshot(root) != before:
            return {'reproduced': True, 'check': 'clean without a cache file changed the tree',
                    'evaluations': n}
    finally:
        shutil.rmtree(root, ignore_errors=True)
    return {'reproduced': False, 'evaluations': n}


# -------------------------------------------------------------------------------------------------
# thorough tier: every template that bears on a property, run on the tree as it is (bounded
# exploration next to the proofs; never counted as proved)
def property_templates(pid):
    T = {
        'C01': [transparency_cases, failed_reuse_case, version_cases, created_files_search],
        'C02': [rollback_cases],
        'C03': [rollback_cases, clean_cases, failed_setup_cases, foreign_cases],
        'C04': [view_cases, transparency_cases, failed_setup_cases],
        'C05': [effectiveness_cases, failed_reuse_case, version_cases],
        'C06': [version_cases],
        'C07': [identity_cases],
        'C08': [fence_cases, refusal_cases, reuse_registration_cases],    # race_cases: known finding, run on demand only
        'C10': [failed_setup_cases, failed_reuse_case, identity_cases],
        'C11': [aliasing_cases],
        'C12': [clean_cases],
        'C13': [comparison_cases],
        'C14': [failed_setup_cases, failed_reuse_case, rollback_cases],
        'C15': [refusal_cases],
        'C16': [rollback_cases, refusal_cases, serialiser_cases],
        'C17': [fence_cases],
        'C18': [],
    }
    return T.get(pid, [])


_RAN = []      # names of the templates run in this process (replay_all does not repeat them)


def _tracked(fn):
    import functools

    @functools.wraps(fn)
    def run(req):
        _RAN.append(fn.__name__)
        return fn(req)
    return run


def replay_all(req):
    pid = req.get('property')
    total, per = 0, {}
    for t in property_templates(pid):
        if t.__name__ in _RAN:
            continue
        r = t(dict(req, func='', label=''))
        per[t.__name__] = r.get('evaluations', 0)
        total += r.get('evaluations', 0) or 0
        if r.get('reproduced'):
            r['template'] = t.__name__
            r['templates_run'] = per
            return r
    if pid in ('C18', 'C07', 'C06', 'C11', 'C15'):
        import replay_json
        r = replay_json.replay(dict(req, func='json_util.JsonUtil.sanitize'))
        per['replay_json'] = r.get('evaluations', 0)
        total += r.get('evaluations', 0) or 0
        if r.get('reproduced'):
            r['template'] = 'replay_json'
            r['templates_run'] = per
            return r
    return {'reproduced': False, 'evaluations': total, 'templates_run': per}


# -------------------------------------------------------------------------------------------------
def foreign_cases(req):
    """C03: directories and files that no build created are never removed or touched -- also when
    they stand where an earlier build once had (and later removed) directories of its own.
    History: build 1 creates gen/sub/a.txt; build 2 no longer does (commit removes gen);
    the user then makes gen (and gen/sub, gen/README) by hand; a third build or clean follows."""
    from file_builder import FileBuilder
    n = 0

    def mk(b, filename, text):
        write(filename, text)

    def prog(root, with_gen):
        def f(b):
            b.build_file(os.path.join(root, 'keep.txt'), 'mk', mk, 'keep')
            if with_gen:
                b.build_file(os.path.join(root, 'gen', 'sub', 'a.txt'), 'mk', mk, 'a')
        return f
    for last in ('build', 'clean', 'failing build'):
        for with_readme in (False, True):
            n += 1
            base = scratch()
            try:
                root = os.path.join(base, 'project')
                os.mkdir(root)
                cache = os.path.join(base, 'cache.gz')
                FileBuilder.build(cache, 'n', prog(root, True))
                FileBuilder.build(cache, 'n', prog(root, False))
                if os.path.exists(os.path.join(root, 'gen')):
                    continue          # (set-up did not remove the stale directory: other checks)
                os.mkdir(os.path.join(root, 'gen'))
                if with_readme:
                    os.mkdir(os.path.join(root, 'gen', 'sub'))
                    write(os.path.join(root, 'gen', 'README'), 'hand-written')
                before = {p: v for p, v in snapshot(root).items() if os.sep + 'gen' in p}
                if last == 'build':
                    FileBuilder.build(cache, 'n', prog(root, False))
                elif last == 'clean':
                    FileBuilder.clean(cache, 'n')
                else:
                    def failing(b):
                        prog(root, False)(b)
                        raise ValueError('boom')
                    try:
                        FileBuilder.build(cache, 'n', failing)
                    except ValueError:
                        pass
                after = {p: v for p, v in snapshot(root).items() if os.sep + 'gen' in p}
                if before != after:
                    gone = sorted(os.path.relpath(p, root) for p in before if p not in after)
                    return {'reproduced': True,
                            'check': 'a %s removed or touched something no build created' % last,
                            'input': 'build 1 made gen/sub/a.txt, build 2 dropped it; the user made '
                                     'gen%s by hand; then %s' % (
                                         ', gen/sub and gen/README' if with_readme else '', last),
                            'observed': {'gone': gone}, 'evaluations': n}
            finally:
                shutil.rmtree(base, ignore_errors=True)
    # a foreign file planted where a nested build_file failed (and was caught) in the previous
    # build.  It is no recorded output: it must survive a rollback and clean, and it must survive
    # a committed build unless that build really executed build_file for this path (since fix
    # 16f20c0 the record is not replayed when something stands at the target, so the call is
    # executed and, like in a build from scratch, replaces what is there)
    for last in ('build', 'failing build', 'clean'):
        n += 1
        base = scratch()
        try:
            root = os.path.join(base, 'project')
            os.mkdir(root)
            cache = os.path.join(base, 'cache.gz')
            P = os.path.join(root, 'gen', 'failed.txt')

            bad_calls = []

            def bad(b, filename):
                bad_calls.append(filename)
                raise KeyError('cannot build')

            def outer(b):
                b.build_file(os.path.join(root, 'gen', 'ok.txt'), 'mk', mk, 'ok')
                try:
                    b.build_file(P, 'bad', bad)
                except KeyError:
                    return 'tolerated'

            def f(b):
                return b.subbuild('outer', outer)
            FileBuilder.build(cache, 'n', f)
            write(P, 'planted by the user')
            before = {p_: v for p_, v in snapshot(root).items() if p_ == P}
            del bad_calls[:]
            if last == 'build':
                FileBuilder.build(cache, 'n', f)
            elif last == 'clean':
                FileBuilder.clean(cache, 'n')
            else:
                def failing(b):
                    f(b)
                    raise ValueError('boom')
                try:
                    FileBuilder.build(cache, 'n', failing)
                except ValueError:
                    pass
            after = {p_: v for p_, v in snapshot(root).items() if p_ == P}
            if before != after and not (last == 'build' and bad_calls and P not in after):
                return {'reproduced': True,
                        'check': 'a %s removed or touched a foreign file' % last,
                        'input': 'previous build: subbuild tolerates a failing build_file(gen/'
                                 'failed.txt); the user plants a file there; then %s with the '
                                 'subbuild reused from the cache' % last,
                        'observed': {'file_still_there': P in after}, 'evaluations': n}
        finally:
            shutil.rmtree(base, ignore_errors=True)
    return {'reproduced': False, 'evaluations': n}


for _n in ('created_files_search', 'refusal_cases', 'fence_cases', 'aliasing_cases',
           'failed_setup_cases', 'view_cases', 'effectiveness_cases', 'failed_reuse_case',
           'rollback_cases', 'identity_cases', 'comparison_cases', 'transparency_cases',
           'version_cases', 'clean_cases', 'foreign_cases'):
    globals()[_n] = _tracked(globals()[_n])
